"""Helpers for C14 (find_link): frames, blob movies, direct driving of
FindLinker.get_relocate_candidates, Coq literal emission for Model/FindLink*.v."""
import math
import numpy as np
from fractions import Fraction
import common
from common import cZ, cQ, cnat, clist, cbool

# radii R for which the float test (dx/R)**2 + (dy/R)**2 <= 1 differs from the exact one on a
# lattice point of the circle (found by enumeration up to 40: 5-12-13 triples); such slice radii /
# feature radii are kept out of the model correspondence (counted), they stay in the monitor runs.
FLOAT_UNSAFE_RADII = set()
for _R in range(1, 64):
    for _dx in range(0, _R + 1):
        for _dy in range(_dx, _R + 1):
            if _dx * _dx + _dy * _dy == _R * _R and not ((_dx / float(_R)) ** 2 + (_dy / float(_R)) ** 2 <= 1):
                FLOAT_UNSAFE_RADII.add(_R)


class Frame(np.ndarray):
    """ndarray with a frame_no (what find_link needs from a pims frame)"""
    def __new__(cls, arr, frame_no=0):
        o = np.asarray(arr).view(cls)
        o.frame_no = frame_no
        return o

    def __array_finalize__(self, obj):
        self.frame_no = getattr(obj, 'frame_no', None)


def render(shape, blobs, noise=None, dtype=np.uint8):
    """blobs: list of (y, x, amplitude, sigma); noise: integer array added before clipping"""
    yy, xx = np.mgrid[0:shape[0], 0:shape[1]]
    a = np.zeros(shape)
    for (y, x, amp, s) in blobs:
        a += amp * np.exp(-((yy - y) ** 2 + (xx - x) ** 2) / (2.0 * s * s))
    a = np.floor(a)
    if noise is not None:
        a = a + noise
    return a.clip(0, 255).astype(dtype)


def noise_texture(rng, shape, kind):
    nrng = np.random.RandomState(rng.randint(0, 2 ** 31 - 1))
    if kind == 'none':
        return None
    if kind == 'low':
        return nrng.randint(0, 12, size=shape)
    if kind == 'rough':
        return nrng.randint(0, 25, size=shape)
    if kind == 'speckle':
        n = np.zeros(shape, dtype=int)
        k = max(1, shape[0] * shape[1] // 40)
        n[nrng.randint(0, shape[0], k), nrng.randint(0, shape[1], k)] = nrng.randint(20, 120, k)
        return n
    if kind == 'quant':      # few grey levels: the percentile threshold coincides with pixel values
        n = nrng.choice([0, 0, 0, 30, 60, 90], size=shape)
        return n
    if kind == 'texture':
        return nrng.randint(0, 60, size=shape)
    raise ValueError(kind)


# ------------------------------------------------------------------ literals
def carr(a):
    if a.ndim == 1:
        return "Node (map Leaf (%s)%%Z)" % clist([str(int(x)) if x >= 0 else "(%d)" % int(x) for x in a.tolist()]) if len(a) else "Node []"
    return "Node " + clist([carr(x) for x in a])


def cimage(a):
    return "{| shape := %s; data := %s |}" % (cpt(a.shape), carr(np.asarray(a)))


def cpt(p):
    return "(%s)%%Z" % clist([str(int(x)) if int(x) >= 0 else "(%d)" % int(x) for x in p])


def cpts(pts):
    if len(pts) == 0:
        return "(@nil (list Z))"
    return clist([cpt(p) for p in pts])


def scale_of(*vals):
    """smallest power of two k with every v*k an integer"""
    k = 1
    while any((Fraction(v) * k).denominator != 1 for v in vals):
        k *= 2
        assert k <= 1024
    return k


def cparams(sr, sep, radius, minmass, old_bg=False, fixed=True, ndim=2):
    """mk_params term: the derived radii are computed by the MODEL from the user parameters"""
    sr, sep = Fraction(sr), Fraction(sep)
    k = scale_of(sr, sep)
    return "(mk_params %s %s %s %s %s %s %s %s)" % (cZ(ndim), cZ(k), cZ(sr * k), cZ(sep * k), cZ(radius), cQ(minmass),
                                                    cbool(old_bg), cbool(fixed))


def cthr(t):
    return "None" if t is None else "(Some %s)" % cQ(float(t))


def ccm(p, m):
    return "(%s, %s)" % (cpt(p), "None" if (m is None or (isinstance(m, float) and math.isnan(m))) else "(Some %s)" % cZ(int(m)))


# --------------------------------------------- driving get_relocate_candidates
def make_linker(sr, sep, diameter, minmass, percentile, known, image, ndim=2):
    from trackpy.linking.find_link import FindLinker
    lk = FindLinker((float(sr),) * ndim, (float(sep),) * ndim, None if diameter is None else (diameter,) * ndim,
                    minmass=minmass, percentile=percentile)
    lk.init_level(np.asarray(known, dtype=float).reshape(-1, ndim), 0)
    lk.image = image
    lk.curr_t = 1
    return lk


def run_candidates(lk, pos):
    """-> (threshold or None, list of (coords tuple, mass float))"""
    coords, extra = lk.get_relocate_candidates(np.asarray(pos, dtype=float))
    thr = lk.percentile_threshold(lk.percentile)
    if coords is None:
        return thr, []
    return thr, [(tuple(int(v) for v in c), float(m)) for c, m in zip(coords, extra['mass'])]


def exact_mass(m):
    return m == m and float(m).is_integer()
