"""Shared plumbing for every check: Coq build + proof accounting, running the
executable Coq models on generated cases (vm_compute inside coqc), evidence,
known findings, violation reporting.

Run with /venv/bin/python (has numpy/scipy/pandas; trackpy is imported from
/repo's working tree, never from an installed copy)."""
import os, sys, json, time, subprocess, re, random, hashlib, shutil, fcntl, fractions, math, itertools

VERIF = os.path.dirname(os.path.dirname(os.path.abspath(__file__)))
REPO = os.environ.get('TRACKPY_REPO', '/repo')
COQ = os.path.join(VERIF, 'coq')
GUARD = 'TRACKPY_VERIF'

# the implementation is always the working tree
if REPO not in sys.path:
    sys.path.insert(0, REPO)
os.environ.setdefault('PYTHONHASHSEED', '0')
os.environ[GUARD] = '1'

Fraction = fractions.Fraction

TRUSTED_BASE_COMMON = [
    "Coq 8.16.1 kernel (coqc full .vo build; vm_compute for model execution; no native_compute)",
    "no Axiom/Parameter/Admitted in the development (grep gate in setup.sh and on every check)",
    "vp/ harness: generators, canonicalisation, float<->exact conversion (float.as_integer_ratio), literal emission to cases.v",
]


# --------------------------------------------------------------------------
# Coq literal emission
# --------------------------------------------------------------------------
def cZ(n):
    n = int(n)
    return "(%d)%%Z" % n


def cN(n):
    return "%d%%N" % int(n)


def cnat(n):
    n = int(n)
    assert 0 <= n < 5000, n
    return "%d%%nat" % n


def cbool(b):
    return "true" if b else "false"


def cQ(x):
    """exact rational literal from int / Fraction / float"""
    if isinstance(x, float):
        x = Fraction(*x.as_integer_ratio())
    x = Fraction(x)
    return "(Qmake (%d)%%Z %d%%positive)" % (x.numerator, x.denominator)


def clist(items):
    return "[" + "; ".join(items) + "]"


def copt(x, f):
    return "None" if x is None else "(Some %s)" % f(x)


def cpair(a, b):
    return "(%s, %s)" % (a, b)


# --------------------------------------------------------------------------
# Coq build / proof accounting
# --------------------------------------------------------------------------
class Lock:
    def __init__(self, path):
        self.path = path

    def __enter__(self):
        self.f = open(self.path, 'w')
        fcntl.flock(self.f, fcntl.LOCK_EX)

    def __exit__(self, *a):
        fcntl.flock(self.f, fcntl.LOCK_UN)
        self.f.close()


def sh(cmd, timeout=600, cwd=None, env=None):
    try:
        p = subprocess.run(cmd, shell=isinstance(cmd, str), cwd=cwd, env=env,
                           stdout=subprocess.PIPE, stderr=subprocess.STDOUT,
                           timeout=timeout, text=True)
        return p.returncode, p.stdout
    except subprocess.TimeoutExpired as e:
        out = e.stdout or ''
        if isinstance(out, bytes):
            out = out.decode('utf8', 'replace')
        return 124, out + '\n[timeout after %ss]' % timeout


FORBIDDEN = re.compile(r'\b(Admitted|admit|Axiom|Axioms|Parameter|Parameters|Conjecture|Abort All|'
                       r'Unset\s+Guard|bypass_check|Admit\s+Obligations|give_up)\b')


def strip_comments(src):
    out = []
    depth = 0
    i = 0
    while i < len(src):
        if src.startswith('(*', i):
            depth += 1
            i += 2
        elif src.startswith('*)', i) and depth > 0:
            depth -= 1
            i += 2
        else:
            if depth == 0:
                out.append(src[i])
            i += 1
    return ''.join(out)


def coq_cone(target_v):
    """All project .v files the target depends on (transitively), target included."""
    seen = []
    todo = [target_v]
    while todo:
        f = todo.pop()
        if f in seen:
            continue
        seen.append(f)
        src = open(os.path.join(COQ, f)).read()
        for m in re.finditer(r'From\s+TP\s+Require\s+(?:Import\s+|Export\s+)?(.*?)\.\s', strip_comments(src), re.S):
            for name in m.group(1).split():
                p = name.replace('.', '/') + '.v'
                if os.path.exists(os.path.join(COQ, p)):
                    todo.append(p)
    return seen


def count_obligations(files):
    n = 0
    names = []
    for f in files:
        src = strip_comments(open(os.path.join(COQ, f)).read())
        for m in re.finditer(r'^\s*(?:Local\s+|Global\s+|#\[[^\]]*\]\s*)?(Theorem|Lemma|Corollary|Fact|Example|Proposition|Remark)\s+([A-Za-z_][\w\']*)', src, re.M):
            n += 1
            names.append(m.group(2))
    return n, names


def forbidden_scan(files):
    bad = []
    for f in files:
        src = strip_comments(open(os.path.join(COQ, f)).read())
        for m in FORBIDDEN.finditer(src):
            bad.append("%s: %s" % (f, m.group(0)))
        # Variable/Hypothesis outside a Section
        depth = 0
        for line in src.split('\n'):
            if re.match(r'\s*Section\s+\w+', line):
                depth += 1
            elif re.match(r'\s*End\s+\w+', line) and depth > 0:
                depth -= 1
            elif depth == 0 and re.match(r'\s*(Variable|Variables|Hypothesis|Hypotheses|Context)\b', line):
                bad.append("%s: top-level %s" % (f, line.strip()))
    return bad


def coq_build(prop, gen_changed=False, timeout=900):
    """make the cone of Properties/<prop>.v; re-run the property file itself to
    capture Print Assumptions. Returns dict(ok, log, obligations, discharged,
    assumptions, files, theorems)."""
    target = 'Properties/%s.v' % prop
    res = dict(ok=False, log='', obligations=0, discharged=0, assumptions=[],
               files=[], theorems=[], broken=None)
    if not os.path.exists(os.path.join(COQ, target)):
        res['log'] = 'missing ' + target
        res['broken'] = target
        return res
    with Lock(os.path.join(COQ, '.build.lock')):
        if not os.path.exists(os.path.join(COQ, 'Makefile')):
            sh('coq_makefile -f _CoqProject -o Makefile', cwd=COQ)
        rc, out = sh('timeout %d make -j16 %so 2>&1 | tail -60' % (timeout, target), timeout=timeout + 30, cwd=COQ)
        files = coq_cone(target)
        res['files'] = files
        nobl, names = count_obligations(files)
        res['obligations'] = nobl
        built = [f for f in files if os.path.exists(os.path.join(COQ, f + 'o'))
                 and os.path.getmtime(os.path.join(COQ, f + 'o')) >= os.path.getmtime(os.path.join(COQ, f))]
        if len(built) != len(files):
            missing = [f for f in files if f not in built]
            res['log'] = out
            res['broken'] = missing[0]
            ndone, _ = count_obligations(built)
            res['discharged'] = ndone
            return res
        bad = forbidden_scan(files)
        if bad:
            res['log'] = 'forbidden constructs: ' + '; '.join(bad)
            res['broken'] = bad[0]
            return res
        # property file: re-check and capture assumptions
        rc, out2 = sh('timeout 300 coqc -Q . TP %s' % target, timeout=330, cwd=COQ)
        if rc != 0:
            res['log'] = out2
            res['broken'] = target
            return res
    res['ok'] = True
    res['discharged'] = nobl
    res['log'] = out2
    # parse Print Assumptions blocks
    ass = []
    blocks = re.split(r'\n(?=Closed under the global context|Axioms:)', '\n' + out2)
    for b in blocks:
        b = b.strip()
        if b.startswith('Closed under'):
            ass.append('closed')
        elif b.startswith('Axioms:'):
            for m in re.finditer(r'^([A-Za-z_][\w\.\']*)\s*:', b[len('Axioms:'):], re.M):
                ass.append(m.group(1))
    res['assumptions'] = sorted(set(ass))
    src = strip_comments(open(os.path.join(COQ, target)).read())
    res['theorems'] = re.findall(r'^\s*Theorem\s+([\w\']+)', src, re.M)
    return res


# --------------------------------------------------------------------------
# Running the executable model inside Coq
# --------------------------------------------------------------------------
class Work:
    def __init__(self, prop):
        self.dir = os.path.join(VERIF, '.work', '%s-%d' % (prop, os.getpid()))
        os.makedirs(self.dir, exist_ok=True)

    def close(self):
        shutil.rmtree(self.dir, ignore_errors=True)


def coq_eval_lists(work, imports, func, case_terms, shard=300, timeout=600, tag='cases', jobs=12):
    """Evaluate `func` (a Coq term of type case -> N-or-list-N... whose printed
    result is made only of N numerals) on every case term. `func` must return
    N.  Returns list of ints (one per case) or raises RuntimeError with log."""
    if not case_terms:
        return []
    files = []
    for k in range(0, len(case_terms), shard):
        chunk = case_terms[k:k + shard]
        fn = os.path.join(work.dir, '%s_%d.v' % (tag, k // shard))
        with open(fn, 'w') as f:
            f.write(imports + '\n')
            f.write('From Coq Require Import List ZArith NArith QArith.\nImport ListNotations.\n')
            f.write('Definition the_cases := [\n' + ';\n'.join(chunk) + '\n].\n')
            f.write('Definition the_result : list N := map (%s) the_cases.\n' % func)
            f.write('Eval vm_compute in the_result.\n')
        files.append(fn)
    procs = []
    results = {}
    env = dict(os.environ)

    def launch(fn):
        return subprocess.Popen('ulimit -s unlimited 2>/dev/null; timeout %d coqc -Q %s TP %s' % (timeout, COQ, fn),
                                shell=True, cwd=work.dir, stdout=subprocess.PIPE, stderr=subprocess.STDOUT, text=True)
    pending = list(files)
    running = []
    while pending or running:
        while pending and len(running) < jobs:
            fn = pending.pop(0)
            running.append((fn, launch(fn)))
        fn, p = running.pop(0)
        out, _ = p.communicate()
        if p.returncode != 0:
            for _, q in running:
                q.kill()
            raise RuntimeError('coqc failed on %s:\n%s' % (fn, out[-3000:]))
        m = re.search(r'=\s*\[(.*?)\]\s*:\s*list N', out, re.S)
        if not m:
            raise RuntimeError('cannot parse coqc output for %s:\n%s' % (fn, out[-2000:]))
        results[fn] = [int(x) for x in re.findall(r'\d+', m.group(1).replace('%N', ''))]
    flat = []
    for k, fn in enumerate(files):
        n = len(case_terms[k * shard:(k + 1) * shard])
        if len(results[fn]) != n:
            raise RuntimeError('result count mismatch in %s: %d vs %d' % (fn, len(results[fn]), n))
        flat.extend(results[fn])
    return flat


def coq_eval_raw(work, imports, term, timeout=300, tag='raw'):
    """Evaluate one term and return Coq's printed value (for replay files)."""
    fn = os.path.join(work.dir, '%s.v' % tag)
    with open(fn, 'w') as f:
        f.write(imports + '\nFrom Coq Require Import List ZArith NArith QArith.\nImport ListNotations.\n')
        f.write('Eval vm_compute in (%s).\n' % term)
    rc, out = sh('timeout %d coqc -Q %s TP %s' % (timeout, COQ, fn), timeout=timeout + 10, cwd=work.dir)
    return out.strip()


# --------------------------------------------------------------------------
# Known findings, reporting, evidence
# --------------------------------------------------------------------------
def load_known():
    p = os.path.join(VERIF, 'known_findings.json')
    if not os.path.exists(p):
        return []
    return json.load(open(p))['findings']


class Check:
    """One run of one property's check."""

    def __init__(self, prop, tier, seed, level='proof'):
        self.prop = prop
        self.tier = tier
        self.seed = seed
        self.level = level
        self.t0 = time.time()
        self.rng = random.Random((seed * 1000003) ^ int(hashlib.sha1(prop.encode()).hexdigest()[:8], 16))
        self.violations = []   # (signature, text, replay_obj, found_input)
        self.known_hits = []
        self.coverage = dict(evaluations=0, distinct_nontrivial=0, rule='', samples=[])
        self.assumptions = []
        self.notes = []
        self.work = Work(prop)
        self.build = None
        self._distinct = set()
        self._known = [k for k in load_known() if k.get('property') == prop]

    # ---- case accounting
    def count(self, case_key, nontrivial):
        self.coverage['evaluations'] += 1
        if nontrivial:
            h = hashlib.sha1(repr(case_key).encode()).hexdigest()
            self._distinct.add(h)

    def sample(self, obj, maxn=4):
        if len(self.coverage['samples']) < maxn:
            self.coverage['samples'].append(obj)

    def tally(self, key, n=1):
        d = self.coverage.setdefault('distribution', {})
        d[key] = d.get(key, 0) + n

    # ---- violations
    def violation(self, signature, text, replay, found_input=True):
        """signature: stable string describing *what* fails (matched against
        known_findings.json); replay: json-able object."""
        for k in self._known:
            if k.get('status') == 'open' and k.get('signature') == signature:
                if signature not in [h[0] for h in self.known_hits]:
                    self.known_hits.append((signature, text))
                return
        self.violations.append((signature, text, replay, found_input))

    def proof_broken(self, what, log):
        self.violation('proof:' + what, 'proof obligation / model build no longer checks: ' + what,
                       dict(kind='proof-or-correspondence-broken', theorem_or_file=what, log=log[-4000:]),
                       found_input=False)

    # ---- coq
    def coq(self, gen_changed=False):
        b = coq_build(self.prop, gen_changed)
        self.build = b
        if not b['ok']:
            self.proof_broken(b['broken'] or 'build', b['log'])
        return b

    def finish(self):
        cov = self.coverage
        cov['distinct_nontrivial'] = len(self._distinct)
        b = self.build or dict(obligations=0, discharged=0, assumptions=[], files=[], theorems=[])
        cov['obligations'] = b['obligations']
        cov['discharged'] = b['discharged']
        cov['checker_cmd'] = "cd /verif/coq && make Properties/%s.vo && coqc -Q . TP Properties/%s.v" % (self.prop, self.prop)
        cov['trusted_base'] = TRUSTED_BASE_COMMON + ["Print Assumptions over property theorems: " + (", ".join(b['assumptions']) or 'n/a')]
        cov['property_theorems'] = b.get('theorems', [])
        cov['coq_files'] = b.get('files', [])
        cov['known_findings_hit'] = [h[0] for h in self.known_hits]
        if self.notes:
            cov['notes'] = self.notes
        # violations: if some have a concrete failing input, report those; the
        # broken-proof ones are reported too (with no-failing-input-found only
        # when nothing concrete was found)
        concrete = [v for v in self.violations if v[3]]
        abstract = [v for v in self.violations if not v[3]]
        lines = []
        os.makedirs(os.path.join(VERIF, 'replays'), exist_ok=True)
        reported = concrete[:5]
        if abstract:
            reported = reported + abstract[:2]
        for sig, text, replay, found in reported:
            h = hashlib.sha1((sig + json.dumps(replay, sort_keys=True, default=str)).encode()).hexdigest()[:10]
            path = os.path.join(VERIF, 'replays', '%s-%s.json' % (self.prop, h))
            with open(path, 'w') as f:
                json.dump(dict(property=self.prop, signature=sig, what=text, replay=replay,
                               seed=self.seed, tier=self.tier), f, indent=1, default=str)
            if found:
                lines.append("VIOLATION property=%s replay=%s" % (self.prop, path))
            elif concrete:
                lines.append("VIOLATION property=%s replay=%s" % (self.prop, path))
            else:
                lines.append("VIOLATION property=%s replay=%s no-failing-input-found" % (self.prop, path))
        ev = dict(property_id=self.prop, tier=self.tier, seed=self.seed, level=self.level,
                  coverage=cov, assumptions=self.assumptions, wall_s=round(time.time() - self.t0, 2),
                  violations=len(self.violations))
        # VERIF_EVIDENCE_DIR: used only by tools/try_mutant.sh so that runs against a scratch tree do not overwrite
        # the evidence of the real tree
        evdir = os.environ.get('VERIF_EVIDENCE_DIR') or os.path.join(VERIF, 'evidence')
        if not os.environ.get('VERIF_EVIDENCE_DIR') and os.path.realpath(REPO) != '/repo':
            evdir = os.path.join('/tmp', 'evidence-scratch-tree')      # TRACKPY_REPO points at a scratch tree (development only)
        os.makedirs(evdir, exist_ok=True)
        with open(os.path.join(evdir, '%s.json' % self.prop), 'w') as f:
            json.dump(ev, f, indent=1, default=str)
        for sig, text in self.known_hits:
            print("KNOWN-FINDING: property=%s %s" % (self.prop, text))
        for sig, text, replay, found in reported:
            print("  violated: %s" % text[:300])
        for l in lines:
            print(l)
        print("%s tier=%s seed=%d evaluations=%d nontrivial=%d obligations=%d/%d violations=%d wall=%.1fs" % (
            self.prop, self.tier, self.seed, cov['evaluations'], cov['distinct_nontrivial'],
            cov['discharged'], cov['obligations'], len(self.violations), time.time() - self.t0))
        self.work.close()
        return 1 if self.violations else 0


def frac(x):
    """exact Fraction of a python/numpy float or int"""
    if isinstance(x, Fraction):
        return x
    if isinstance(x, int):
        return Fraction(x)
    x = float(x)
    return Fraction(*x.as_integer_ratio())


def quiet_trackpy():
    import logging, warnings
    warnings.filterwarnings('ignore')
    try:
        import trackpy
        trackpy.quiet()
        logging.getLogger('trackpy').setLevel(logging.ERROR)
    except Exception:
        pass
