"""Independent geometric reference for C19's edge corrections (not derived from
trackpy's formulas): length of the part of a circle inside a rectangle by
sorting the wall crossings and testing interval midpoints; area of the part of
a sphere inside a box by Archimedes' hat-box theorem (dA = r dphi dz) and
quadrature over z of the 2-D angular measure."""
import math
from scipy import integrate

TWO_PI = 2 * math.pi


def angle_inside_2d(r, cx, cy, box):
    """angular measure (radians, in [0, 2pi]) of {t : c + r(cos t, sin t) in box};
    box = ((xmin, xmax), (ymin, ymax))"""
    (xmin, xmax), (ymin, ymax) = box
    if r <= 0:
        return TWO_PI if (xmin <= cx <= xmax and ymin <= cy <= ymax) else 0.0
    ang = []
    for X in (xmin, xmax):
        c = (X - cx) / r
        if -1.0 < c < 1.0:
            a = math.acos(c)
            ang += [a, TWO_PI - a]
    for Y in (ymin, ymax):
        s = (Y - cy) / r
        if -1.0 < s < 1.0:
            a = math.asin(s)
            ang += [a % TWO_PI, (math.pi - a) % TWO_PI]

    def inside(t):
        x = cx + r * math.cos(t)
        y = cy + r * math.sin(t)
        return xmin <= x <= xmax and ymin <= y <= ymax
    if not ang:
        return TWO_PI if inside(0.0) else 0.0
    ang.sort()
    total = 0.0
    for a, b in zip(ang, ang[1:] + [ang[0] + TWO_PI]):
        if b - a <= 0:
            continue
        if inside(0.5 * (a + b)):
            total += b - a
    return total


def arclen_inside_2d(r, cx, cy, box):
    return r * angle_inside_2d(r, cx, cy, box)


def area_inside_3d(r, c, box):
    """area of {p on sphere(c, r) : p in box}; box = ((xmin,xmax),(ymin,ymax),(zmin,zmax)).
    Returns (area, abs_error_estimate)."""
    cx, cy, cz = c
    bxy = (box[0], box[1])
    zlo = max(-r, box[2][0] - cz)
    zhi = min(r, box[2][1] - cz)
    if zhi <= zlo:
        return 0.0, 0.0
    hs = [cx - box[0][0], box[0][1] - cx, cy - box[1][0], box[1][1] - cy]
    pts = set()
    for h in hs:
        if 0 <= h < r:
            pts.add(math.sqrt(r * r - h * h))
    for h1 in hs[:2]:
        for h2 in hs[2:]:
            q = r * r - h1 * h1 - h2 * h2
            if h1 >= 0 and h2 >= 0 and q > 0:
                pts.add(math.sqrt(q))
    brk = sorted(set([zlo, zhi] + [z for p in pts for z in (p, -p) if zlo < z < zhi]))

    def f(z):
        rho2 = r * r - z * z
        if rho2 <= 0:
            return 0.0
        return angle_inside_2d(math.sqrt(rho2), cx, cy, bxy)
    total = 0.0
    err = 0.0
    for a, b in zip(brk, brk[1:]):
        # end-point square-root singularities: substitute z = m + w sin(u)
        m = 0.5 * (a + b)
        w = 0.5 * (b - a)
        v, e = integrate.quad(lambda u: f(m + w * math.sin(u)) * w * math.cos(u), -math.pi / 2, math.pi / 2,
                              epsabs=1e-13, epsrel=1e-11, limit=100)
        total += v
        err += e
    return r * total, r * err
