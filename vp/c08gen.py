"""Generators and implementation-side drivers for property C08 (locate's tail).

Everything random comes from the `random.Random` handed in (chk.rng); images are
built with a numpy RandomState seeded from it so that a case is a pure function
of its sub-seed."""
import math
import numpy as np


# ----------------------------------------------------------------- images
def _blobs(rs, shape, centers, amps, sigma, flat=False):
    grids = np.meshgrid(*[np.arange(n) for n in shape], indexing='ij')
    im = np.zeros(shape, dtype=float)
    for c, a in zip(centers, amps):
        r2 = sum(((g - ci) / s) ** 2 for g, ci, s in zip(grids, c, sigma))
        b = a * np.exp(-r2 / 2.)
        if flat:
            b = np.minimum(b, 0.6 * a)          # flat top: several equal maxima per blob
        im += b
    return im


def gen_image(rng, tier):
    """returns (array, description)"""
    rs = np.random.RandomState(rng.randrange(2 ** 31))
    ndim = 3 if rng.random() < 0.25 else 2
    if ndim == 2:
        shape = (rng.randint(24, 56), rng.randint(24, 56))
    else:
        shape = (rng.randint(10, 16), rng.randint(16, 24), rng.randint(16, 24))
    kind = rng.choice(['noise', 'noise', 'noise_float', 'blobs', 'blobs', 'blobs_noisy', 'flat', 'twins', 'levels', 'noise16', 'signed', 'signed'])
    if kind == 'noise':
        im = rs.randint(0, 256, shape).astype(np.uint8)
    elif kind == 'signed':
        # signed integer image with negative pixels (dark-frame subtracted camera data): a negative pixel next to a
        # bright one pulls an unclipped centroid out of the mask, even out of the image
        im = rs.randint(-120, 136, shape).astype(rng.choice([np.int16, np.int32]))
        if rng.random() < 0.5:
            im = (im // 8) * (rs.rand(*shape) < 0.15)          # sparse: isolated bright pixels with negative neighbours
            im = im.astype(np.int16)
            for _ in range(rng.randint(1, 4)):
                c = tuple(rng.randint(3, n - 4) for n in shape)
                im[c] = rng.randint(20, 60)
                d = list(c); d[-1] += rng.choice([-1, 1]); im[tuple(d)] = -(int(im[c]) - rng.randint(1, 3))
    elif kind == 'noise16':
        im = rs.randint(0, 4096, shape).astype(np.uint16)
    elif kind == 'noise_float':
        im = rs.rand(*shape)
    elif kind == 'levels':                       # few grey levels: plateaus, many equal masses
        im = (rs.randint(0, 4, shape) * 60).astype(np.uint8)
    else:
        nb = rng.randint(2, 7)
        sig = rng.choice([1.0, 1.5, 2.0, 2.5])
        sigma = (sig,) * ndim if rng.random() < 0.7 or ndim == 2 else (sig * 0.6,) + (sig,) * (ndim - 1)
        lo = [min(6, n // 3) for n in shape]
        if kind == 'twins':                      # identical blobs at integer centres: exactly equal masses
            centers = [tuple(rng.randint(l, n - 1 - l) for l, n in zip(lo, shape)) for _ in range(nb)]
            amps = [200.] * nb
        else:
            centers = [tuple(rng.uniform(l, n - 1 - l) for l, n in zip(lo, shape)) for _ in range(nb)]
            amps = [rng.uniform(60, 250) for _ in range(nb)]
        im = _blobs(rs, shape, centers, amps, sigma, flat=(kind == 'flat'))
        if kind == 'blobs_noisy' or rng.random() < 0.3:
            im = im + rs.uniform(0, rng.choice([5, 20, 40]), shape)
        how = rng.choice(['u8', 'u8', 'float', 'u16'])
        if how == 'u8':
            im = np.clip(im, 0, 255).astype(np.uint8)
        elif how == 'u16':
            im = np.clip(im * 16, 0, 65535).astype(np.uint16)
        else:
            im = im / 255.
    return im, kind


def gen_params(rng, im):
    ndim = im.ndim
    d = rng.choice([3, 5, 5, 7, 7, 9])
    if min(im.shape) < 14:
        d = rng.choice([3, 5])
    aniso = rng.random() < 0.25
    if aniso:
        if ndim == 3:
            diameter = (max(3, d - 2), d, d)
        else:
            diameter = (d, d + 2) if rng.random() < 0.5 else (d + 2, d)
    else:
        diameter = d
    dt = (diameter,) * ndim if not isinstance(diameter, tuple) else diameter
    r = rng.random()
    if r < 0.4:
        separation = None
    elif r < 0.6:
        separation = rng.choice([max(dt) - 2, max(dt) - 1.5, max(dt) + 3, 2 * max(dt), 4.5])
        separation = max(separation, 2)
    elif r < 0.8:
        separation = tuple(float(x) + rng.choice([-1, 0, 0.5, 2]) for x in dt)
    else:
        separation = float(rng.choice([3, 4, 6, 8, 11]))
    kw = dict(diameter=diameter, separation=separation,
              percentile=rng.choice([64, 64, 0, 30, 80, 95, 99]),
              preprocess=rng.random() < 0.6)
    r = rng.random()
    if r < 0.15:
        kw['noise_size'] = rng.choice([0.5, 2, 1.5])
    elif r < 0.3:
        kw['noise_size'] = tuple(rng.choice([1, 1.5, 2]) for _ in range(ndim))
    if rng.random() < 0.15:
        kw['smoothing_size'] = rng.choice([max(dt) + 2, max(dt) + 4])
    if rng.random() < 0.2:
        isint = np.issubdtype(im.dtype, np.integer)
        kw['threshold'] = rng.choice([0, 2, 5]) if isint else rng.choice([0, 0.01, 0.03])
    if rng.random() < 0.15:
        kw['max_iterations'] = rng.choice([1, 2, 3])
    if rng.random() < 0.1:
        kw['characterize'] = False
    if rng.random() < 0.3:
        kw['engine'] = rng.choice(['python', 'numba'])
    return kw


# ------------------------------------------- locate's head, repeated outside
def head(raw_image, diameter, separation=None, noise_size=1, smoothing_size=None,
         threshold=None, percentile=64, preprocess=True, max_iterations=10,
         characterize=True, engine='auto'):
    """feature.locate lines 318-399 with trackpy's own public functions; returns
    what the tail works on"""
    from trackpy.preprocessing import bandpass, convert_to_int
    from trackpy.find import grey_dilation
    from trackpy.refine import refine_com
    from trackpy.utils import validate_tuple, default_pos_columns
    from trackpy.masks import N_binary_mask
    from trackpy.uncertainty import measure_noise, _root_sum_x_squared
    raw_image = np.squeeze(raw_image)
    shape = raw_image.shape
    ndim = len(shape)
    diameter = tuple(int(x) for x in validate_tuple(diameter, ndim))
    radius = tuple(x // 2 for x in diameter)
    is_float = not np.issubdtype(raw_image.dtype, np.integer)
    separation = tuple(x + 1 for x in diameter) if separation is None else validate_tuple(separation, ndim)
    smoothing_size = diameter if smoothing_size is None else validate_tuple(smoothing_size, ndim)
    noise_size = validate_tuple(noise_size, ndim)
    if threshold is None:
        threshold = 1 / 255. if is_float else 1
    image = bandpass(raw_image, noise_size, smoothing_size, threshold) if preprocess else raw_image
    if not preprocess and np.issubdtype(image.dtype, np.signedinteger):
        image = image.clip(min=0)          # locate clips negative pixels of signed images (fix F18), as it does for floats
    dtype = np.uint8 if is_float else raw_image.dtype
    scale_factor, image = convert_to_int(image, dtype)
    margin = tuple(max(rad, sep // 2 - 1, sm // 2) for rad, sep, sm in zip(radius, separation, smoothing_size))
    coords = grey_dilation(image, separation, percentile, margin, precise=False)
    pre = refine_com(raw_image, image, radius, coords, max_iterations=max_iterations,
                     engine=engine, characterize=characterize)
    out = dict(shape=shape, ndim=ndim, radius=radius, separation=separation, noise_size=noise_size,
               scale_factor=float(scale_factor), pre=pre, pos_columns=default_pos_columns(ndim),
               isotropic=all(r == radius[0] for r in radius))
    if characterize:
        black, noise = measure_noise(image, raw_image, radius)
        cm = _root_sum_x_squared(radius, ndim)
        iso_ep = out['isotropic'] and all(n == noise_size[0] for n in noise_size)
        if iso_ep:
            cs = [float(noise_size[0] * cm[0])]
        else:
            cs = [float(x) for x in (np.array(noise_size) * np.array(cm))]
        out.update(black=float(black), noise=float(noise), npx=int(N_binary_mask(radius, ndim)), cs=cs)
    return out


# ------------------------------------------------------------ where_close
def gen_wc(rng, tier):
    ndim = rng.choice([1, 2, 2, 2, 3])
    n = rng.randint(2, 10 if tier == 'quick' else 16)
    quarter = rng.random() < 0.4
    box = rng.choice([6, 10, 16])
    kind = rng.choice(['int', 'int', 'tuple', 'half', 'pow2'])
    if kind == 'int':
        sep = float(rng.choice([2, 3, 5, 5, 7]))
    elif kind == 'half':
        sep = rng.choice([2.5, 4.5, 6.5])
    elif kind == 'pow2':
        sep = float(rng.choice([2, 4, 8]))
    else:
        sep = tuple(float(rng.choice([2, 3, 4, 5, 8])) for _ in range(ndim))
    if rng.random() < 0.03:
        sep = 0.0 if not isinstance(sep, tuple) else (0.0,) + sep[1:]
    pts = []
    for _ in range(n):
        r = rng.random()
        if pts and r < 0.2:
            pts.append(list(rng.choice(pts)))                    # exact duplicate (flat peak)
        elif pts and r < 0.35 and ndim >= 2 and not isinstance(sep, tuple) and sep == 5.0:
            b = rng.choice(pts)                                  # exactly at the boundary: 3-4-5
            p = list(b); p[0] += 3; p[1] += 4; pts.append(p)
        elif pts and r < 0.45:
            b = rng.choice(pts)                                  # mirror partner: equal coordinate sum
            p = list(b)
            if ndim >= 2:
                p[0] += 1; p[1] -= 1
            pts.append(p)
        else:
            pts.append([rng.randint(0, 4 * box) / 4. if quarter else float(rng.randint(0, box)) for _ in range(ndim)])
    levels = rng.choice([2, 3, 50])
    inten = [float(rng.randint(1, levels)) for _ in range(n)]
    if rng.random() < 0.2:
        inten = [x + rng.choice([0, 0.5, 0.25]) for x in inten]
    return dict(pts=pts, sep=list(sep) if isinstance(sep, tuple) else sep, intensity=inten,
                as_frame=rng.random() < 0.5)


# ------------------------------------- anisotropic static error (all ep columns)
ANISO_SETUPS = [
    dict(diameter=(9, 11)), dict(diameter=(11, 9)), dict(diameter=(5, 7)), dict(diameter=(7, 5)),
    dict(diameter=9, noise_size=(1, 1.5)), dict(diameter=7, noise_size=(1, 1.5)),
    dict(diameter=5, noise_size=(1.5, 1)), dict(diameter=(5, 7), noise_size=(1, 1.5)),
]


def gen_aniso(rng):
    """2-D images on which features are DARKER than the measured background, with a
    parameter set that takes _static_error's anisotropic branch (unequal diameter or
    anisotropic noise_size).  returns (array, description, kwargs)

    'plateau': a bright flat plateau (bandpass returns ~0 inside it, so its raw pixels
    are what measure_noise calls background: a high black level) with dim blobs next
    to it; 'texture': plain noise."""
    rs = np.random.RandomState(rng.randrange(2 ** 31))
    shape = (rng.randint(44, 64), rng.randint(44, 64))
    kind = rng.choice(['plateau', 'plateau', 'plateau_noisy', 'texture', 'texture_dark'])
    if kind == 'texture':
        im = rs.randint(0, 256, shape).astype(np.uint8)
    elif kind == 'texture_dark':                              # sparse texture: zero regions exist without bandpass
        im = (rs.randint(0, 256, shape) * (rs.rand(*shape) < 0.15)).astype(np.uint8)
    else:
        im = np.zeros(shape, dtype=float)
        # plateau covering a band / a corner block
        lvl = rng.choice([120., 180., 230.])
        if rng.random() < 0.5:
            a = rng.randint(shape[0] // 3, shape[0] // 2)
            im[:a, :] = lvl
            free = (a + 8, shape[0] - 8, 8, shape[1] - 8)
        else:
            a = rng.randint(shape[1] // 3, shape[1] // 2)
            im[:, :a] = lvl
            free = (8, shape[0] - 8, a + 8, shape[1] - 8)
        nb = rng.randint(2, 5)
        centers = [(rng.uniform(free[0], max(free[0] + 1, free[1])), rng.uniform(free[2], max(free[2] + 1, free[3])))
                   for _ in range(nb)]
        amps = [rng.uniform(15, 70) for _ in range(nb)]           # dim: far below the plateau
        im = im + _blobs(rs, shape, centers, amps, (rng.choice([1.5, 2.0, 2.5]),) * 2)
        if kind == 'plateau_noisy':
            im = im + rs.uniform(0, rng.choice([3, 8]), shape)
        im = np.clip(im, 0, 255).astype(np.uint8)
    kw = dict(rng.choice(ANISO_SETUPS))
    kw['preprocess'] = (rng.random() < 0.75) if not kind.startswith('texture_dark') else (rng.random() < 0.4)
    kw['percentile'] = rng.choice([0, 20, 64])
    if rng.random() < 0.3:
        dt = kw['diameter'] if isinstance(kw['diameter'], tuple) else (kw['diameter'],) * 2
        kw['separation'] = rng.choice([None, float(max(dt)) - 2, tuple(float(x) for x in dt)])
        if kw['separation'] is None:
            del kw['separation']
    if rng.random() < 0.2:
        kw['engine'] = rng.choice(['python', 'numba'])
    return im, 'aniso-' + kind, kw


class ArrFeatures:
    """the smallest 'features' object static_error accepts that hands it an ndarray
    mass (what locate hands _static_error); used for the 2-D branch, which raises on a
    pandas >= 2 Series (N_S[:, np.newaxis])"""
    def __init__(self, mass):
        import pandas as pd
        self._m = np.asarray(mass, dtype=float)
        self.index = pd.RangeIndex(len(self._m))

    def __getitem__(self, k):
        if k != 'mass':
            raise KeyError(k)
        return self._m


def gen_static_error(rng):
    """arguments of a direct call of trackpy.static_error"""
    n = rng.randint(1, 8)
    pool = [100.0, 250.5, 1e4, -5.0, -300.25, 0.0, float('nan'), 37.0, 1.0, float('inf'), -1e-3]
    mass = [rng.choice(pool) if rng.random() < 0.6 else round(rng.uniform(-200, 900), 3) for _ in range(n)]
    ndim = rng.choice([2, 2, 3])
    r = rng.random()
    if r < 0.35:
        diameter = rng.choice([3, 5, 7, 9, 11]); noise_size = rng.choice([1, 1, 1.5, 2])
    elif r < 0.65:
        diameter = rng.choice([(9, 11), (5, 7), (11, 9), (7, 5)]) if ndim == 2 else rng.choice([(5, 7, 7), (3, 9, 9), (7, 9, 5)])
        noise_size = rng.choice([1, 1.5])
    elif r < 0.9:
        diameter = rng.choice([5, 7, 9])
        noise_size = rng.choice([(1, 1.5), (1.5, 1), (2, 1)]) if ndim == 2 else rng.choice([(1, 1, 1.5), (2, 1, 1)])
    else:
        diameter = (7,) * ndim                                   # equal tuple: still the isotropic branch
        noise_size = (1.5,) * ndim
    if rng.random() < 0.05:
        noise_size = -1.0 if not isinstance(noise_size, tuple) else tuple(-x for x in noise_size)   # nonsense, still never negative
    r = rng.random()
    if r < 0.6:
        noise = rng.choice([2.0, 0.5, 13.25, 0.0, float('nan'), -1.0])
        frames = None
    else:
        frames = [rng.randint(0, 2) for _ in range(n)]
        noise = {f: rng.choice([2.0, 0.5, 0.0, float('nan'), 7.5]) for f in range(3)}
    return dict(mass=mass, diameter=list(diameter) if isinstance(diameter, tuple) else diameter,
                noise_size=list(noise_size) if isinstance(noise_size, tuple) else noise_size,
                ndim=ndim, noise=noise if frames is None else [noise[f] for f in range(3)], frames=frames)
