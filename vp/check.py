"""Dispatcher: ./check Cxx --tier quick|thorough [--replay file]"""
import sys, os, argparse, importlib, traceback
sys.path.insert(0, os.path.dirname(os.path.abspath(__file__)))
import common


def _is_impl_exception(path):
    import json
    try:
        return json.load(open(path))['replay'].get('kind') == 'impl-exception'
    except Exception:
        return False


def main():
    ap = argparse.ArgumentParser()
    ap.add_argument('prop')
    ap.add_argument('--tier', default=os.environ.get('VERIF_TIER', 'quick'))
    ap.add_argument('--replay', default=None)
    a = ap.parse_args()
    seed = int(os.environ.get('VERIF_SEED', '20260930'))
    mod = importlib.import_module('props.%s' % a.prop.lower())
    chk = common.Check(a.prop, a.tier, seed)
    import linkgen
    try:
        if a.replay and _is_impl_exception(a.replay):
            import json
            call = json.load(open(a.replay))['replay']['call']
            common.quiet_trackpy(); chk.coq()
            with linkgen.size_limit(linkgen.LIMIT):
                msg = linkgen.replay_impl_call(call)
            chk.count(('impl-exception', call), True)
            print('replay: %s %s' % (call['fn'], 'raised ' + msg if msg else 'returned normally'))
            if msg:
                chk.violation('implementation raised: ' + msg.split('(')[0], '%s raised %s on a valid input' % (call['fn'], msg),
                              dict(kind='impl-exception', call=call))
        elif a.replay:
            mod.replay(chk, a.replay)
        else:
            mod.run(chk)
    except linkgen.ImplError as e:
        chk.count(('impl-exception', e.call), True)
        chk.violation('implementation raised: ' + type(e.exc).__name__, '%s raised %r on a valid input (no result where the property requires one)' % (e.call['fn'], e.exc),
                      dict(kind='impl-exception', call=e.call, traceback=traceback.format_exc()))
    except Exception:
        tb = traceback.format_exc()
        chk.violation('harness:exception', 'check crashed (correspondence cannot be established): ' + tb.splitlines()[-1],
                      dict(kind='harness-exception', traceback=tb), found_input=False)
    rc = chk.finish()
    sys.exit(rc)


if __name__ == '__main__':
    main()
