"""Dispatcher: ./check Cxx --tier quick|thorough [--replay file]"""
import sys, os, argparse, importlib, traceback
sys.path.insert(0, os.path.dirname(os.path.abspath(__file__)))
import common


def main():
    ap = argparse.ArgumentParser()
    ap.add_argument('prop')
    ap.add_argument('--tier', default=os.environ.get('VERIF_TIER', 'quick'))
    ap.add_argument('--replay', default=None)
    a = ap.parse_args()
    seed = int(os.environ.get('VERIF_SEED', '20260930'))
    mod = importlib.import_module('props.%s' % a.prop.lower())
    chk = common.Check(a.prop, a.tier, seed)
    try:
        if a.replay:
            mod.replay(chk, a.replay)
        else:
            mod.run(chk)
    except Exception:
        tb = traceback.format_exc()
        chk.violation('harness:exception', 'check crashed (correspondence cannot be established): ' + tb.splitlines()[-1],
                      dict(kind='harness-exception', traceback=tb), found_input=False)
    rc = chk.finish()
    sys.exit(rc)


if __name__ == '__main__':
    main()
