"""C14 — find_link re-finds lost features and emits only admissible ones.

Tie (route C).  Three harnesses, corpus first:
  (A) FindLinker.get_relocate_candidates is driven directly (linker with a
      constructed hash, image and positions) and its candidate list is compared,
      inside Coq, with Model/FindLink.relocate_cands (as sets with masses, order
      checked to be by decreasing mass), together with the property clauses
      evaluated on the implementation's list (margin, mass, range, separation
      from known points, pairwise separation).
  (B) trackpy.find_link is run on generated movies with detections withheld
      through before_link; the verified monitor Model/FindLinkCheck.check_movie
      (Properties/C14.v (7)) is evaluated on its output: unique labels, features
      >= separation apart, added features within search_range of a feature of
      the memory+1 preceding frames, outside the margin, finite mass >= minmass.
  (C) completeness: on movies of well-separated blobs moving < search_range,
      every blob must be present in every frame under one label whatever was
      withheld after the first frame; with nothing withheld the output must
      equal detect-then-link.
  (D) completeness, theorem-backed (Properties/C14.v (9)-(13)): the boolean
      hypotheses of C14_movie_complete (first frame complete, moves_b, cross_b,
      given_b) plus the two geometric conditions the image-search oracle needs
      (blobs outside the margin, >= separation apart) are evaluated IN COQ
      (Model/FindLink2.complete_code) on the true tracks and the detections
      handed to the linker of EVERY generated movie, whatever its kind; where
      they hold (tallied) the implementation's output must hold every blob in
      every frame under one label and nothing else.  The oracle hypothesis
      [finds] itself (the image search re-finds a blob) is not evaluated: it is
      what the run tests.

Route T (relocation of lost features): tools/py2coq_findlink.py re-translates the CURRENT text of
FindLinker.percentile_threshold / get_relocate_candidates / relocate ($TRACKPY_REPO/trackpy/linking/
find_link.py) into coq/Gen/findlink.v on every run, before the cone of Properties/C14.v is
rebuilt; Proofs/FindlinkGen.v proves the generated functions equal to Model/FindLink.relocate_cands /
relocate / image_reloc and Properties/C14.v (14)-(19) restates the theorems for them.
tools/py2coq_findstep.py does the same for the linking step: FindLinker.__init__ / next_level / assign_links,
Subnets.include_lost / merge_lost_subnets / add_dest_points (subnet.py) and find_link_iter -> coq/Gen/findstep.v;
Proofs/FindstepGen.v, FindstepGen2-4.v prove the generated functions equal to the model of the code
(Model/FindLink3.v: only the claimed relocated points enter the frame; the driver hands the user's percentile
to the linker) and Properties/C14.v (20)-(28) restates the safety theorems for them.  A source that
leaves the translatable subset, or a generated function whose equality proof no longer checks, is
reported through chk.proof_broken; harnesses (A)-(D) still run against the hand model, so that a
concrete failing input is searched for as well.
"""
import math, os, sys, hashlib
import numpy as np
from fractions import Fraction
import common, findlinkgen as G
from common import cnat, cZ, cQ, clist, cbool

IMPORTS = "From TP Require Import Model.Assign Model.Link Model.Dilation Model.FindLink Model.FindLinkCheck."
TRANSLATOR = os.path.join(common.VERIF, 'tools', 'py2coq_findlink.py')
GEN = os.path.join(common.COQ, 'Gen', 'findlink.v')
# route T, second translator: the linking step (FindLinker.__init__ / next_level / assign_links, the Subnets
# lost-feature methods, find_link_iter) -> Gen/findstep.v
TRANSLATOR2 = os.path.join(common.VERIF, 'tools', 'py2coq_findstep.py')
GEN2 = os.path.join(common.COQ, 'Gen', 'findstep.v')
PAIRS = [(TRANSLATOR, GEN), (TRANSLATOR2, GEN2)]
CAND_FUNC = "fun c => match c with (P, im, t, pos, known, out) => check_cands_t P im t pos known out end"
NC_FUNC = "fun c => match c with (P, im, t, pos, known, out) => n_cands P im t pos known end"
CAND_CODES = {
    11: 'relocation candidate lies inside the margin',
    12: 'relocation candidate has a mass that is NaN or below minmass',
    13: 'relocation candidate is not within search_range of any searched position',
    14: 'relocation candidate is closer than separation to a known feature of the frame',
    15: 'two relocation candidates closer than separation',
    1: 'candidate list differs from the model: extra candidate',
    2: 'candidate list differs from the model: candidate missing',
    3: 'candidate list differs from the model: mass differs',
    4: 'candidates are not ordered by decreasing mass',
}
MOVIE_FUNC = "fun c => match c with (mp, frames) => check_movie mp frames end"
IMPORTS2 = "From TP Require Import Model.Assign Model.Link Model.Dilation Model.FindLink Model.FindLinkCheck Model.FindLink2."
COMPLETE_FUNC = "fun c => match c with (cp, B0, g0, frames, out) => complete_code cp B0 g0 frames out end"
HYP_CODES = {
    11: 'first frame not complete (detections of frame 0 are not exactly the blobs)',
    12: 'a blob moves farther than search_range',
    13: 'a blob comes within search_range of the previous position of another blob',
    14: 'the linker was given something that is not a blob',
    15: 'a blob inside the margin / two blobs closer than separation',
}
COMPLETE_CODES = {
    2: 'a blob is missing from a frame',
    3: 'a blob changes its label along its trajectory',
    4: 'a frame holds a different number of features than there are blobs',
    5: 'the output has a different number of frames than the movie',
}
SIG_COMPLETE = "find_link: incomplete trajectories although the hypotheses of C14_movie_complete hold"
MOVIE_CODES = {
    1: 'a label occurs twice in a frame',
    2: 'two features of a frame closer than separation',
    3: 'an added feature is not within search_range of any feature of the preceding frames',
    4: 'feature inside margin or mass not finite/>= minmass',
    5: 'feature inside margin or mass not finite/>= minmass',
}
SIG_EDGE = 'get_relocate_candidates: edge rejection uses slice-relative coordinates (candidate in margin / NaN mass ordered first)'


# --------------------------------------------------------------- (A) cases
def gen_cand_case(rng, tier):
    H = rng.randint(20, 44)
    W = rng.randint(20, 44)
    sr = rng.choice([2, 3, 3.5, 4, 5, 5, 6])
    sep = rng.choice([5, 7, 8.5, 9, 9, 11])
    dia = rng.choice([None, None, 5, 7, 3])
    rad = int(sep // 2) if dia is None else dia // 2
    if min(H, W) <= 2 * rad + 2:
        H = W = 2 * rad + 12
    nb = rng.randint(1, 6)
    kind = rng.choice(['blobs', 'blobs', 'edge', 'pairs', 'noise'])
    blobs = []
    for _ in range(nb):
        if kind == 'edge':     # near an image edge (margin / clipped slices)
            y = rng.choice([rng.randint(0, rad + 2), rng.randint(H - rad - 3, H - 1), rng.randint(0, H - 1)])
            x = rng.choice([rng.randint(0, rad + 2), rng.randint(W - rad - 3, W - 1), rng.randint(0, W - 1)])
        else:
            y, x = rng.randint(0, H - 1), rng.randint(0, W - 1)
        blobs.append((y, x, rng.choice([60, 120, 200, 200, 250]), rng.choice([1.0, 1.5, 2.0])))
    if kind == 'pairs':        # a second blob at a distance around separation from the first
        y, x, a, s = blobs[0]
        d = rng.choice([sep - 2, sep - 1, sep, sep, sep + 1])
        ang = rng.choice([0, 90, 37, 53, 180, 270, 143])
        blobs.append((int(round(y + d * math.sin(math.radians(ang)))), int(round(x + d * math.cos(math.radians(ang)))), a, s))
    noise = G.noise_texture(rng, (H, W), rng.choice(['none', 'none', 'low', 'speckle', 'texture', 'quant']) if kind != 'noise' else rng.choice(['texture', 'speckle', 'quant']))
    img = G.render((H, W), blobs if kind != 'noise' or rng.random() < 0.5 else [], noise)
    pos = []
    for b in rng.sample(blobs, rng.randint(1, min(3, len(blobs)))):
        st = steps_within(sr + (1.5 if rng.random() < 0.25 else 0.01))
        d = rng.choice(st + [s_ for s_ in st if s_[0] ** 2 + s_[1] ** 2 >= (sr - 1) ** 2])   # bias towards the rim
        pos.append((int(b[0]) + d[0], int(b[1]) + d[1]))
    if rng.random() < 0.1:     # a position far outside the image
        pos.append((rng.choice([-40, H + 40]), rng.randint(0, W - 1)))
    known = [(int(b[0]), int(b[1])) for b in blobs if rng.random() < 0.25]
    known += [(rng.randint(0, H - 1), rng.randint(0, W - 1)) for _ in range(rng.randint(0, 2))]
    if known and rng.random() < 0.4:   # a known feature exactly / almost at separation from a blob
        b = rng.choice(blobs)
        known.append((int(b[0]), int(b[1]) + int(sep) + rng.choice([-1, 0, 0, 1])))
    known = list(dict.fromkeys(known))
    mm = rng.choice([0, 0, 0, 0, 200, 800, 2000])
    pct = rng.choice([64, 64, 64, 30, 90])
    return dict(img=img, sr=sr, sep=sep, dia=dia, rad=rad, pos=pos, known=known, minmass=mm, percentile=pct)


def run_cand_case(c):
    lk = G.make_linker(c['sr'], c['sep'], c['dia'], c['minmass'], c['percentile'], c['known'], c['img'])
    thr, out = G.run_candidates(lk, c['pos'])
    return thr, out


def cand_term(c, thr, out):
    outs = "(%s : list cm)" % clist([G.ccm(p, m) for p, m in out]) if out else "(@nil cm)"
    return "(%s, %s, %s, %s, %s, %s)" % (G.cparams(c['sr'], c['sep'], c['rad'], c['minmass']), G.cimage(c['img']), G.cthr(thr),
                                        G.cpts(c['pos']), G.cpts(c['known']), outs)


def cand_json(c, thr, out):
    return dict(kind='candidates', image=c['img'].tolist(), search_range=c['sr'], separation=c['sep'], diameter=c['dia'],
                minmass=c['minmass'], percentile=c['percentile'], pos=[list(p) for p in c['pos']], known=[list(p) for p in c['known']],
                impl_threshold=thr, impl_candidates=[[list(p), (None if m != m else m)] for p, m in out])


def cand_from_json(j):
    return dict(img=np.array(j['image'], dtype=np.uint8), sr=j['search_range'], sep=j['separation'], dia=j['diameter'],
                rad=int(j['separation'] // 2) if j['diameter'] is None else j['diameter'] // 2,
                pos=[tuple(p) for p in j['pos']], known=[tuple(p) for p in j['known']], minmass=j['minmass'], percentile=j['percentile'])


def cand_unsafe(c):
    slr = int(c['sr'] + c['rad'] + 1)
    return slr in G.FLOAT_UNSAFE_RADII or c['rad'] in G.FLOAT_UNSAFE_RADII or c['rad'] < 1


# ------------------------------------------------------------- (B)/(C) movies
def place(rng, n, shape, lo, dmin, tries=400):
    pts = []
    for _ in range(tries):
        if len(pts) == n:
            break
        p = (rng.randint(lo, shape[0] - lo - 1), rng.randint(lo, shape[1] - lo - 1))
        if all((p[0] - q[0]) ** 2 + (p[1] - q[1]) ** 2 >= dmin * dmin for q in pts):
            pts.append(p)
    return pts


def steps_within(sr):
    r = int(math.floor(sr))
    return [(dy, dx) for dy in range(-r, r + 1) for dx in range(-r, r + 1) if dy * dy + dx * dx < sr * sr]


def gen_movie(rng, tier, kind=None):
    kind = kind or rng.choice(['complete', 'complete', 'complete', 'diagonal', 'dense', 'approach', 'twolost', 'noise', 'edge', 'vanish', 'signed'])
    # 'signed': a 'complete' layout rendered as a signed int16 movie with a negative background (dark-frame subtracted
    # data) and a faint bump that is a local maximum above the percentile threshold but whose mass over the mask is
    # negative; preprocess=False, minmass 0: the bump must not be reported (finite mass >= minmass)
    signed = kind == 'signed'
    if signed:
        kind = 'complete'
    # 'hot': a 'complete' layout with static hot pixels (brighter than any blob's peak, but with a mask mass far below
    # minmass) sitting farther than separation and closer than search_range from a blob; minmass > 0, no preprocessing.
    # A hot pixel is never a feature; a withheld blob next to one must still be re-found (the brightest candidate by
    # PEAK is not the brightest by MASS)
    hot = kind == 'complete' and not signed and rng.random() < 0.25
    # 'rough': a 'complete' layout of narrow blobs over a rough texture (uniform noise 0..24, new in every frame), wide separation
    # and search range, minmass between the texture's and the blobs' mask mass, no preprocessing: the relocation window holds many
    # texture maxima - some beyond search_range, some within separation of the blob's peak
    rough = kind == 'complete' and not signed and not hot and rng.random() < 0.55
    sr = rng.choice([3, 3.5, 4, 5, 5, 6])
    sep = rng.choice([7, 9, 9, 11])
    if kind == 'dense':
        # lost features closer together than search_range (subnets that only merge_lost_subnets joins):
        # small separation, large search_range, tiny moves, distinct brightness
        sep = 5
        sr = rng.choice([10, 11, 12])
    dia = rng.choice([None, None, None, 5, 7]) if kind != 'complete' else rng.choice([None, None, 7])
    if dia is not None and dia > sep:
        dia = None
    rad = int(sep // 2) if dia is None else dia // 2
    mem = rng.choice([0, 0, 1, 2])
    pre = rng.random() < 0.35
    nfr = rng.randint(2, 4)
    amp, sig = rng.choice([(200, 1.5), (220, 2.0), (150, 1.5)])
    if kind == 'dense':
        dia, rad, sig, pre = None, 2, 1.0, False
    if hot:
        sr, sep, dia, rad, sig, pre = rng.choice([7, 8]), 5, None, 2, 1.0, False
        amp = rng.choice([150, 200, 220])
    if rough:
        sr, sep, dia, rad, sig, pre = rng.choice([10, 12]), 9, 9, 4, 1.3, False
        amp = rng.choice([200, 220])
    S = rng.choice([64, 72, 80]) if kind in ('complete', 'dense') else rng.choice([40, 48, 56])
    shape = (S, S + rng.choice([0, 8]))
    tracks = []
    mixed = False
    pw = rng.choice([0.0, 0.3, 0.6, 1.0])
    if kind == 'diagonal':
        # blobs on a diagonal: each lies inside its neighbour's rectangular relocation slice but outside the slice's
        # disc and farther than 2*search_range (separate subnets); everything withheld after the first frame, so every
        # subnet of a frame relocates from the (preprocessed, float) image one after the other
        sr, sep, dia, rad, mem = 5, 9, None, 4, rng.choice([0, 1])
        pre = rng.random() < 0.7
        amp, sig = 200, 1.5
        S = 72; shape = (S, S)
        k = 9                                   # slice_radius = sr + rad + 1 = 10; (9,9) is 12.7 px away
        y0, x0 = rng.randint(14, 18), rng.randint(14, 18)
        n = rng.choice([2, 3, 3, 4])
        steps = [(rng.choice([-1, 0, 1]), rng.choice([-1, 0, 1])) for t in range(1, nfr)]   # common motion: the geometry is kept
        tracks = []
        for i in range(n):
            tr = [(y0 + k * i, x0 + k * i)]
            for d in steps:
                tr.append((tr[-1][0] + d[0], tr[-1][1] + d[1]))
            tracks.append(tr)
        pw = 1.0
        noise_kind, minmass = 'none', 0
    elif kind == 'complete':
        dmin = max(sep + 3, 2 * sr + 3, 4 * sig + 4)
        lo = rad + int(math.ceil(sr)) + 3
        p0 = place(rng, rng.randint(3, 8), shape, lo, dmin)
        cur = list(p0)
        tracks = [[p] for p in p0]
        st = steps_within(sr) if not (hot or rough) else steps_within(2.5 if hot else sr / 2.0)
        for t in range(1, nfr):
            new = []
            for i, p in enumerate(cur):
                for _ in range(30):
                    d = rng.choice(st)
                    q = (p[0] + d[0], p[1] + d[1])
                    ok = lo <= q[0] < shape[0] - lo and lo <= q[1] < shape[1] - lo
                    ok = ok and all((q[0] - o[0]) ** 2 + (q[1] - o[1]) ** 2 >= dmin * dmin for j, o in enumerate(new))
                    ok = ok and all((q[0] - o[0]) ** 2 + (q[1] - o[1]) ** 2 >= dmin * dmin for j, o in enumerate(cur) if j > i)
                    if ok:
                        break
                else:
                    q = p
                new.append(q)
            cur = new
            for i, q in enumerate(cur):
                tracks[i].append(q)
        # minmass is compared with the RAW-image mass for detected features and with the PROCESSED-image mass for
        # relocated ones (documented: "in masked image"); a cut between the two is a parameter choice that defeats
        # relocation, not a defect.  With preprocessing the completeness movies therefore use minmass 0 and no
        # noise (noise features would be features: the blobs would no longer be well separated from everything);
        # without preprocessing low noise is added and cut by a minmass well below the blob mass.
        if signed:
            pre, noise_kind, minmass = False, 'none', 0
        elif hot:
            pre, noise_kind, minmass = False, 'none', 400
        elif rough:
            pre, noise_kind, minmass = False, 'rough', 1800
        elif rng.random() < 0.3:
            # mixed brightness with a lowered percentile: faint blobs whose peak lies between the user's percentile and
            # the default 64th percentile of the (bandpassed) frame; they are tracked only because the user lowered
            # `percentile`, and must be re-found with that same percentile when their detection is withheld
            pre, noise_kind, minmass = True, 'none', 0
            mixed = True
        elif pre:
            noise_kind, minmass = 'none', 0
        else:
            noise_kind = rng.choice(['none', 'low', 'low'])       # low texture: dim maxima everywhere, also next to the blobs
            minmass = rng.choice([0, 0, None]) if noise_kind == 'none' else None
    elif kind == 'dense':
        noise_kind, minmass = 'none', 0
        c0 = (shape[0] // 2 + rng.randint(-4, 4), shape[1] // 2 + rng.randint(-4, 4))
        nb = rng.randint(2, 4)
        gap = rng.randint(int(sep) + 3, int(sr) - 1)
        lay = rng.choice(['row', 'col', 'diag'])
        p0 = [(c0[0] + (i - nb // 2) * (gap if lay != 'row' else 0), c0[1] + (i - nb // 2) * (gap if lay != 'col' else 0)) for i in range(nb)]
        tracks = [[p] for p in p0]
        for t in range(1, nfr):            # each blob jitters by at most 1 px around its start: spacing stays >= separation + 1
            for tr in tracks:
                tr.append((tr[0][0] + rng.choice([-1, 0, 0, 1]), tr[0][1] + rng.choice([-1, 0, 0, 1])))
        pw = rng.choice([1.0, 1.0, 0.6])
        amps = rng.sample([110, 140, 170, 200, 230, 250], nb)
        if rng.random() < 0.5:
            # 'chase': two lost features a little more than search_range apart, the brighter one moves 2 px towards
            # the dimmer one and so comes within its search_range: only the merged subnet (2*search_range) links them right
            gap = int(sr) + 1
            ax = rng.choice([0, 1])
            sg = rng.choice([-1, 1])
            A = c0
            B = (c0[0] + sg * gap * (ax == 0), c0[1] + sg * gap * (ax == 1))
            B1 = (B[0] - sg * 2 * (ax == 0), B[1] - sg * 2 * (ax == 1))
            tracks = [[A] * nfr, [B] + [B1] * (nfr - 1)]
            amps = sorted(amps[:2])
            pw = 1.0
    else:
        noise_kind = rng.choice(['none', 'low', 'speckle']) if kind != 'noise' else rng.choice(['texture', 'speckle', 'low'])
        minmass = rng.choice([0, 0, 0, 300, None])
        c = (shape[0] // 2 + rng.randint(-4, 4), shape[1] // 2 + rng.randint(-4, 4))
        if kind == 'approach':
            # B fixed, A approaches B to a distance around separation
            d0 = sep + rng.choice([1, 2, 3])
            d1 = rng.choice([sep - 2, sep - 1, sep, sep, sep + 1])
            ax = rng.random() < 0.5
            A = [(c[0], c[1] - d0) if ax else (c[0] - d0, c[1]), (c[0], c[1] - d1) if ax else (c[0] - d1, c[1])]
            tracks = [A + [A[-1]] * (nfr - 2), [c] * nfr]
        elif kind == 'twolost':
            # two lost features in different subnets (more than 2*search_range apart) moving towards each other
            gap = int(math.floor(2 * sr)) + rng.choice([1, 2])
            mv = rng.choice([1, 2, int(math.floor(sr)) - 1])
            A = [(c[0], c[1] - gap // 2 - 1), (c[0], c[1] - gap // 2 - 1 + mv)]
            B = [(c[0], c[1] + (gap + 1) // 2), (c[0], c[1] + (gap + 1) // 2 - mv)]
            tracks = [A + [A[-1]] * (nfr - 2), B + [B[-1]] * (nfr - 2)]
            pw = rng.choice([1.0, 1.0, 0.6])
        elif kind == 'edge':
            # a feature walks into the margin next to a second lost feature
            side = rng.choice(['low0', 'high0', 'low1', 'high1'])
            off = rng.choice([0, 1, 2])
            stp = rng.choice([2, 3, int(math.floor(sr))])
            if side == 'high0':
                a0 = (shape[0] - rad - 2 - off, c[1]); a1 = (a0[0] + stp, a0[1])
            elif side == 'low0':
                a0 = (rad + 1 + off, c[1]); a1 = (a0[0] - stp, a0[1])
            elif side == 'high1':
                a0 = (c[0], shape[1] - rad - 2 - off); a1 = (a0[0], a0[1] + stp)
            else:
                a0 = (c[0], rad + 1 + off); a1 = (a0[0], a0[1] - stp)
            a1 = (min(max(a1[0], 0), shape[0] - 1), min(max(a1[1], 0), shape[1] - 1))
            dd = int(sep) + rng.choice([0, 1])
            b0 = (a0[0] - dd * (side == 'high0') + dd * (side == 'low0') + 0, a0[1] + (dd if side in ('high0', 'low0') else 0))
            if side in ('high1', 'low1'):
                b0 = (a0[0] + dd, a0[1] - dd * (side == 'high1') + dd * (side == 'low1'))
            b0 = (min(max(b0[0], rad + 1), shape[0] - rad - 2), min(max(b0[1], rad + 1), shape[1] - rad - 2))
            b1 = (b0[0], b0[1] + rng.choice([-1, 0, 1]))
            tracks = [[a0, a1] + [a1] * (nfr - 2), [b0, b1] + [b1] * (nfr - 2)]
            pw = rng.choice([1.0, 1.0, 0.5])
        elif kind == 'vanish':
            p0 = place(rng, rng.randint(2, 5), shape, rad + 2, sep + 1)
            st = steps_within(sr + 2)
            for p in p0:
                tr = [p]
                for t in range(1, nfr):
                    d = rng.choice(st)
                    tr.append((min(max(tr[-1][0] + d[0], 0), shape[0] - 1), min(max(tr[-1][1] + d[1], 0), shape[1] - 1)))
                if rng.random() < 0.4:       # the blob disappears / appears
                    k = rng.randint(1, nfr - 1)
                    tr = tr[:k] + [None] * (nfr - k) if rng.random() < 0.6 else [None] * k + tr[k:]
                tracks.append(tr)
        else:  # noise
            p0 = place(rng, rng.randint(0, 3), shape, rad + 2, sep + 1)
            tracks = [[p] * nfr for p in p0]
    percentile = 64

    gain = [1.0] * nfr
    hotmap = None
    if hot:
        hotmap = np.zeros(shape, dtype=int)
        nhot = 0
        for tr in tracks:
            offs = [(dy, dx) for dy in range(-7, 8) for dx in range(-7, 8) if 36 <= dy * dy + dx * dx <= 49]
            rng.shuffle(offs)
            for dy, dx in offs:
                h = (tr[0][0] + dy, tr[0][1] + dx)
                if not (rad + 2 <= h[0] < shape[0] - rad - 2 and rad + 2 <= h[1] < shape[1] - rad - 2):
                    continue
                # farther than separation (+1) from every blob in every frame, within search_range (-1) of this blob's previous
                # position in every frame after the first
                far = all((h[0] - o[t][0]) ** 2 + (h[1] - o[t][1]) ** 2 > (sep + 1) ** 2 for o in tracks for t in range(nfr))
                near = all((h[0] - tr[t - 1][0]) ** 2 + (h[1] - tr[t - 1][1]) ** 2 <= (sr - 1) ** 2 for t in range(1, nfr))
                if far and near and hotmap[max(0, h[0] - 6):h[0] + 7, max(0, h[1] - 6):h[1] + 7].sum() == 0:
                    hotmap[h] = 255; nhot += 1
                    break
        if nhot == 0:
            hot = False; hotmap = None

    def render_all(amp_of):
        return [G.render(shape, [(tr[t][0], tr[t][1], amp_of(i) * gain[t], sig) for i, tr in enumerate(tracks) if tr[t] is not None],
                         hotmap if hotmap is not None else G.noise_texture(rng, shape, noise_kind)) for t in range(nfr)]
    frames = None
    fading = False
    if kind == 'complete' and not signed and not mixed and not hot and not rough and noise_kind == 'none' and rng.random() < 0.45:
        # illumination drift / photobleaching: the whole frame gets dimmer (or brighter) from frame to frame, so the
        # brightness level that admits relocation candidates (a percentile of EACH frame) changes with the frame;
        # longer movies, detections withheld early and late.  Calibrated with the implementation: nothing withheld ->
        # complete tracks (otherwise the movie is not in the property's regime and the plain rendering is used)
        f = rng.choice([0.72, 0.8, 0.6, 1.3])
        extra = rng.randint(2, 4)
        g2 = [f ** t for t in range(nfr + extra)]
        top = max(g2)
        g2 = [g / top for g in g2]
        save = (nfr, [list(tr) for tr in tracks], gain)
        for tr in tracks:
            tr.extend([tr[-1]] * extra)              # the blobs rest during the added frames (moves stay within search_range)
        nfr += extra
        gain = g2
        fr = render_all(lambda i: 250)
        probe = dict(kind=kind, frames=fr, tracks=tracks, sr=sr, sep=sep, dia=dia, rad=rad, memory=mem, preprocess=pre,
                     minmass=0, pw=0.0, wseed=0, noise=noise_kind, percentile=64)
        ok = False
        try:
            got, _ = run_movie(probe, withhold=False)
            ok = completeness(probe, got) is None
        except Exception:
            ok = False
        if ok:
            frames, fading, minmass = fr, True, 0
            if pw == 0.0:
                pw = 0.6
        else:
            nfr, tracks, gain = save
    if mixed:
        # calibrate with the implementation itself (nothing withheld, so relocation plays no part): at the lowered
        # percentile every blob must be tracked through the movie, at the default percentile a faint one must be missed
        nf = max(1, len(tracks) // 3)
        which = list(range(len(tracks))); rng.shuffle(which); which = set(which[:nf])
        found = False
        for faint in rng.sample([20, 28, 36, 48, 64, 80], 6):
            for pct in rng.sample([20, 30, 40], 3):
                fr = render_all(lambda i: faint if i in which else amp)
                probe = dict(kind=kind, frames=fr, tracks=tracks, sr=sr, sep=sep, dia=dia, rad=rad, memory=mem, preprocess=pre,
                             minmass=minmass, pw=0.0, wseed=0, noise=noise_kind, percentile=pct)
                try:
                    lo, _ = run_movie(probe, withhold=False)
                    hi, _ = run_movie(dict(probe, percentile=64), withhold=False)
                except Exception:
                    continue
                if completeness(probe, lo) is None and completeness(probe, hi) is not None:
                    frames, percentile, found = fr, pct, True
                    break
            if found:
                break
        if not found:
            mixed = False
        elif pw == 0.0:
            pw = 0.6
    if frames is None:
        frames = render_all(lambda i: amps[i] if kind == 'dense' else amp)
    if minmass is None:
        minmass = int(0.4 * amp * 2 * math.pi * sig * sig * 0.6)
    if signed:
        kind = 'signed'
        off = rng.choice([20, 30, 40])
        # faint bump: far from every blob and from the border
        far = [(y, x) for y in range(rad + 8, shape[0] - rad - 8, 3) for x in range(rad + 8, shape[1] - rad - 8, 3)
               if all(tr[t] is None or (y - tr[t][0]) ** 2 + (x - tr[t][1]) ** 2 > (2 * sr + sep + 8) ** 2 for tr in tracks for t in range(nfr))]
        bump = rng.choice(far) if far else None
        out = []
        for f in frames:
            g = f.astype(np.int16) - off
            if bump is not None:
                yy, xx = np.mgrid[0:shape[0], 0:shape[1]]
                g = g + np.floor(rng.choice([8, 12, 15]) * np.exp(-((yy - bump[0]) ** 2 + (xx - bump[1]) ** 2) / (2.0 * 1.5 ** 2))).astype(np.int16)
            out.append(g)
        frames = out
    return dict(kind=kind, frames=frames, tracks=tracks, sr=sr, sep=sep, dia=dia, rad=rad, memory=mem, preprocess=pre,
                minmass=minmass, pw=(pw if not (hot or rough) or pw > 0 else 0.6), wseed=rng.randint(0, 2 ** 30), noise=noise_kind, percentile=percentile, mixed=mixed, fading=fading,
                hot=bool(hot), rough=bool(rough))


def run_movie(c, withhold=True):
    """-> dict(table rows per frame, initial coords per frame (what the linker was given))"""
    import random as _r
    from trackpy.linking.find_link import find_link
    from trackpy.feature import characterize
    wr = _r.Random(c['wseed'])
    initial = {}
    explicit = c.get('withhold')       # replay / corpus: explicit list of withheld coordinates per frame

    def before_link(coords, image, minmass, **kw):
        t = image.frame_no
        keep = np.ones(len(coords), dtype=bool)
        if withhold and t >= 1:
            if explicit is not None:
                ws = set(tuple(p) for p in explicit.get(str(t), []))
                keep = np.array([tuple(int(v) for v in cc) not in ws for cc in coords], dtype=bool)
            else:
                keep = np.array([wr.random() >= c['pw'] for _ in range(len(coords))], dtype=bool)
        kept = coords[keep]
        rad = (c['rad'],) * 2
        if len(kept):
            mass = characterize(kept, image, rad)['mass']
            given = kept[mass >= minmass]
        else:
            given = kept
        initial[t] = dict(detected=[tuple(int(v) for v in cc) for cc in coords], given=[tuple(int(v) for v in cc) for cc in given])
        return kept

    frs = [G.Frame(f, t) for t, f in enumerate(c['frames'])]
    kw = dict(search_range=c['sr'], separation=c['sep'], memory=c['memory'], minmass=c['minmass'], preprocess=c['preprocess'],
              before_link=before_link)
    if c.get('percentile', 64) != 64:
        kw['percentile'] = c['percentile']
    if c['dia'] is not None:
        kw['diameter'] = c['dia']
    try:
        tab = find_link(frs, **kw)
    except ValueError as e:
        if 'No objects to concatenate' in str(e) or 'concatenate' in str(e):
            tab = None
        else:
            raise
    rows = {t: [] for t in range(len(frs))}
    if tab is not None and len(tab):
        for y, x, fr, pid, mass in zip(tab['y'], tab['x'], tab['frame'], tab['particle'], tab['mass']):
            rows[int(fr)].append(dict(pos=(float(y), float(x)), label=int(pid), mass=float(mass)))
    return rows, initial


def movie_term(c, rows, initial):
    k = G.scale_of(Fraction(c['sr']), Fraction(c['sep']))
    srk = int(Fraction(c['sr']) * k)
    sepk = int(Fraction(c['sep']) * k)
    shape = c['frames'][0].shape
    mp = ("{| m_met := {| mw := [%s; %s]; mR2 := %s |}; m_k := %s; m_sepk := %s; m_rad := %s; m_shape := %s; m_minmass := %s; m_mem := %s |}"
          % (cZ(k * k), cZ(k * k), cZ(srk * srk), cZ(k), cZ(sepk), cZ(c['rad']), G.cpt(shape), cQ(c['minmass']), cnat(c['memory'])))
    frs = []
    for t in range(len(c['frames'])):
        given = set(initial.get(t, dict(given=[]))['given'])
        fs = []
        for r in rows[t]:
            p = r['pos']
            assert p[0] == int(p[0]) and p[1] == int(p[1])
            ip = (int(p[0]), int(p[1]))
            m = r['mass']
            fs.append("{| f_pos := %s; f_lab := %s; f_mass := %s; f_added := %s |}" % (
                G.cpt(ip), cnat(r['label']), "None" if (m != m or math.isinf(m)) else "(Some %s)" % cQ(m), cbool(t >= 1 and ip not in given)))
        frs.append("(%s : list feat)" % clist(fs) if fs else "(@nil feat)")
    return "(%s, %s)" % (mp, clist(frs))


def movie_json(c, rows, initial):
    wh = {str(t): [list(p) for p in v['detected'] if p not in set(v['given'])] for t, v in initial.items() if t >= 1}
    return dict(kind='movie', movie_kind=c['kind'], dtype=str(c['frames'][0].dtype), frames=[f.tolist() for f in c['frames']], search_range=c['sr'], separation=c['sep'],
                diameter=c['dia'], memory=c['memory'], preprocess=c['preprocess'], minmass=c['minmass'], withhold=wh, noise=c.get('noise', 'none'), percentile=c.get('percentile', 64),
                tracks=[[None if p is None else list(p) for p in tr] for tr in c['tracks']],
                impl_output={str(t): [[list(r['pos']), r['label'], None if r['mass'] != r['mass'] else r['mass']] for r in rs] for t, rs in rows.items()})


def movie_from_json(j):
    return dict(kind=j['movie_kind'], frames=[np.array(f, dtype=j.get('dtype', 'uint8')) for f in j['frames']], sr=j['search_range'], sep=j['separation'],
                dia=j['diameter'], rad=int(j['separation'] // 2) if j['diameter'] is None else j['diameter'] // 2, memory=j['memory'],
                preprocess=j['preprocess'], minmass=j['minmass'], pw=0.0, wseed=0, withhold=j['withhold'], noise=j.get('noise', 'none'), percentile=j.get('percentile', 64),
                tracks=[[None if p is None else tuple(p) for p in tr] for tr in j['tracks']])


def full_tracks(c):
    """the movie comes with a true position for every blob in every frame"""
    n = len(c['frames'])
    return bool(c['tracks']) and all(len(tr) == n and all(p is not None for p in tr) for tr in c['tracks'])


def complete_term(c, rows, initial):
    """case term of Model/FindLink2.complete_code: parameters, true blobs, what the linker was given, the output"""
    k = G.scale_of(Fraction(c['sr']), Fraction(c['sep']))
    srk = int(Fraction(c['sr']) * k)
    sepk = int(Fraction(c['sep']) * k)
    shape = c['frames'][0].shape
    cp = ("{| c_met := {| mw := [%s; %s]; mR2 := %s |}; c_k := %s; c_sepk := %s; c_rad := %s; c_shape := %s |}"
          % (cZ(k * k), cZ(k * k), cZ(srk * srk), cZ(k), cZ(sepk), cZ(c['rad']), G.cpt(shape)))
    n = len(c['frames'])
    B = [[tr[t] for tr in c['tracks']] for t in range(n)]
    given = [initial.get(t, dict(given=[]))['given'] for t in range(n)]
    frs = clist(["(%s, %s)" % (G.cpts(B[t]), G.cpts(given[t])) for t in range(1, n)])
    out = []
    for t in range(n):
        fs = ["(%s, %s)" % (cnat(r['label']), G.cpt((int(r['pos'][0]), int(r['pos'][1])))) for r in rows[t]]
        out.append("(%s : list (nat * list Z))" % clist(fs) if fs else "(@nil (nat * list Z))")
    return "(%s, %s, %s, %s, %s)" % (cp, G.cpts(B[0]), G.cpts(given[0]), frs, clist(out))


def oracle_regime(c):
    """where the image search can be expected to re-find a blob that satisfies the geometric hypotheses: the
    kinds built for completeness, and otherwise no minmass cut (relocated features are weighed in the masked,
    possibly preprocessed image: a cut there is a parameter choice that defeats relocation) and at most low noise"""
    if c['kind'] in ('complete', 'dense', 'diagonal'):
        return True
    return c['minmass'] == 0 and c.get('noise', 'none') in ('none', 'low')


def completeness(c, rows):
    """well-separated blob movie: every blob present in every frame under one label. -> None or text"""
    for i, tr in enumerate(c['tracks']):
        labs = []
        for t, p in enumerate(tr):
            hit = [r for r in rows[t] if r['pos'] == (float(p[0]), float(p[1]))]
            if not hit:
                return 'blob %d (at %s) is missing from frame %d' % (i, p, t)
            labs.append(hit[0]['label'])
        if len(set(labs)) != 1:
            return 'blob %d changes label along its trajectory: %s' % (i, labs)
    return None


def detect_then_link(c, initial):
    """link the coordinates the linker was given with the plain Linker; -> labels per frame as {pos: id}"""
    from trackpy.linking.linking import Linker
    lk = Linker(float(c['sr']), memory=c['memory'])
    out = {}
    for t in range(len(c['frames'])):
        co = np.array(initial[t]['given'], dtype=float).reshape(-1, 2)
        if t == 0:
            lk.init_level(co, t)
        else:
            lk.next_level(co, t)
        out[t] = {tuple(p.pos): p.track.id for p in lk.hash.points}
    return out


def same_partition(rows, dl):
    """find_link rows vs detect-then-link: same features per frame and the same grouping into trajectories"""
    a, b = {}, {}
    for t in rows:
        pa = sorted((r['pos'], r['label']) for r in rows[t])
        pb = sorted((tuple(float(v) for v in p), l) for p, l in dl[t].items())
        if [x[0] for x in pa] != [x[0] for x in pb]:
            return 'frame %d: features differ: find_link %s, detect-then-link %s' % (t, [x[0] for x in pa], [x[0] for x in pb])
        for (p, l), (_, l2) in zip(pa, pb):
            a.setdefault(l, []).append((t, p))
            b.setdefault(l2, []).append((t, p))
    if sorted(map(sorted, a.values())) != sorted(map(sorted, b.values())):
        return 'trajectories differ from detect-then-link'
    return None


# ------------------------------------------------------------------- corpus
def corpus_movies():
    out = []
    # F12 (fixed): blobs 10 px apart approaching to 7 px, separation 9 > diameter 5
    fr = [G.render((64, 64), [(30, 20, 200, 1.5), (30, 30, 200, 1.5)]), G.render((64, 64), [(30, 23, 200, 1.5), (30, 30, 200, 1.5)])]
    out.append(dict(kind='corpus-F12', frames=fr, tracks=[], sr=3.5, sep=9, dia=5, rad=2, memory=0, preprocess=False, minmass=0, pw=0.0, wseed=1))
    out.append(dict(kind='corpus-F12-default-diameter', frames=fr, tracks=[], sr=3.5, sep=9, dia=None, rad=4, memory=0, preprocess=False, minmass=0, pw=0.0, wseed=1))
    # F16 (fixed): a lost feature walks into the lower margin next to a second lost feature
    fr = [G.render((64, 64), [(56, 30, 200, 1.5), (50, 37, 200, 1.5)]), G.render((64, 64), [(60, 30, 200, 1.5), (50, 38, 200, 1.5)])]
    out.append(dict(kind='corpus-F16', frames=fr, tracks=[], sr=5, sep=9, dia=None, rad=4, memory=0, preprocess=False, minmass=0, pw=1.0, wseed=1))
    fr = [np.ascontiguousarray(f.T) for f in fr]
    out.append(dict(kind='corpus-F16-transposed', frames=fr, tracks=[], sr=5, sep=9, dia=None, rad=4, memory=0, preprocess=False, minmass=0, pw=1.0, wseed=1))
    # F16 completeness side: the feature that stays inside must be re-found
    fr = [G.render((64, 64), [(52, 30, 200, 1.5), (46, 37, 200, 1.5)]), G.render((64, 64), [(55, 30, 200, 1.5), (46, 38, 200, 1.5)])]
    out.append(dict(kind='complete', frames=fr, tracks=[[(52, 30), (55, 30)], [(46, 37), (46, 38)]], sr=5, sep=9, dia=None, rad=4, memory=0,
                    preprocess=False, minmass=0, pw=1.0, wseed=1))
    return out


def corpus_cands():
    out = []
    # F16 at candidate level: slice clipped at the lower edge, one candidate in the margin, one good
    img = G.render((64, 64), [(60, 30, 200, 1.5), (50, 38, 200, 1.5)])
    out.append(dict(img=img, sr=5, sep=9, dia=None, rad=4, pos=[(56, 30), (50, 37)], known=[], minmass=0, percentile=64))
    out.append(dict(img=np.ascontiguousarray(img.T), sr=5, sep=9, dia=None, rad=4, pos=[(30, 56), (37, 50)], known=[], minmass=0, percentile=64))
    # F12 at candidate level: known feature 10 px from the searched position, 7 px from the blob
    img = G.render((64, 64), [(30, 23, 200, 1.5), (30, 30, 200, 1.5)])
    out.append(dict(img=img, sr=3.5, sep=9, dia=5, rad=2, pos=[(30, 20)], known=[(30, 30)], minmass=0, percentile=64))
    return out


# ---------------------------------------------------------------------- run
def eval_cands(chk, cases, tag):
    runs, terms = [], []
    for c in cases:
        if cand_unsafe(c):
            chk.tally('candidates: skipped (slice radius / radius with a float-inexact 5-12-13 mask boundary)')
            continue
        try:
            thr, out = run_cand_case(c)
        except Exception as e:
            chk.violation('get_relocate_candidates: exception', 'get_relocate_candidates raised %r' % (e,), cand_json(c, None, []))
            continue
        runs.append((c, thr, out))
        terms.append(cand_term(c, thr, out))
    res = common.coq_eval_lists(chk.work, IMPORTS, CAND_FUNC, terms, shard=25, tag=tag)
    ncs = common.coq_eval_lists(chk.work, IMPORTS, NC_FUNC, terms, shard=25, tag=tag + 'n')
    for (c, thr, out), r, n in zip(runs, res, ncs):
        chk.count(('cand', cand_json(c, thr, out)), n >= 1)
        chk.tally('candidates: model has %s' % ('0' if n == 0 else '1' if n == 1 else '2+'))
        if r == 20:
            chk.tally('candidates: equally bright maxima closer than separation (kept member decided by float coordinate sums): property clauses only')
            continue
        if r != 0:
            sig = 'get_relocate_candidates: %s' % CAND_CODES.get(r, r)
            if r in (11, 12):
                sig = SIG_EDGE
            chk.violation(sig, 'FindLinker.get_relocate_candidates: %s' % CAND_CODES.get(r, r), dict(code=r, **cand_json(c, thr, out)))
    return runs


def eval_movies(chk, movies, tag):
    runs, terms = [], []
    for c in movies:
        try:
            rows, initial = run_movie(c)
        except Exception as e:
            if type(e).__name__ == 'SubnetOversizeException':
                chk.tally('movie: SubnetOversizeException raised (dense noise features; legitimate refusal)')
                continue
            chk.violation('find_link: exception', 'find_link raised %r on a %s movie' % (e, c['kind']), movie_json(c, {}, {}))
            continue
        runs.append((c, rows, initial))
        terms.append(movie_term(c, rows, initial))
    res = common.coq_eval_lists(chk.work, IMPORTS, MOVIE_FUNC, terms, shard=60, tag=tag)
    # (D) hypotheses of the completeness theorem evaluated in Coq; completeness demanded where they hold
    cidx = [i for i, (c, rows, initial) in enumerate(runs) if full_tracks(c)]
    cres = common.coq_eval_lists(chk.work, IMPORTS2, COMPLETE_FUNC, [complete_term(*runs[i]) for i in cidx], shard=100, tag=tag + 'c')
    ccode = dict(zip(cidx, cres))
    for k, ((c, rows, initial), r) in enumerate(zip(runs, res)):
        nadded = sum(1 for t in rows if t >= 1 for x in rows[t] if (int(x['pos'][0]), int(x['pos'][1])) not in set(initial.get(t, dict(given=[]))['given']))
        nwith = sum(len(v['detected']) - len(v['given']) for t, v in initial.items() if t >= 1)
        chk.count(('movie', movie_json(c, rows, initial)), nadded >= 1)
        if c.get('rough'):
            chk.tally('movie of narrow blobs over a rough texture (minmass between texture and blob mass)')
        if c.get('hot'):
            chk.tally('movie with hot pixels next to the blobs (minmass > 0)')
        if c.get('fading'):
            chk.tally('movie with frame-to-frame brightness drift (%d frames)' % len(c['frames']))
        chk.tally('movie kind=%s' % c['kind']); chk.tally('percentile=%s%s' % (c.get('percentile', 64), ' (mixed brightness)' if c.get('mixed') else ''))
        chk.tally('movie: %s' % ('features re-found' if nadded else 'nothing added'))
        chk.tally('memory=%d' % c['memory'])
        chk.tally('preprocess=%s' % c['preprocess'])
        if r != 0:
            chk.violation('find_link: %s' % MOVIE_CODES.get(r, r), 'find_link (%s movie, memory=%d, preprocess=%s): %s' % (c['kind'], c['memory'], c['preprocess'], MOVIE_CODES.get(r, r)),
                          dict(code=r, **movie_json(c, rows, initial)))
        legacy = False
        if c['kind'] in ('complete', 'dense', 'diagonal'):
            msg = completeness(c, rows)
            legacy = bool(msg)
            if msg:
                chk.violation('find_link: incomplete trajectories on a well-separated blob movie', 'find_link (withheld %d detections): %s' % (nwith, msg),
                              dict(code=100, **movie_json(c, rows, initial)))
            if nwith == 0 and c['kind'] == 'complete':
                chk.tally('movie: nothing withheld (compared with detect-then-link)')
                msg = same_partition(rows, detect_then_link(c, initial))
                if msg:
                    chk.violation('find_link: differs from detect-then-link although nothing was withheld', msg, dict(code=101, **movie_json(c, rows, initial)))
        if k in ccode:
            cc = ccode[k]
            if cc in HYP_CODES:
                chk.tally('completeness hypotheses (Coq): fail -- %s' % HYP_CODES[cc])
            elif not oracle_regime(c):
                chk.tally('completeness hypotheses (Coq): hold, not demanded (minmass cut / noise: oracle hypothesis not granted)')
            else:
                chk.tally('completeness hypotheses (Coq): hold -- completeness demanded (%s, withheld %s)' % (
                    'kind ' + c['kind'] if c['kind'] in ('complete', 'diagonal') else 'other kinds', 'some' if nwith else 'nothing'))
                if cc != 0 and not legacy:
                    chk.violation(SIG_COMPLETE, 'find_link (%s movie, withheld %d detections, memory=%d, preprocess=%s): %s' % (
                        c['kind'], nwith, c['memory'], c['preprocess'], COMPLETE_CODES.get(cc, cc)), dict(code=200 + cc, **movie_json(c, rows, initial)))
        else:
            chk.tally('completeness hypotheses (Coq): not evaluated (movie without full true tracks)')
    return runs


# ----------------------------------------------------------------------------
# translator / build (route T)
# ----------------------------------------------------------------------------
def regenerate(chk):
    """re-run the translators on the current source; returns (ok, {generated file: text}-or-log)"""
    texts = {}
    for tr, gen in PAIRS:
        rc, out = common.sh([sys.executable, tr, '--repo', common.REPO, '--stdout'], timeout=60)
        if rc != 0:
            return False, '%s: %s' % (os.path.basename(tr), out)
        texts[gen] = out
    with common.Lock(os.path.join(common.COQ, '.build.lock')):
        for tr, gen in PAIRS:
            out = texts[gen]
            name = 'Gen/' + os.path.basename(gen)
            old = open(gen).read() if os.path.exists(gen) else None
            if old != out:
                os.makedirs(os.path.dirname(gen), exist_ok=True)
                tmp = gen + '.tmp%d' % os.getpid()
                with open(tmp, 'w') as f:
                    f.write(out)
                os.replace(tmp, gen)
                chk.tally(name + ' rewritten (source differs from last run)')
            else:
                chk.tally(name + ' unchanged')
    return True, texts


def ensure_model(chk):
    """the executable hand model and monitors are needed by the correspondence run even when the
    translation or a proof about the generated functions is broken"""
    targets = ['Model/FindLinkCheck.v', 'Model/FindLink2.v']
    with common.Lock(os.path.join(common.COQ, '.build.lock')):
        rc, out = common.sh('timeout 600 make %s 2>&1 | tail -40' % ' '.join(t + 'o' for t in targets), timeout=630, cwd=common.COQ)
        for t in targets:
            vo = os.path.join(common.COQ, t + 'o')
            if not (os.path.exists(vo) and os.path.getmtime(vo) >= os.path.getmtime(os.path.join(common.COQ, t))):
                chk.proof_broken(t + ' (hand model does not build)', out)
                return False
    return True


def build(chk):
    """translator -> cone of Properties/C14.v -> executable hand model"""
    ok, text = regenerate(chk)
    if not ok:
        chk.proof_broken('translation tools/py2coq_findlink.py / py2coq_findstep.py (FindLinker.percentile_threshold / get_relocate_candidates / '
                         'relocate / __init__ / next_level / assign_links, Subnets.include_lost / merge_lost_subnets / add_dest_points or '
                         'find_link_iter left the translatable subset)', text)
        chk.build = dict(obligations=0, discharged=0, assumptions=[], files=[], theorems=[])
    else:
        b = None
        for attempt in range(3):
            b = chk.coq()
            if all(open(g).read() == t for g, t in text.items()):
                break
            # another run (different TRACKPY_REPO) rewrote the generated file in between: redo
            chk.violations = [v for v in chk.violations if not v[0].startswith('proof:')]
            regenerate(chk)
        for g, t in text.items():
            chk.notes.append('Gen/%s sha1 %s generated from %s' % (os.path.basename(g), hashlib.sha1(t.encode()).hexdigest()[:12], common.REPO))
        if b is not None and not b['ok']:
            # say which statement about the generated functions no longer checks
            with common.Lock(os.path.join(common.COQ, '.build.lock')):
                rc, out = common.sh('timeout 900 make Proofs/FindlinkGen.vo Proofs/FindstepGen3.vo 2>&1 | tail -25', timeout=930, cwd=common.COQ)
            chk.notes.append('make Proofs/FindlinkGen.vo Proofs/FindstepGen3.vo (generated functions = model): ' + out[-2500:])
    return ensure_model(chk)


def run(chk):
    common.quiet_trackpy()
    build(chk)
    rng = chk.rng
    quick = chk.tier == 'quick'
    # corpus first
    eval_cands(chk, corpus_cands(), 'ccorp')
    eval_movies(chk, corpus_movies(), 'mcorp')
    # (A)
    cr = eval_cands(chk, [gen_cand_case(rng, chk.tier) for _ in range(260 if quick else 4000)], 'cand')
    # (B)/(C)
    movies = [gen_movie(rng, chk.tier) for _ in range(200 if quick else 3200)]
    # every complete movie also once with nothing withheld (detect-then-link comparison)
    extra = []
    for c in movies:
        if c['kind'] == 'complete' and len(extra) < (25 if quick else 400):
            d = dict(c)
            d['pw'] = 0.0
            extra.append(d)
    mr = eval_movies(chk, movies + extra, 'mov')
    if cr:
        chk.sample(dict((k, v) for k, v in cand_json(*cr[0]).items() if k != 'image'))
    if mr:
        chk.sample(dict((k, v) for k, v in movie_json(*mr[0]).items() if k != 'frames'))
    chk.coverage['rule'] = (
        "corpus (F12, F16 witnesses) first; (A) get_relocate_candidates on uint8 images 20-44 px (Gaussian blobs, blobs at the image edges, "
        "pairs at distances around separation, noise textures, speckle), 1-4 searched positions (some outside the image), known features on/near blobs "
        "and exactly at separation, separation 5-11 incl. 8.5, search_range 2-6 incl. 3.5, diameter = separation or smaller, minmass, percentile: "
        "non-trivial = the model finds >= 1 candidate; (B) find_link on 2-4 frame movies (well-separated random-walking blobs, pairs approaching to "
        "around separation, two lost features of different subnets moving towards each other, features walking into the margin, vanishing/appearing "
        "blobs, noise textures), detections withheld after the first frame with probability 0/0.3/0.6/1 via before_link, memory 0-2, preprocess on/off: "
        "non-trivial = find_link added >= 1 feature; (C) completeness + detect-then-link equality on the well-separated movies; "
        "(D) the boolean hypotheses of C14_movie_complete (first frame complete, moves_b, cross_b, given_b; margin and separation for the image oracle) "
        "evaluated in Coq (complete_code) on the true tracks and given detections of every movie with full tracks; completeness demanded where they hold (tallied)")
    chk.assumptions += [
        "COMPLETENESS half of C14: proved for the model with the image search abstracted into a relocation oracle (C14_movie_complete, C14_equals_detect_then_link); the oracle hypothesis [finds] -- FindLinker's image search returns exactly the unknown blobs within search_range -- is an analytic statement about blob images (like C05): checked by enumeration on one example in Coq, otherwise only tested by these runs (on the movies whose tracks satisfy the boolean hypotheses, evaluated in Coq)",
        "model scope: isotropic search_range/separation/diameter, 2-D integer images, integer pixel coordinates (refine=False, no predictor); anisotropic parameters and 3-D are not covered",
        "np.percentile (the frame threshold is handed to the model), cKDTree queries, scipy grey_dilation (as C06), np.argsort on equal masses (compared modulo ties) are modelled, not verified",
        "float mask tests (x/R)**2+(y/R)**2 <= 1 agree with the exact ones except on 5-12-13 lattice points (radii 13, 26, 39: kept out of the model comparison, counted)",
        "the subnet bookkeeping of assign_links (include_lost / merge_lost_subnets / add_dest_points, dict order) is tied to the model only through the monitor and the completeness runs, not by a step-wise comparison; the safety theorems hold for every grouping that partitions the sources",
        "preprocess=True: only the monitor (float masses) applies; the candidate model is compared on integer images",
        "route T: Gen/findlink.v is produced from the current trackpy/linking/find_link.py by tools/py2coq_findlink.py (trusted, fail-closed; subset, conventions and the named numpy / scipy / trackpy primitives in the translator's docstring and Model/PyFindlink.v: masks.slice_image / mask_image, hash.query_points / to_eucl, ndimage.grey_dilation on the slice, find.drop_close (translation invariance assumed), feature.characterize's mass, np.argsort on distinct masses, np.percentile as a parameter); Gen/findstep.v is produced by tools/py2coq_findstep.py (trusted, fail-closed; Model/PyFindstep.v) from FindLinker.__init__ / next_level / assign_links, Subnets.include_lost / merge_lost_subnets / add_dest_points and find_link_iter: Subnets.__init__ (the components of the candidate graph), the KD-tree queries (all points within the range, hash order, no neighbour cap), the subnet linker, update_hash / apply_links, grey_dilation and characterize are named primitives; the order in which the subnet dictionary is visited is a parameter; after_link and anisotropic ranges are outside the modelled scope",
    ]


def replay(chk, path):
    import json
    common.quiet_trackpy()
    build(chk)
    r = json.load(open(path))['replay']
    if r.get('kind') == 'candidates':
        c = cand_from_json(r)
        runs = eval_cands(chk, [c], 'rcand')
        for c, thr, out in runs:
            print('replay: implementation threshold', thr, 'candidates', out)
    elif r.get('kind') == 'movie':
        c = movie_from_json(r)
        runs = eval_movies(chk, [c], 'rmov')
        for c, rows, initial in runs:
            print('replay: find_link output', {t: [(x['pos'], x['label'], x['mass']) for x in v] for t, v in rows.items()})
            print('replay: given to the linker', {t: v['given'] for t, v in initial.items()})
    else:
        print('replay: nothing executable in this replay file (proof/correspondence breakage): see its log field')
