"""C02 — every frame-to-frame assignment is the global optimum.

Tie (route C, relational, step-wise): trackpy.link_iter is driven frame by
frame on generated lattice movies; its labelling is replayed by the Coq monitor
Model/LinkCheck.check_run, which re-synchronises the model state to the
implementation's own labels before every step and compares the cost of the
implementation's assignment with the optimum of the *verified* solver
(Properties/C02.v).  A second harness calls the subnet linkers directly on
constructed candidate graphs (adversarial cost patterns no geometry yields).

Tie (route T, linking core): tools/py2coq_linker.py re-translates the CURRENT source of
SubnetLinker.__init__ / SubnetLinker.do_recur (subnetlinker.py) and assign_subnet (subnet.py)
into coq/Gen/linker_core.v before the proofs are re-checked; Proofs/LinkerGen.v proves the
generated functions equal to Model/Assign.search / solve and Model/SubnetMerge.assign_subnet
(C02_generated_*).  A translation failure or a failing re-proof is reported through
chk.proof_broken and the correspondence harnesses still run, so that a concrete failing input
is searched for.  In addition the generated constructor is executed next to the real
SubnetLinker object (exact comparison of best_pairs, tie-breaking included) and next to the
model, and the generated assign_subnet next to the dictionaries observed in real Linker runs.

Tie (route T, per-step bookkeeping): tools/py2coq_linkstep.py re-translates the CURRENT source of
Subnets.__init__ / reset / compute / __iter__ / lost (subnet.py), subnet_linker_recursive
(subnetlinker.py) and Linker.next_level / assign_links / apply_links / particle_ids (linking.py) into
coq/Gen/linkstep.v before the proofs are re-checked (Proofs/LinkstepGen.v, LinkstepGen2.v,
LinkstepApply.v; theorems C02_generated_subnets_init ... C02_generated_apply_links).  Same protocol:
a translation failure or failing re-proof goes to chk.proof_broken, the correspondence runs continue.
"""
import os, sys, math, hashlib
import numpy as np
from fractions import Fraction
import common, linkgen
from common import cnat, cZ, clist

TRANSLATOR = os.path.join(common.VERIF, 'tools', 'py2coq_linker.py')
GEN = os.path.join(common.COQ, 'Gen', 'linker_core.v')
TRANSLATOR2 = os.path.join(common.VERIF, 'tools', 'py2coq_linkstep.py')
GEN2 = os.path.join(common.COQ, 'Gen', 'linkstep.v')
STATE = dict(gen_ok=False)

IMPORTS = "From TP Require Import Model.Assign Model.Link Model.LinkCheck."
CODES = {0: 'ok', 1: 'label used twice within a frame', 2: 'link longer than search_range',
         3: 'assignment is not the optimum: a cheaper admissible assignment exists',
         4: 'feature continues a trajectory that is not a candidate source (too old / never seen) or born label not fresh',
         5: 'implementation returned labels although a subnet exceeds the size limit (model: Oversize)',
         6: 'wrong number of labels', 7: 'cost below the model optimum (model/implementation disagree on candidates)',
         8: 'SubnetOversizeException raised although every subnet is within the limit'}

STRATS = ['recursive', 'nonrecursive', 'numba', 'hybrid', 'auto']


def gen_crowded(rng):
    """one destination with 8-10 candidate sources in range (the documented neighbour
    cap is 10: still inside the property's quantifier), optionally some of them remembered"""
    k = rng.choice([8, 9, 10, 10])
    pts = set()
    while len(pts) < k:
        pts.add((rng.randint(-3, 3), rng.randint(-3, 3)))
    pts = [list(p) for p in pts]
    sr = Fraction(5)
    mem = rng.choice([0, 1, 2])
    far = [[40 + 9 * i, 40] for i in range(rng.randint(0, 2))]
    frames = []
    if mem and rng.random() < 0.7:
        # some sources seen only in frame 0, absent in frame 1, all compete for frame-2 features
        early = pts[:rng.randint(1, 4)]
        frames.append(np.array(pts + far, dtype=float))
        frames.append(np.array([p for p in pts if p not in early] + far, dtype=float).reshape(-1, 2))
    else:
        frames.append(np.array(pts + far, dtype=float))
    dests = [[0, 0]] + [[rng.randint(-4, 4), rng.randint(-4, 4)] for _ in range(rng.randint(0, 2))]
    dests = [list(x) for x in {tuple(d) for d in dests}]
    frames.append(np.array(dests + far, dtype=float))
    return dict(frames=frames, sr=sr, memory=mem, max_size=12, strategy=rng.choice(['recursive', 'nonrecursive']), ndim=2)


def gen_hub(rng):
    """one SOURCE with 11-13 destinations in range (the neighbour cap of 10 is per destination: a source may have any
    number of candidates).  Ten to twelve destinations on a ring each have a private source 1 px further out that takes
    them; one more destination, a little farther from the hub than the ring, is left for the hub: the optimum links
    hub -> that destination (rank 11+ among the hub's candidates), anything else costs more.  The rounding to quarter
    pixels is re-drawn until that destination is strictly the hub's farthest candidate and the optimum is what is described"""
    q = lambda v: round(v * 4) / 4.0
    d2 = lambda a, b: (a[0] - b[0]) ** 2 + (a[1] - b[1]) ** 2
    for _ in range(200):
        k = rng.choice([10, 11, 12])
        rot = rng.random() * 2 * math.pi
        ring = [(q(9.75 * math.cos(rot + 2 * math.pi * i / k)), q(9.75 * math.sin(rot + 2 * math.pi * i / k))) for i in range(k)]
        priv = [(q(10.75 * math.cos(rot + 2 * math.pi * i / k)), q(10.75 * math.sin(rot + 2 * math.pi * i / k))) for i in range(k)]
        a = rot + math.pi / k
        extra = (q(9.9 * math.cos(a)), q(9.9 * math.sin(a)))
        hub = (0.0, 0.0)
        e = d2(hub, extra)
        if not (max(d2(hub, r) for r in ring) < e <= 100.0):
            continue
        # hub -> extra with every private source on its own ring point must beat hub -> ring_i with private_i unlinked or on extra
        if all(e + d2(priv[i], ring[i]) < d2(hub, ring[i]) + min(100.0, d2(priv[i], extra)) for i in range(k)):
            break
    mem = rng.choice([0, 0, 1])
    f0 = [hub] + priv
    f1 = ring + [extra]
    rng.shuffle(f0); rng.shuffle(f1)
    return dict(frames=[np.array(f0, dtype=float), np.array(f1, dtype=float)], sr=Fraction(10), memory=mem, max_size=15,
                strategy=rng.choice(['recursive', 'nonrecursive']), ndim=2)


def gen_resume(rng):
    """memory >= 3: a particle is lost for a few frames (fewer than memory - 1), resumed from memory, and two or more frames
    AFTER the resumption - while the slot of the original loss is still in the memory queue - a newcomer appears right
    where the particle was lost.  The remembered copy must be gone for good once the particle has been re-linked."""
    mem = rng.choice([3, 3, 4, 5])
    gap = rng.randint(1, mem - 2)
    t_loss = rng.randint(1, 2)                       # first missing frame
    t_res = t_loss + gap                             # resumed here
    t_new = rng.randint(t_res + 1, t_loss + mem)     # the newcomer appears (stale copy, if any, still remembered)
    n = t_new + rng.randint(1, 2)
    ax = rng.choice([0, 1])
    base = [float(rng.randint(10, 30)), float(rng.randint(10, 30))]
    step = rng.choice([0.25, 0.5, 1.0])
    far = [base[0] + 40.0, base[1] + 37.0]
    frames = []
    for t in range(n):
        pts = []
        a = list(base); a[ax] += step * t
        if not (t_loss <= t < t_res):
            pts.append(a)
        if t >= t_new:
            b = list(base); b[ax] += step * (t_loss - 1) - 0.25 * rng.randint(0, 3)      # next to where A was last seen before the loss
            b[1 - ax] += 0.25 * rng.randint(-2, 2)
            if b != a:
                pts.append(b)
        pts.append([far[0], far[1] + 0.5 * t])       # a bystander far away
        rng.shuffle(pts)
        frames.append(np.array(pts, dtype=float))
    return dict(frames=frames, sr=Fraction(rng.choice([3, 4, 5])), memory=mem, max_size=linkgen.LIMIT,
                strategy=rng.choice(['recursive', 'nonrecursive', 'numba', 'hybrid', 'auto']), ndim=2)


def gen_case(rng, tier):
    if rng.random() < 0.12:
        return gen_crowded(rng)
    if rng.random() < 0.08:
        return gen_resume(rng)
    if rng.random() < 0.05:
        return gen_hub(rng)
    q = rng.random() < 0.5
    big = tier == 'thorough' and rng.random() < 0.3
    fr = linkgen.gen_movie(rng, quarter=q, nframes=rng.randint(2, 10 if big else 7))
    ndim = fr[0].shape[1]
    sr = linkgen.gen_range(rng, ndim, quarter=q)
    mem = rng.choice([0, 0, 1, 2, 3])
    ms = rng.choice([linkgen.LIMIT, linkgen.LIMIT, linkgen.LIMIT, 3, 4, 6])
    strat = rng.choice(STRATS)
    return dict(frames=fr, sr=sr, memory=mem, max_size=ms, strategy=strat, ndim=ndim)


def case_term(c, out):
    w, R2 = linkgen.metric_of(c['sr'], c['ndim'], 4)
    return "(%s, %s, %s, %s, %s)" % (linkgen.cmetric(w, R2), cnat(c['memory']), cnat(c['max_size']),
                                       linkgen.cframes(c['frames'][:len(out)], 4), linkgen.cobs(out))


FUNC = "fun c => match c with (m, mem, ms, fr, out) => check_run m mem ms no_pred fr out end"


def jsonable(c, out):
    return dict(frames=[f.tolist() for f in c['frames']], search_range=[str(x) for x in c['sr']] if isinstance(c['sr'], tuple) else str(c['sr']),
                memory=c['memory'], max_size=c['max_size'], link_strategy=c['strategy'], impl_labels=out,
                **({'search_range_spelling': c['sr_spell']} if c.get('sr_spell') else {}), **({'bystander': True} if c.get('bystander') else {}),
                **({'entry': 'link'} if c.get('entry') == 'link' else {}),
                **({'entry': 'reused-linker', 'first_movie': [np.asarray(f).tolist() for f in c['first_movie']]} if c.get('entry') == 'reused-linker' else {}))


def numba_cap_binding(c):
    """numba_link raises when one source has more than 8 real candidates; the
    property names only recursive/nonrecursive for 'raise in no other case'."""
    return c['strategy'] in ('numba', 'hybrid', 'auto') and linkgen.max_inrange(c['frames'][::-1], c['sr'], c['memory']) > 8


def safe_strategy(c):
    """numba_link refuses sources with more than 8 real candidates (outside 'raise in no other case', which names
    recursive/nonrecursive only): use the recursive solver for such movies"""
    if numba_cap_binding(c):
        c['strategy'] = 'recursive'
    return c


# ---- second harness: subnet linkers on constructed candidate graphs ----------
def gen_graph(rng, tier):
    ns = rng.randint(1, 6 if tier == 'quick' else 8)
    nd = rng.randint(1, 6 if tier == 'quick' else 8)
    R = rng.choice([5, 10, 50])
    kind = rng.choice(['random', 'ties', 'complete', 'chain'])
    srcs = []
    for i in range(ns):
        if kind == 'complete':
            ds = list(range(nd))
        elif kind == 'chain':
            ds = [d for d in (i, i + 1) if d < nd]
        else:
            ds = [d for d in range(nd) if rng.random() < 0.6]
        cs = []
        for d in ds[:8]:
            if kind == 'ties':
                cost = rng.choice([1, 4, 4, 9])
            else:
                cost = rng.randint(0, R) ** 2 if rng.random() < 0.5 else rng.randint(0, R * R)
            cs.append((d, cost))
        srcs.append(cs)
    # the length unit of the distances handed to the solver: 2^k (exact scaling: the squared costs c * 4^k order exactly like the
    # integers c the model sees); k = -24 is a movie in metres with micrometre steps (every squared sum far below 1e-9)
    return dict(srcs=srcs, nd=nd, R2=R * R, strategy=rng.choice(['recursive', 'nonrecursive', 'numba']),
                unit_exp=rng.choice([0, 0, 0, -24, -30, -12, 10]))


def run_graph(g):
    """call the real subnet linker; return (cost as Fraction, assignment) of its answer"""
    from trackpy.linking import subnetlinker as sl
    from trackpy.linking.utils import Point
    import math
    Point.reset_counter()
    u = 2.0 ** g.get('unit_exp', 0)
    R = math.sqrt(g['R2']) * u
    dps = [Point(1, (float(j),)) for j in range(g['nd'])]
    sps = []
    for i, cs in enumerate(g['srcs']):
        p = Point(0, (float(i),))
        p.forward_cands = sorted([(dps[d], math.sqrt(c) * u) for d, c in cs], key=lambda x: x[1])
        sps.append(p)
    used = set(d for cs in g['srcs'] for d, _ in cs)
    dest_set = set(dps[d] for d in used)
    src_set = set(sps)
    f = dict(recursive=sl.subnet_linker_recursive, nonrecursive=sl.subnet_linker_nonrecursive,
             numba=lambda a, b, r, **k: sl.subnet_linker_numba(a, b, r, hybrid=False, **k))[g['strategy']]
    if len(src_set) == 1 and len(dest_set) == 1 or len(dest_set) == 0:
        # trivial shortcuts are exercised through link_iter; the graph harness targets the solvers
        for s in sps:
            s.forward_cands.append((None, R))
        if g['strategy'] == 'recursive':
            spl, dpl = sl.recursive_linker_obj(src_set, len(dest_set), R)
        elif g['strategy'] == 'nonrecursive':
            spl, dpl = sl.nonrecursive_link(src_set, len(dest_set), R)
        else:
            spl, dpl = sl.numba_link(src_set, len(dest_set), R)
    else:
        spl, dpl = f(src_set, dest_set, R)
    assign = {}
    for s, d in zip(spl, dpl):
        if s is not None:
            assign[sps.index(s)] = None if d is None else dps.index(d)
    return assign


def graph_term(g, assign):
    srcs = clist([clist(["(Some %s, %s)" % (cnat(d), cZ(c)) for d, c in sorted(cs, key=lambda x: x[1])] + ["(None, %s)" % cZ(g['R2'])])
                  for cs in g['srcs']])
    # implementation's choice per source, as candidate
    ch = []
    for i, cs in enumerate(g['srcs']):
        d = assign.get(i, 'missing')
        if d == 'missing':
            ch.append("(Some 4999%nat, 0%Z)")   # not a candidate -> flagged
        elif d is None:
            ch.append("(None, %s)" % cZ(g['R2']))
        else:
            cost = dict(cs).get(d)
            ch.append("(Some %s, %s)" % (cnat(d), cZ(cost if cost is not None else -1)))
    return "(%s, %s)" % (srcs, clist(ch))


GRAPH_FUNC = "fun c => match c with (srcs, ch) => check_choice srcs ch end"
GRAPH_CODES = {0: 'ok', 1: 'a source chose something that is not one of its candidates', 2: 'a destination is used twice',
               3: 'total cost above the optimum', 7: 'total cost below the optimum (model broken)', 6: 'wrong length'}


# ---- third harness: the stack-machine models against the real iterative solvers, choice by choice ----
ITER_IMPORTS = "From TP Require Import Model.Assign Model.Iterative Model.IterCheck."
ITER_FUNC = "fun c => match c with (numba, srcs, dests) => check_iter numba srcs dests end"
ITER_CODES = {0: 'ok', 7: 'model returned no assignment', 10: 'model out of fuel (termination bound violated)',
              11: 'the solver returned a different choice than the stack-machine model of it (tie-breaking included)'}


def gen_sq_graph(rng, tier):
    """candidate graph with perfect-square costs (sqrt and re-squaring exact in floats, so tie-breaking is exact too)"""
    ns = rng.randint(1, 5 if tier == 'quick' else 7)
    nd = rng.randint(1, 5 if tier == 'quick' else 7)
    R = rng.choice([4, 6, 9])
    srcs = []
    for i in range(ns):
        ds = [d for d in range(nd) if rng.random() < 0.7][:8]
        cs = sorted([(d, rng.choice([0, 1, 1, 2, 2, 3, R]) ** 2) for d in ds], key=lambda x: x[1])
        srcs.append(cs)
    return dict(srcs=srcs, nd=nd, R2=R * R, numba=rng.random() < 0.5)


def run_iter(g):
    from trackpy.linking import subnetlinker as sl
    from trackpy.linking.utils import Point
    import math
    Point.reset_counter()
    R = math.sqrt(g['R2'])
    dps = [Point(1, (float(j),)) for j in range(g['nd'])]
    sps = []
    for i, cs in enumerate(g['srcs']):
        p = Point(0, (float(i),))
        p.forward_cands = [(dps[d], math.sqrt(c)) for d, c in cs] + [(None, R)]
        sps.append(p)
    if g['numba']:
        order = list(sps)
        spl, dpl = sl.numba_link(order, g['nd'], R)
    else:
        order = sorted(sps, key=lambda x: len(x.forward_cands))      # the solver's own (stable) sort
        spl, dpl = sl.nonrecursive_link(list(sps), g['nd'], R)
    res = {id(s): d for s, d in zip(spl, dpl)}
    return [sps.index(s) for s in order], [None if res[id(s)] is None else dps.index(res[id(s)]) for s in order]


def iter_term(g, order, dests):
    srcs = clist([clist(["(Some %s, %s)" % (cnat(d), cZ(c)) for d, c in g['srcs'][i]] + ["(None, %s)" % cZ(g['R2'])]) for i in order])
    return "(%s, %s, %s)" % ('true' if g['numba'] else 'false', srcs, clist([("None" if d is None else "(Some %s)" % cnat(d)) for d in dests]))


# ---- subnet dictionary (assign_subnet) observed inside real Linker runs ----
SUBNET_IMPORTS = "From TP Require Import Model.SubnetMerge."
SUBNET_FUNC = "check_subnets"
SUBNET_CODES = {0: 'ok', 1: 'subnet dictionary built by Subnets.compute differs from the model of assign_subnet',
                2: 'model of assign_subnet raised (impossible from reset() by C02_assign_subnet_total)'}


class record_subnets:
    """Harness-side wrapper (no change to /repo): while active, every Subnets.compute() inside trackpy logs the
    (source index, dest index) pairs in the order assign_subnet is called and the dictionary it leaves."""
    def __init__(self, log, cap):
        self.log, self.cap = log, cap

    def __enter__(self):
        from trackpy.linking import subnet as sn
        self.sn, self.orig = sn, sn.Subnets.compute
        rec = self

        def compute(subnets_obj):
            if len(rec.log) >= rec.cap:
                return rec.orig(subnets_obj)
            sidx = {id(p): k for k, p in enumerate(subnets_obj.source_hash.points)}
            didx = {id(p): k for k, p in enumerate(subnets_obj.dest_hash.points)}
            calls = []
            orig_assign = sn.assign_subnet

            def assign(s, d, subnets):
                calls.append((sidx[id(s)], didx[id(d)]))
                return orig_assign(s, d, subnets)
            sn.assign_subnet = assign
            try:
                rec.orig(subnets_obj)
            finally:
                sn.assign_subnet = orig_assign
            part = [(sorted(sidx[id(p)] for p in S), sorted(didx[id(p)] for p in D)) for S, D in subnets_obj.subnets.values()]
            part.sort(key=lambda v: v[1][0] if v[1] else -1)
            if len(didx) < 60 and len(sidx) < 60:
                rec.log.append(dict(nd=len(didx), edges=[list(e) for e in calls], subnets=[[a, b] for a, b in part]))
        sn.Subnets.compute = compute
        return self

    def __exit__(self, *a):
        self.sn.Subnets.compute = self.orig


def subnet_term(e):
    ln = lambda l: clist([cnat(x) for x in l])
    return "(%s, %s, %s)" % (cnat(e['nd']), clist(["(%s, %s)" % (cnat(a), cnat(b)) for a, b in e['edges']]),
                             clist(["(%s, %s)" % (ln(a), ln(b)) for a, b in e['subnets']]))


# ---- route T: translator / build ----------------------------------------------------------
def regenerate(chk, translator=None, gen=None):
    """re-run a translator on the current source; returns (ok, text-or-log)"""
    translator = translator or TRANSLATOR
    gen = gen or GEN
    name = 'Gen/' + os.path.basename(gen)
    rc, out = common.sh([sys.executable, translator, '--repo', common.REPO, '--stdout'], timeout=60)
    if rc != 0:
        return False, out
    with common.Lock(os.path.join(common.COQ, '.build.lock')):
        old = open(gen).read() if os.path.exists(gen) else None
        if old != out:
            os.makedirs(os.path.dirname(gen), exist_ok=True)
            tmp = gen + '.tmp%d' % os.getpid()
            with open(tmp, 'w') as f:
                f.write(out)
            os.replace(tmp, gen)
            chk.tally('%s rewritten (source differs from last run)' % name)
        else:
            chk.tally('%s unchanged' % name)
    return True, out


def ensure_vo(chk, targets, report):
    """make the given .vo files (needed by the correspondence harnesses even when a proof of the cone is broken)"""
    with common.Lock(os.path.join(common.COQ, '.build.lock')):
        rc, out = common.sh('timeout 600 make -j8 %s 2>&1 | tail -40' % ' '.join(targets), timeout=630, cwd=common.COQ)
        for t in targets:
            vo = os.path.join(common.COQ, t)
            if not (os.path.exists(vo) and os.path.getmtime(vo) >= os.path.getmtime(vo[:-1])):
                if report:
                    chk.proof_broken(report, out)
                return False
    return True


def build(chk):
    """translators -> cone of Properties/C02.v -> executable comparison file.  STATE['gen_ok'] tells the
    correspondence run whether the generated functions can be executed."""
    STATE['gen_ok'] = False
    ok, text = regenerate(chk)
    if not ok:
        chk.proof_broken('translation tools/py2coq_linker.py (SubnetLinker.__init__ / do_recur / assign_subnet left the translatable subset)', text)
        chk.build = dict(obligations=0, discharged=0, assumptions=[], files=[], theorems=[])
        ensure_vo(chk, ['Model/LinkCheck.vo', 'Model/IterCheck.vo', 'Model/SubnetMerge.vo'], None)
        return False
    ok2, text2 = regenerate(chk, TRANSLATOR2, GEN2)
    if not ok2:
        # the stale Gen/linkstep.v of an earlier run must not stand in for the current source: no proof accounting
        chk.proof_broken('translation tools/py2coq_linkstep.py (Subnets.reset / compute / lost, subnet_linker_recursive, Linker.next_level / '
                         'assign_links / apply_links left the translatable subset)', text2)
        chk.build = dict(obligations=0, discharged=0, assumptions=[], files=[], theorems=[])
        ensure_vo(chk, ['Model/LinkCheck.vo', 'Model/IterCheck.vo', 'Model/SubnetMerge.vo'], None)
        STATE['gen_ok'] = ensure_vo(chk, ['Model/LinkerGenCheck.vo'], None) and open(GEN).read() == text
        return False
    for attempt in range(3):
        b = chk.coq()
        if open(GEN).read() == text and open(GEN2).read() == text2:
            break
        # another run (different TRACKPY_REPO) rewrote a generated file in between: redo
        chk.violations = [v for v in chk.violations if not v[0].startswith('proof:')]
        regenerate(chk)
        regenerate(chk, TRANSLATOR2, GEN2)
    chk.notes.append('Gen/linker_core.v sha1 %s, Gen/linkstep.v sha1 %s generated from %s'
                     % (hashlib.sha1(text.encode()).hexdigest()[:12], hashlib.sha1(text2.encode()).hexdigest()[:12], common.REPO))
    if not b['ok']:
        ensure_vo(chk, ['Model/LinkCheck.vo', 'Model/IterCheck.vo', 'Model/SubnetMerge.vo'], None)
    STATE['gen_ok'] = ensure_vo(chk, ['Model/LinkerGenCheck.vo'], 'Gen/linker_core.v / Model/LinkerGenCheck.v (generated linking core does not build)') \
        and open(GEN).read() == text
    return bool(b['ok'])


# ---- generated linking core next to the real code and the model ---------------------------
GENL_IMPORTS = "From TP Require Import Model.Assign Model.LinkerGenCheck."
GENL_FUNC = "check_gen_linker"
GENL_CODES = {0: 'ok', 20: 'the generated constructor raises / runs out of fuel where the real SubnetLinker returned',
              21: 'the generated do_recur (translated from the current source) leaves other best_pairs than the real SubnetLinker object '
                  '(translator or vocabulary unfaithful)',
              22: 'the generated do_recur differs from the model search on this input (contradicts C02_generated_linker_is_solve)',
              23: 'the generated constructor found no assignment',
              24: 'the real SubnetLinker raised SubnetOversizeException, the generated constructor did not'}
GENS_IMPORTS = "From TP Require Import Model.SubnetMerge Model.LinkerGenCheck."
GENS_FUNC = "check_gen_subnets"
GENS_CODES = {0: 'ok', 31: 'the generated assign_subnet (translated from the current source) builds another dictionary than the real Subnets.compute '
                          '(translator or vocabulary unfaithful)',
              32: 'the generated assign_subnet differs from the model on these pairs (contradicts C02_generated_assign_subnet_is_model)',
              33: 'generated assign_subnet and model both raise (impossible from reset() by C02_generated_assign_subnet_total)'}


def run_gen_linker(g):
    """the real SubnetLinker object on the sources in a FIXED order (a list, not a set); returns its best_pairs as
    (source position, destination index or None), or None when it raised SubnetOversizeException"""
    from trackpy.linking import subnetlinker as sl
    from trackpy.linking.utils import Point, SubnetOversizeException
    Point.reset_counter()
    R = math.sqrt(g['R2'])
    dps = [Point(1, (float(j),)) for j in range(g['nd'])]
    sps = []
    for i, cs in enumerate(g['srcs']):
        p = Point(0, (float(i),))
        p.forward_cands = [(dps[d], math.sqrt(c)) for d, c in cs] + [(None, R)]
        sps.append(p)
    try:
        snl = sl.SubnetLinker(list(sps), g['nd'], R, max_size=g['max_size'])
    except SubnetOversizeException:
        return None
    pos = {id(p): k for k, p in enumerate(sps)}
    dpos = {id(p): k for k, p in enumerate(dps)}
    return [[pos[id(s)], None if d is None else dpos[id(d)]] for s, d in snl.best_pairs]


def gen_linker_term(g, impl):
    srcs = clist([clist(["(Some %s, %s)" % (cnat(d), cZ(c)) for d, c in cs] + ["(None, %s)" % cZ(g['R2'])]) for cs in g['srcs']])
    if impl is None:
        it = 'None'
    else:
        it = '(Some %s)' % clist(["(%s, %s)" % (cnat(s), 'None' if d is None else '(Some %s)' % cnat(d)) for s, d in impl])
    return "(%s, %s, %s)" % (srcs, cnat(g['max_size']), it)


def gen_harness(chk, sublog):
    """executes Gen/linker_core.v (when it builds) next to the real code and next to the model"""
    if not STATE['gen_ok']:
        chk.tally('generated linking core not executable (translation / build failed): generated-code harness skipped')
        return
    n = 200 if chk.tier == 'quick' else 6000
    terms, cases = [], []
    for k in range(n):
        g = gen_sq_graph(chk.rng, chk.tier)
        g['max_size'] = chk.rng.choice([30, 30, 30, len(g['srcs']), max(0, len(g['srcs']) - 1)])
        try:
            impl = run_gen_linker(g)
        except Exception as e:
            chk.violation('SubnetLinker: exception', 'SubnetLinker raised %r' % e, dict(kind='genlinker', graph=g)); continue
        terms.append(gen_linker_term(g, impl)); cases.append((g, impl))
        chk.tally('generated do_recur vs SubnetLinker object' + (' (oversize raised)' if impl is None else ''))
    res = common.coq_eval_lists(chk.work, GENL_IMPORTS, GENL_FUNC, terms, tag='genlinker')
    for (g, impl), r in zip(cases, res):
        chk.count(('genlinker', g), len(g['srcs']) >= 3)
        if r != 0:
            chk.violation('generated linker: %s' % GENL_CODES.get(r, r), 'SubnetLinker / Gen.linker_core.py_SubnetLinker_init: %s' % GENL_CODES.get(r, r),
                          dict(kind='genlinker', code=r, graph=g, impl_best_pairs=impl))
    sres = common.coq_eval_lists(chk.work, GENS_IMPORTS, GENS_FUNC, [subnet_term(e) for e in sublog], tag='gensubnets')
    for e, r in zip(sublog, sres):
        chk.tally('generated assign_subnet vs observed Subnets.compute')
        if r != 0:
            chk.violation('generated assign_subnet: %s' % GENS_CODES.get(r, r), GENS_CODES.get(r, r), dict(kind='gensubnets', code=r, case=e))


def run(chk):
    common.quiet_trackpy()
    build(chk)
    n = 150 if chk.tier == 'quick' else 5000
    cases, terms, outs, sublog = [], [], [], []
    for k in range(n):
        c = gen_case(chk.rng, chk.tier)
        if linkgen.max_inrange(c['frames'], c['sr'], c['memory']) > 10:
            chk.tally('skipped: neighbour cap (more than 10 sources in range) binding')
            continue
        if numba_cap_binding(c):
            c['strategy'] = 'recursive'
        c['bystander'] = chk.rng.random() < 0.3
        # a quarter of the movies go through trackpy.link on a table: frames without features are then missing frame
        # NUMBERS, and every one of them must age the remembered trajectories by one step
        c['entry'] = 'link' if (chk.rng.random() < 0.25 and len(c['frames'][0]) and len(c['frames'][-1]) and c['max_size'] == linkgen.LIMIT) else 'link_iter'
        if c['entry'] == 'link':
            c['bystander'] = False
            if len(c['frames']) >= 3 and chk.rng.random() < 0.6:
                # a stretch of 2-3 frame numbers without any feature; memory shorter or longer than the stretch
                pos = chk.rng.randint(1, len(c['frames']) - 1)
                nd0 = c['frames'][0].shape[1]
                c['frames'] = c['frames'][:pos] + [np.empty((0, nd0))] * chk.rng.randint(2, 3) + c['frames'][pos:]
                c['memory'] = chk.rng.choice([1, 1, 2, 3])
                chk.tally('table with a stretch of missing frame numbers')
            chk.tally('through trackpy.link (table; empty frames = missing frame numbers)')
            from props import c03
            with record_subnets(sublog, 400 if chk.tier == 'quick' else 6000), linkgen.size_limit(c['max_size']):
                out = c03.run_table(c['frames'], c['sr'], c['memory'], c['strategy'], 'link')
            if out in ('skip', 'oversize'):
                chk.tally('table run skipped (%s)' % out); continue
            cases.append(c); outs.append(out); terms.append(case_term(c, out))
            chk.tally('strategy=' + c['strategy']); chk.tally('memory=%d' % c['memory'])
            continue
        if c['bystander']:
            chk.tally('link_iter with another linking job alive')
        if not c['bystander'] and c['memory'] >= 1 and len(c['frames']) >= 2 and len(c['frames'][0]) and chk.rng.random() < 0.3:
            # the Linker object itself, re-used: driven by hand through the first frame of this movie followed by an empty one
            # (every particle is then lost and REMEMBERED), then re-initialised for the movie: init_level starts from nothing
            c['entry'] = 'reused-linker'
            first = [c['frames'][0] + 0.25, np.empty((0, c['frames'][0].shape[1]))]
            c['first_movie'] = first
            chk.tally('Linker object re-used for a second movie (remembered particles of the first must be gone)')
            with record_subnets(sublog, 400 if chk.tier == 'quick' else 6000):
                out = linkgen.run_linker_reused(first, c['frames'], c['sr'], memory=c['memory'], link_strategy=c['strategy'], max_size=c['max_size'])
            cases.append(c); outs.append(out); terms.append(case_term(c, out))
            chk.tally('strategy=' + c['strategy']); chk.tally('memory=%d' % c['memory'])
            continue
        with record_subnets(sublog, 400 if chk.tier == 'quick' else 6000):
            out = linkgen.run_link_iter(c['frames'], c['sr'], memory=c['memory'], link_strategy=c['strategy'], max_size=c['max_size'], bystander=c['bystander'])
        cases.append(c); outs.append(out); terms.append(case_term(c, out))
        chk.tally('strategy=' + c['strategy']); chk.tally('memory=%d' % c['memory'])
        if out and out[-1] is None:
            chk.tally('oversize raised')
        mi = linkgen.max_inrange(c['frames'], c['sr'], c['memory'])
        if mi >= 9:
            chk.tally('feature with %d sources in range' % mi)
    res = common.coq_eval_lists(chk.work, IMPORTS, FUNC, terms)
    # coverage statistics from the model: subnet sizes
    for c, out, r in zip(cases, outs, res):
        nontrivial = sum(len(f) for f in c['frames']) >= 6
        chk.count(('movie', jsonable(c, out)), nontrivial)
        if r != 0:
            chk.violation('link_iter:%s' % CODES.get(r, r), 'link_iter(%s, memory=%d): %s' % (c['strategy'], c['memory'], CODES.get(r, r)),
                          dict(kind='movie', code=r, case=jsonable(c, out)))
    if cases:
        chk.sample(jsonable(cases[0], outs[0]))
    # subnet dictionaries observed during those runs
    sres = common.coq_eval_lists(chk.work, SUBNET_IMPORTS, SUBNET_FUNC, [subnet_term(e) for e in sublog], tag='subnets')
    for e, r in zip(sublog, sres):
        merged = any(len(a) >= 2 for a, b in e['subnets'])
        chk.count(('subnets', e), merged)
        chk.tally('Subnets.compute observed' + (' (with a merged subnet)' if merged else ''))
        if r != 0:
            chk.violation('assign_subnet:%s' % SUBNET_CODES.get(r, r), SUBNET_CODES.get(r, r), dict(kind='subnets', code=r, case=e))
    # graph harness
    ng = 200 if chk.tier == 'quick' else 8000
    gterms, graphs = [], []
    for k in range(ng):
        g = gen_graph(chk.rng, chk.tier)
        try:
            a = run_graph(g)
        except Exception as e:
            chk.violation('subnet_linker:exception', 'subnet linker %s raised %r on a graph within limits' % (g['strategy'], e), dict(kind='graph', graph=g))
            continue
        graphs.append((g, a)); gterms.append(graph_term(g, a))
        chk.tally('graph strategy=' + g['strategy'])
        chk.tally('graph distances in length unit 2^%d' % g.get('unit_exp', 0))
    gres = common.coq_eval_lists(chk.work, IMPORTS, GRAPH_FUNC, gterms, tag='graphs')
    for (g, a), r in zip(graphs, gres):
        chk.count(('graph', g), len(g['srcs']) >= 3)
        if r != 0:
            chk.violation('subnet_linker:%s' % GRAPH_CODES.get(r, r), 'subnet_linker_%s: %s' % (g['strategy'], GRAPH_CODES.get(r, r)),
                          dict(kind='graph', code=r, graph=g, impl_assignment={str(k): v for k, v in a.items()}))
    if graphs:
        chk.sample(dict(graph=graphs[0][0], impl_assignment={str(k): v for k, v in graphs[0][1].items()}))
    # iterative machines, exact
    ni = 200 if chk.tier == 'quick' else 8000
    iterms, igraphs = [], []
    for k in range(ni):
        g = gen_sq_graph(chk.rng, chk.tier)
        try:
            order, dests = run_iter(g)
        except Exception as e:
            chk.violation('iterative solver: exception', 'iterative solver raised %r' % e, dict(kind='itergraph', graph=g)); continue
        iterms.append(iter_term(g, order, dests)); igraphs.append((g, order, dests))
        chk.tally('stack machine vs ' + ('_numba_subnet_norecur' if g['numba'] else 'nonrecursive_link'))
    ires = common.coq_eval_lists(chk.work, ITER_IMPORTS, ITER_FUNC, iterms, tag='iter')
    for (g, order, dests), r in zip(igraphs, ires):
        chk.count(('itergraph', g), len(g['srcs']) >= 3)
        if r != 0:
            chk.violation('iterative solver: %s' % ITER_CODES.get(r, r), '%s: %s' % ('numba_link' if g['numba'] else 'nonrecursive_link', ITER_CODES.get(r, r)),
                          dict(kind='itergraph', code=r, graph=g, impl_choice=dests))
    # the generated linking core (route T), executed
    gen_harness(chk, sublog)
    chk.coverage['rule'] = ("lattice movies (integer / quarter-pixel coordinates, 1-3 D, clusters, vanishing and new particles, blank frames, duplicates) through "
                            "trackpy.link_iter with every solver strategy, memory 0-3, lowered size limits; plus constructed candidate graphs through the subnet linkers. "
                            "non-trivial = movie with >= 6 features / graph with >= 3 sources; distinct by content hash")
    chk.assumptions += ["cKDTree.query returns all sources within range (cases with > 10 in range are skipped and counted)",
                        "float distance arithmetic agrees with exact arithmetic on lattice inputs (margins >= 1/16 px^2); the 1e-7 admission slack is not modelled",
                        "numba strategy runs interpreted (numba absent)",
                        "Gen/linker_core.v is produced by tools/py2coq_linker.py (trusted translator, fail-closed; subset and conventions in its docstring, vocabulary in "
                        "Model/PyLinker.v): dist**2 is an exact integer cost there (float rounding of cur_sum +=/-= dist**2 not modelled), sets/deques are lists, "
                        "recursion on explicit fuel; the translation is exercised by exact comparison of the generated constructor with the real SubnetLinker object "
                        "(perfect-square costs, tie-breaking included) and of the generated assign_subnet with dictionaries observed in real Linker runs",
                        "Gen/linkstep.v is produced by tools/py2coq_linkstep.py (trusted translator, fail-closed; control flow generic, every other statement a named "
                        "primitive matched as exact source text with the meaning given in Model/PyLinkstep.v): points are indices, sets are lists iterated in a "
                        "parameter order, the KD-tree query result and Linker.update_hash (abstracted at index level; its own translation is C11's Gen/predict.v) "
                        "are parameters / vocabulary; tied to the real code by the movie and subnet-dictionary correspondence runs above, not executed separately"]


def replay(chk, path):
    import json
    common.quiet_trackpy()
    build(chk)
    r = json.load(open(path))['replay']
    if r.get('kind') == 'movie':
        cj = r['case']
        sr = tuple(Fraction(x) for x in cj['search_range']) if isinstance(cj['search_range'], list) else Fraction(cj['search_range'])
        c = dict(frames=linkgen.frames_from_json(cj['frames']), sr=sr, memory=cj['memory'],
                 max_size=cj['max_size'], strategy=cj['link_strategy'])
        c['ndim'] = max(f.shape[1] for f in c['frames'])
        c['bystander'] = bool(cj.get('bystander'))
        if cj.get('entry') == 'link':
            from props import c03
            with linkgen.size_limit(c['max_size']):
                out = c03.run_table(c['frames'], c['sr'], c['memory'], c['strategy'], 'link')
        elif cj.get('entry') == 'reused-linker':
            nd = c['ndim']
            first = [np.array(f, dtype=float).reshape(len(f), nd) for f in cj['first_movie']]
            c['entry'] = 'reused-linker'; c['first_movie'] = first
            out = linkgen.run_linker_reused(first, c['frames'], c['sr'], memory=c['memory'], link_strategy=c['strategy'], max_size=c['max_size'])
        else:
            out = linkgen.run_link_iter(c['frames'], c['sr'], memory=c['memory'], link_strategy=c['strategy'], max_size=c['max_size'], bystander=c['bystander'])
        res = common.coq_eval_lists(chk.work, IMPORTS, FUNC, [case_term(c, out)])
        chk.count(('movie', cj), True)
        print('replay: implementation labels', out, 'monitor code', res[0], CODES.get(res[0]))
        if res[0] != 0:
            chk.violation('link_iter:%s' % CODES.get(res[0]), CODES.get(res[0]), dict(kind='movie', code=res[0], case=jsonable(c, out)))
    elif r.get('kind') == 'graph':
        g = r['graph']
        g['srcs'] = [[tuple(x) for x in cs] for cs in g['srcs']]
        a = run_graph(g)
        res = common.coq_eval_lists(chk.work, IMPORTS, GRAPH_FUNC, [graph_term(g, a)])
        chk.count(('graph', g), True)
        print('replay: implementation assignment', a, 'monitor code', res[0])
        if res[0] != 0:
            chk.violation('subnet_linker:%s' % GRAPH_CODES.get(res[0]), GRAPH_CODES.get(res[0]), dict(kind='graph', code=res[0], graph=g))
    elif r.get('kind') == 'subnets':
        e = r['case']
        res = common.coq_eval_lists(chk.work, SUBNET_IMPORTS, SUBNET_FUNC, [subnet_term(e)])
        chk.count(('subnets', e), True)
        print('replay: recorded Subnets.compute vs model: code', res[0], SUBNET_CODES.get(res[0]))
        if res[0] != 0:
            chk.violation('assign_subnet:%s' % SUBNET_CODES.get(res[0]), SUBNET_CODES.get(res[0]), dict(kind='subnets', code=res[0], case=e))
    elif r.get('kind') == 'genlinker' and STATE['gen_ok']:
        g = r['graph']
        g['srcs'] = [[tuple(x) for x in cs] for cs in g['srcs']]
        impl = run_gen_linker(g)
        res = common.coq_eval_lists(chk.work, GENL_IMPORTS, GENL_FUNC, [gen_linker_term(g, impl)])
        chk.count(('genlinker', g), True)
        print('replay: real SubnetLinker best_pairs', impl, 'code', res[0], GENL_CODES.get(res[0]))
        if res[0] != 0:
            chk.violation('generated linker: %s' % GENL_CODES.get(res[0]), GENL_CODES.get(res[0]), dict(kind='genlinker', code=res[0], graph=g, impl_best_pairs=impl))
    elif r.get('kind') == 'gensubnets' and STATE['gen_ok']:
        e = r['case']
        res = common.coq_eval_lists(chk.work, GENS_IMPORTS, GENS_FUNC, [subnet_term(e)])
        chk.count(('gensubnets', e), True)
        print('replay: generated assign_subnet vs recorded Subnets.compute: code', res[0], GENS_CODES.get(res[0]))
        if res[0] != 0:
            chk.violation('generated assign_subnet: %s' % GENS_CODES.get(res[0]), GENS_CODES.get(res[0]), dict(kind='gensubnets', code=res[0], case=e))
    else:
        print('replay: nothing executable in this replay file (proof/correspondence breakage): see its log field')
