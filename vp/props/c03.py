"""C03 — all linking strategies, entry points and coordinate scalings agree.

Theorems (Properties/C03.v): labellings accepted by the sound monitor have
identical cost; optimality is invariant under source order; 'drop' links only
uncontested one-to-one subnets; a per-axis range is a rescaling.
Tie (differential): one movie goes through every link_strategy x {link_iter,
link, link_df_iter} + legacy.link_iter (KDTree and the hash-table 'BTree',
recursive / nonrecursive / drop) + permuted rows + pre-divided coordinates.
Every labelling is replayed by the Coq monitor (optimal cost, admissible);
partitions are compared directly and a difference is accepted only when the
monitor certifies both as optima (tie).  'drop' outputs are compared with the
model's drop_links exactly.
"""
import numpy as np, pandas as pd, json
from fractions import Fraction
import common, linkgen
from common import cnat
from props import c02, c11

IMPORTS = "From TP Require Import Model.Assign Model.Link Model.LinkCheck Model.Strategies."
FUNC = c02.FUNC
FUNC_DROP = "fun c => match c with (m, mem, ms, fr, out) => check_run_drop m mem ms fr out end"
CODES = dict(c02.CODES)
CODES[9] = "'drop' linked or failed to link differently from: link exactly the uncontested one-source/one-destination subnets"


def run_legacy(frames, sr, memory, neighbor, strategy):
    from trackpy.linking import legacy
    from trackpy.linking.utils import SubnetOversizeException
    legacy.PointND.reset_counter()
    ndim = frames[0].shape[1]
    levels = [[legacy.PointND(t, p.copy()) for p in f] for t, f in enumerate(frames)]
    srt = tuple(float(r) for r in sr) if isinstance(sr, tuple) else (float(sr),) * ndim
    kw = {}
    if neighbor == 'BTree':
        if isinstance(sr, tuple) or ndim not in (2, 3):
            return 'skip'
        lo = min([f.min() for f in frames if f.size] + [0.0]); hi = max([f.max() for f in frames if f.size] + [1.0])
        kw['hash_size'] = (hi + 10,) * ndim
        if lo < 0:
            return 'skip'
    out = []
    try:
        for k, lev in enumerate(legacy.link_iter(iter(levels), srt, memory=memory, neighbor_strategy=neighbor, link_strategy=strategy, **kw)):
            out.append([int(p.track.id) for p in levels[k]])
    except SubnetOversizeException:
        out.append(None)
    return out


def run_table(frames, sr, memory, strategy, entry, perm_rng=None):
    """link / link_df_iter; with perm_rng the rows of the table are shuffled and labels mapped back"""
    import trackpy as tp
    from trackpy.linking.utils import SubnetOversizeException
    ndim = frames[0].shape[1]
    cols = ['x', 'y', 'z'][:ndim][::-1]
    srf = linkgen.sr_float(sr)
    try:
        if entry == 'link':
            rows = [[*map(float, p), t, t, j] for t, f in enumerate(frames) for j, p in enumerate(f)]
            if not rows:
                return 'skip'
            df = pd.DataFrame(rows, columns=cols + ['frame', '_t', '_j'])
            if perm_rng is not None:
                idx = list(range(len(df))); perm_rng.shuffle(idx); df = df.iloc[idx]
            out = tp.link(df, srf, pos_columns=cols, memory=memory, link_strategy=strategy)
            labs = [[None] * len(f) for f in frames]
            for t, j, lb in zip(out['_t'].values, out['_j'].values, out['particle'].values):
                labs[int(t)][int(j)] = int(lb)
            # frames absent from the table (empty) are still steps for link
            return labs
        dfs = [pd.DataFrame({**{c: f[:, i] for i, c in enumerate(cols)}, 'frame': t}) for t, f in enumerate(frames)]
        return [[int(x) for x in o['particle'].values] for o in tp.link_df_iter(dfs, srf, pos_columns=cols, memory=memory, link_strategy=strategy)]
    except SubnetOversizeException:
        return 'oversize'


def run(chk):
    with linkgen.size_limit(linkgen.LIMIT):
        return _run(chk)


def _run(chk):
    common.quiet_trackpy()
    chk.coq()
    rng = chk.rng
    n = 60 if chk.tier == 'quick' else 1200
    terms, metas, dterms, dmetas = [], [], [], []
    ref_part = {}
    corpus = []
    # pairs at distance exactly search_range (3-4-5, 6-8-10, 5-12-13): every path must admit them (defect F10, fixed)
    for (dx, dy, r) in [(3, 4, 5), (6, 8, 10), (5, 12, 13), (0, 5, 5)]:
        corpus.append(dict(frames=[np.array([[0., 0.], [40., 40.]]), np.array([[float(dx), float(dy)], [40., 41.]])], sr=Fraction(r), memory=0,
                           max_size=linkgen.LIMIT, strategy='recursive', ndim=2))
    for k in range(n):
        c = corpus[k] if k < len(corpus) else c02.gen_case(rng, chk.tier)
        c['max_size'] = linkgen.LIMIT
        if k >= len(corpus) and rng.random() < 0.3 and len(c['frames']) >= 3:
            # a stretch of 2-3 consecutive frames without any feature (dropped video frames): the entry points must
            # count them as elapsed frames alike; memory shorter or longer than the stretch
            pos = rng.randint(1, len(c['frames']) - 1)
            nd0 = c['frames'][0].shape[1]
            c['frames'] = c['frames'][:pos] + [np.empty((0, nd0))] * rng.randint(2, 3) + c['frames'][pos:]
            c['memory'] = rng.choice([1, 1, 2, 3])
            chk.tally('movie with a stretch of blank frames')
        frames, sr, mem = c['frames'], c['sr'], c['memory']
        if any(len(f) == 0 for f in frames[:1]) or linkgen.max_inrange(frames, sr, mem) > 8:
            chk.tally('skipped'); continue
        # link() drops leading/trailing empty frames from the table: keep the movie's ends non-empty
        if len(frames[-1]) == 0:
            frames = frames[:-1]
            if not frames:
                continue
            c['frames'] = frames
        runs = {}
        capb = c02.numba_cap_binding(dict(c, strategy='numba'))
        for s in ['recursive', 'nonrecursive', 'numba', 'hybrid', 'auto']:
            if capb and s in ('numba', 'hybrid'):
                chk.tally('numba candidate cap binding: numba/hybrid not run'); continue
            runs['link_iter/' + s] = linkgen.run_link_iter(frames, sr, memory=mem, link_strategy=s)
        s = rng.choice(['recursive', 'nonrecursive'] + ([] if capb else ['numba']))
        runs['link/' + s] = run_table(frames, sr, mem, s, 'link')
        runs['link_df_iter/' + s] = run_table(frames, sr, mem, s, 'link_df_iter')
        runs['link(permuted rows)/' + s] = run_table(frames, sr, mem, s, 'link', perm_rng=rng)
        for nb in ['KDTree', 'BTree']:
            ls = rng.choice(['recursive', 'nonrecursive']) if k >= len(corpus) else 'recursive' 
            runs['legacy/%s/%s' % (nb, ls)] = run_legacy(frames, sr, mem, nb, ls)
        if isinstance(sr, tuple):
            pre = [f / np.array([float(r) for r in sr]) for f in frames]
            runs['pre-divided coordinates, range 1'] = linkgen.run_link_iter(pre, Fraction(1), memory=mem, link_strategy='recursive')
        drops = {'link_iter/drop': linkgen.run_link_iter(frames, sr, memory=mem, link_strategy='drop'),
                 'legacy/KDTree/drop': run_legacy(frames, sr, mem, 'KDTree', 'drop')}
        chk.count(('movie', c02.jsonable(c, None)), sum(len(f) for f in frames) >= 6)
        ref = None
        for name, out in runs.items():
            if out in ('skip', 'oversize') or out is None:
                continue
            if any(o is None for o in out):
                chk.tally('oversize (skipped run)'); continue
            if any(lb is None for o in out for lb in o):
                chk.violation('%s: feature without label' % name.split('/')[0], '%s left a feature unlabelled' % name, dict(kind='matrix', run=name, case=c02.jsonable(c, out)))
                continue
            terms.append(c02.case_term(c, out)); metas.append((k, name, c, out))
            chk.tally('run ' + name.split('/')[0])
        for name, out in drops.items():
            if out in ('skip', 'oversize') or out is None or any(o is None for o in out):
                continue
            dterms.append(c02.case_term(c, out)); dmetas.append((k, name, c, out))
    res = common.coq_eval_lists(chk.work, IMPORTS, FUNC, terms)
    byk = {}
    for (k, name, c, out), r in zip(metas, res):
        if r != 0:
            chk.violation('%s: %s' % (name.split('/')[0], CODES.get(r, r)), '%s (memory=%d): %s' % (name, c['memory'], CODES.get(r, r)),
                          dict(kind='matrix', run=name, code=r, case=c02.jsonable(c, out)))
        else:
            byk.setdefault(k, []).append((name, c11.partition(out)))
    for k, lst in byk.items():
        parts = {json.dumps(p) for _, p in lst}
        chk.tally('all runs give one partition' if len(parts) == 1 else 'runs differ only by equal-cost ties (monitor-certified)')
    dres = common.coq_eval_lists(chk.work, IMPORTS, FUNC_DROP, dterms, tag='drop')
    for (k, name, c, out), r in zip(dmetas, dres):
        if r != 0:
            chk.violation('%s: %s' % (name, CODES.get(r, r)), '%s (memory=%d): %s' % (name, c['memory'], CODES.get(r, r)),
                          dict(kind='drop', run=name, code=r, case=c02.jsonable(c, out)))
    if metas:
        chk.sample(dict(run=metas[0][1], case=c02.jsonable(metas[0][2], metas[0][3])))
    chk.coverage['rule'] = ("each lattice movie through 5 strategies x link_iter, link, link_df_iter, link with permuted rows, legacy.link_iter (KDTree + hash table), "
                            "pre-divided coordinates for per-axis ranges, and 'drop' (new + legacy); every labelling replayed by the Coq monitor; non-trivial = >= 6 features")
    chk.coverage['runs_checked'] = len(metas) + len(dmetas)
    chk.assumptions += ["as C02", "sklearn absent: neighbor_strategy='BTree' of the new linker not exercised; legacy 'BTree' is the pure-Python hash table",
                        "legacy.link_df / link_df_iter return NaN labels under pandas 3 (outside the property's observation points): legacy is driven through legacy.link_iter"]


def replay(chk, path):
    with linkgen.size_limit(linkgen.LIMIT):
        return _replay(chk, path)


def _replay(chk, path):
    common.quiet_trackpy()
    chk.coq()
    r = json.load(open(path))['replay']
    cj = r['case']
    sr = tuple(Fraction(x) for x in cj['search_range']) if isinstance(cj['search_range'], list) else Fraction(cj['search_range'])
    frames = [np.array(f, dtype=float).reshape(len(f), -1) for f in cj['frames']]
    ndim = max([f.shape[1] for f in frames if f.size] or [2])
    frames = [f.reshape(len(f), ndim) for f in frames]
    c = dict(frames=frames, sr=sr, memory=cj['memory'], max_size=linkgen.LIMIT, strategy='recursive', ndim=ndim)
    name = r.get('run', 'link_iter/recursive')
    parts = name.split('/')
    if parts[0] == 'legacy':
        out = run_legacy(frames, sr, c['memory'], parts[1], parts[2])
    elif parts[0] == 'link_iter':
        out = linkgen.run_link_iter(frames, sr, memory=c['memory'], link_strategy=parts[1])
    else:
        out = run_table(frames, sr, c['memory'], parts[-1], 'link_df_iter' if parts[0] == 'link_df_iter' else 'link')
    drop = parts[-1] == 'drop'
    res = common.coq_eval_lists(chk.work, IMPORTS, FUNC_DROP if drop else FUNC, [c02.case_term(c, out)])
    chk.count(('replay', cj), True)
    print('replay:', name, 'labels', out, 'monitor code', res[0], CODES.get(res[0]))
    if res[0] != 0:
        chk.violation('%s: %s' % (parts[0], CODES.get(res[0])), CODES.get(res[0]), dict(kind='matrix', run=name, code=res[0], case=c02.jsonable(c, out)))
