"""C03 — all linking strategies, entry points and coordinate scalings agree.

Theorems (Properties/C03.v): labellings accepted by the sound monitor have
identical cost; optimality is invariant under source order; 'drop' links only
uncontested one-to-one subnets; a per-axis range is a rescaling.
Tie (differential): one movie goes through every link_strategy x {link_iter,
link, link_df_iter} + legacy.link_iter (KDTree and the hash-table 'BTree',
recursive / nonrecursive / drop) + permuted rows + pre-divided coordinates.
Every labelling is replayed by the Coq monitor (optimal cost, admissible);
partitions are compared directly and a difference is accepted only when the
monitor certifies both as optima (tie).  'drop' outputs are compared with the
model's drop_links exactly.

Tie (route T, explicit-stack solver): tools/py2coq_iterative.py re-translates the CURRENT source of
nonrecursive_link (subnetlinker.py) into coq/Gen/iterative.v before the proofs are re-checked;
Proofs/IterativeGen.v proves that the generated def (while loop on explicit fuel) computes what the
stack machine of Model/Iterative.v computes with both switches off, hence the recursive solver's
answer and an optimum (C03_generated_*).  A translation failure or a failing re-proof is reported
through chk.proof_broken and the correspondence runs continue.  In addition the generated def is
executed next to the real nonrecursive_link (order of the returned sources and destination per
source, tie-breaking included) and next to the machine model on perfect-square-cost graphs.

Tie (route T, array-based solver): tools/py2coq_numbakernel.py re-translates the CURRENT source of
_numba_subnet_norecur into coq/Gen/numbakernel.v; Proofs/NumbakernelGen.v proves that the generated kernel
(`while 1` on explicit fuel, the two `for jtmp in range(nj)` loops, arrays with Python indexing, 1e23 as
infinity) runs the stack machine of Model/Iterative.v with the switches (ties, up) = (true, true), one
machine step per iteration, hence leaves an optimum in best_assignments (C03_generated_kernel_*).  The
generated kernel is executed next to the real one: the real numba_link is run on perfect-square graphs
with its call of _numba_subnet_norecur intercepted, and the generated kernel, started on the very arrays
numba_link built, must leave the same loopcount and the same register arrays (best_assignments,
cur_assignments, cur_sums, tmp_assignments); the arrays must represent the sources' candidate lists the
way the theorems assume (kernel_inputs, executable form) and numba_link must decode best_assignments
into the destinations it returns.  numba_link itself is NOT translated (sets, dicts, slices: outside
the subset) - its array building is tied by this comparison only.
"""
import os, sys, math, hashlib
import numpy as np, pandas as pd, json
from fractions import Fraction
import common, linkgen
from common import cnat
from props import c02, c11

IMPORTS = "From TP Require Import Model.Assign Model.Link Model.LinkCheck Model.Strategies."
FUNC = c02.FUNC
FUNC_DROP = "fun c => match c with (m, mem, ms, fr, out) => check_run_drop m mem ms fr out end"
CODES = dict(c02.CODES)
CODES[9] = "'drop' linked or failed to link differently from: link exactly the uncontested one-source/one-destination subnets"


# ---- route T: the generated nonrecursive_link --------------------------------------------------
TRANSLATOR = os.path.join(common.VERIF, 'tools', 'py2coq_iterative.py')
GEN = os.path.join(common.COQ, 'Gen', 'iterative.v')
STATE = dict(gen_ok=False)
GENI_IMPORTS = "From TP Require Import Model.Assign Model.IterGenCheck."
GENI_FUNC = "check_gen_iter"
GENI_CODES = {0: 'ok', 40: 'the generated nonrecursive_link raises / runs out of fuel where the real function returned (or raises another exception)',
              41: 'the generated nonrecursive_link (translated from the current source) returns another source order or another destination '
                  'for some source than the real function (translator or vocabulary unfaithful)',
              42: 'the generated nonrecursive_link differs from the stack-machine model on this input (contradicts C03_generated_nonrecursive_is_machine)',
              43: 'the generated nonrecursive_link found no assignment (best_back = None)',
              44: 'the real nonrecursive_link raised SubnetOversizeException, the generated def did not',
              45: 'the generated nonrecursive_link fell off the end without a return value'}


TRANSLATOR_K = os.path.join(common.VERIF, 'tools', 'py2coq_numbakernel.py')
GEN_K = os.path.join(common.COQ, 'Gen', 'numbakernel.v')
GENK_IMPORTS = "From TP Require Import Model.Assign Model.NumbaGenCheck."
GENK_FUNC = "check_gen_kernel"
GENK_CODES = {0: 'ok', 50: 'the generated _numba_subnet_norecur raises / runs out of fuel where the real kernel returned',
              51: 'the arrays numba_link handed to the kernel do not represent the candidate lists of the sources (kernel_inputs: counts, destination '
                  'codes injective and non-negative, -1 for the null link, squared distances) or the cost bound fails',
              52: 'the generated _numba_subnet_norecur (translated from the current source) returns another loopcount than the real kernel',
              53: 'the generated _numba_subnet_norecur leaves other register arrays (best_assignments / cur_assignments / cur_sums / tmp_assignments) '
                  'than the real kernel (translator or vocabulary unfaithful)',
              54: 'the generated _numba_subnet_norecur differs from the stack-machine model with switches (true, true) on this input '
                  '(contradicts C03_generated_kernel_is_machine)',
              55: 'the generated _numba_subnet_norecur fell off the end without a return value',
              56: 'numba_link returned destinations that are not the decoding of the best_assignments its kernel left',
              57: 'numba_link did not call _numba_subnet_norecur exactly once'}


def regenerate_one(chk, translator, gen):
    """re-run one translator on the current source; returns (ok, text-or-log)"""
    rc, out = common.sh([sys.executable, translator, '--repo', common.REPO, '--stdout'], timeout=60)
    if rc != 0:
        return False, out
    name = 'Gen/' + os.path.basename(gen)
    with common.Lock(os.path.join(common.COQ, '.build.lock')):
        old = open(gen).read() if os.path.exists(gen) else None
        if old != out:
            os.makedirs(os.path.dirname(gen), exist_ok=True)
            tmp = gen + '.tmp%d' % os.getpid()
            with open(tmp, 'w') as f:
                f.write(out)
            os.replace(tmp, gen)
            chk.tally('%s rewritten (source differs from last run)' % name)
        else:
            chk.tally('%s unchanged' % name)
    return True, out


def regenerate(chk):
    """both translators; returns (ok, (text of Gen/iterative.v, text of Gen/numbakernel.v)) or (False, (what, log))"""
    ok, text = regenerate_one(chk, TRANSLATOR, GEN)
    if not ok:
        return False, ('translation tools/py2coq_iterative.py (nonrecursive_link left the translatable subset)', text)
    ok, textk = regenerate_one(chk, TRANSLATOR_K, GEN_K)
    if not ok:
        return False, ('translation tools/py2coq_numbakernel.py (_numba_subnet_norecur left the translatable subset)', textk)
    return True, (text, textk)


def build(chk):
    """translator -> cone of Properties/C03.v -> executable comparison file.  STATE['gen_ok'] tells the
    correspondence run whether the generated def can be executed."""
    STATE['gen_ok'] = False
    STATE['genk_ok'] = False
    ok, texts = regenerate(chk)
    if not ok:
        chk.proof_broken(texts[0], texts[1])
        chk.build = dict(obligations=0, discharged=0, assumptions=[], files=[], theorems=[])
        c02.ensure_vo(chk, ['Model/LinkCheck.vo', 'Model/Strategies.vo'], None)
        return False
    text, textk = texts
    for attempt in range(3):
        b = chk.coq()
        if open(GEN).read() == text and open(GEN_K).read() == textk:
            break
        # another run (different TRACKPY_REPO) rewrote a generated file in between: redo
        chk.violations = [v for v in chk.violations if not v[0].startswith('proof:')]
        regenerate(chk)
    chk.notes.append('Gen/iterative.v sha1 %s generated from %s' % (hashlib.sha1(text.encode()).hexdigest()[:12], common.REPO))
    chk.notes.append('Gen/numbakernel.v sha1 %s generated from %s' % (hashlib.sha1(textk.encode()).hexdigest()[:12], common.REPO))
    if not b['ok']:
        c02.ensure_vo(chk, ['Model/LinkCheck.vo', 'Model/Strategies.vo'], None)
    STATE['gen_ok'] = c02.ensure_vo(chk, ['Model/IterGenCheck.vo'], 'Gen/iterative.v / Model/IterGenCheck.v (generated nonrecursive_link does not build)') \
        and open(GEN).read() == text
    STATE['genk_ok'] = c02.ensure_vo(chk, ['Model/NumbaGenCheck.vo'], 'Gen/numbakernel.v / Model/NumbaGenCheck.v (generated _numba_subnet_norecur does not build)') \
        and open(GEN_K).read() == textk
    return bool(b['ok'])


def run_nrl(g):
    """the real nonrecursive_link on the sources in a FIXED order; returns (source position, destination index or None)
    in the order of the returned source_list, or None when it raised SubnetOversizeException"""
    from trackpy.linking import subnetlinker as sl
    from trackpy.linking.utils import Point, SubnetOversizeException
    Point.reset_counter()
    R = math.sqrt(g['R2'])
    dps = [Point(1, (float(j),)) for j in range(g['nd'])]
    sps = []
    for i, cs in enumerate(g['srcs']):
        p = Point(0, (float(i),))
        p.forward_cands = [(dps[d], math.sqrt(c)) for d, c in cs] + [(None, R)]
        sps.append(p)
    try:
        spl, back = sl.nonrecursive_link(list(sps), g['nd'], R, max_size=g['max_size'])
    except SubnetOversizeException:
        return None
    pos = {id(p): k for k, p in enumerate(sps)}
    dpos = {id(p): k for k, p in enumerate(dps)}
    return [[pos[id(s)], None if d is None else dpos[id(d)]] for s, d in zip(spl, back)]


def gen_iter_term(g, impl):
    srcs = common.clist([common.clist(["(Some %s, %s)" % (cnat(d), common.cZ(c)) for d, c in cs] + ["(None, %s)" % common.cZ(g['R2'])]) for cs in g['srcs']])
    if impl is None:
        it = 'None'
    else:
        it = '(Some %s)' % common.clist(["(%s, %s)" % (cnat(s), 'None' if d is None else '(Some %s)' % cnat(d)) for s, d in impl])
    return "(%s, %s, %s)" % (srcs, common.cZ(g['max_size']), it)


def gen_iter_harness(chk):
    """executes Gen/iterative.v (when it builds) next to the real nonrecursive_link and next to the machine model"""
    if not STATE['gen_ok']:
        chk.tally('generated nonrecursive_link not executable (translation / build failed): generated-code harness skipped')
        return
    n = 200 if chk.tier == 'quick' else 5000
    terms, cases = [], []
    for k in range(n):
        g = c02.gen_sq_graph(chk.rng, chk.tier)
        g['max_size'] = chk.rng.choice([30, 30, 30, len(g['srcs']), max(0, len(g['srcs']) - 1)])
        try:
            impl = run_nrl(g)
        except Exception as e:
            chk.violation('nonrecursive_link: exception', 'nonrecursive_link raised %r' % e, dict(kind='geniter', graph=g)); continue
        terms.append(gen_iter_term(g, impl)); cases.append((g, impl))
        chk.tally('generated nonrecursive_link vs real nonrecursive_link' + (' (oversize raised)' if impl is None else ''))
    res = common.coq_eval_lists(chk.work, GENI_IMPORTS, GENI_FUNC, terms, tag='geniter')
    for (g, impl), r in zip(cases, res):
        chk.count(('geniter', g), len(g['srcs']) >= 3)
        if r != 0:
            chk.violation('generated nonrecursive_link: %s' % GENI_CODES.get(r, r), 'nonrecursive_link / Gen.iterative.py_nonrecursive_link: %s' % GENI_CODES.get(r, r),
                          dict(kind='geniter', code=r, graph=g, impl_choice=impl))


def run_numba_kernel(g):
    """the real numba_link on the sources in a FIXED order with its call of _numba_subnet_norecur intercepted.
    Returns dict(calls=[(arrays before, loopcount, arrays after)], dests=[destination index or None per source],
    dcands=[destination index or None, ...] the iteration order CPython gives the set of all candidates of these very
    Point objects (same insertions in the same order as numba_link makes them), raised=numba_link raised
    SubnetOversizeException).  g may carry 'max_size' (default 30, numba_link's own default)."""
    from trackpy.linking import subnetlinker as sl
    from trackpy.linking.utils import Point, SubnetOversizeException
    Point.reset_counter()
    R = math.sqrt(g['R2'])
    dps = [Point(1, (float(j),)) for j in range(g['nd'])]
    sps = []
    for i, cs in enumerate(g['srcs']):
        p = Point(0, (float(i),))
        p.forward_cands = [(dps[d], math.sqrt(c)) for d, c in cs] + [(None, R)]
        sps.append(p)
    dpos = {id(p): k for k, p in enumerate(dps)}
    dset = set()
    for p in sps:
        dset.update([cand for cand, dist in p.forward_cands])
    dcands = [None if d is None else dpos[id(d)] for d in list(dset)]
    calls = []
    real = sl._numba_subnet_norecur

    def spy(*arrs):
        before = [np.array(a).copy() for a in arrs]
        lc = real(*arrs)
        calls.append((before, lc, [np.array(a).copy() for a in arrs]))
        return lc
    sl._numba_subnet_norecur = spy
    raised = False
    spl, dpl = [], []
    try:
        spl, dpl = sl.numba_link(list(sps), g['nd'], R, max_size=int(g.get('max_size', 30)))
    except SubnetOversizeException:
        raised = True
    finally:
        sl._numba_subnet_norecur = real
    ok_order = len(spl) == len(sps) and all(a is b for a, b in zip(spl, sps))
    return dict(calls=calls, dests=[None if d is None else dpos[id(d)] for d in dpl], same_order=ok_order, dcands=dcands, raised=raised)


def exact_int(x):
    """a float array entry that must be an exact integer (perfect-square costs, padding search_range**2)"""
    f = float(x)
    if f != int(f):
        raise ValueError('non-integral entry %r' % f)
    return int(f)


def gen_kernel_case(g, obs, link_terms=None):
    """-> (Coq term, python-side verdict code or 0)

    Also builds the term for Model.NumbaLink.check_numba_link (the hand model of numba_link's array building and
    read-back against what this real call did: the three arrays handed to the kernel, the SubnetOversizeException
    exits, the decoding of best_assignments).  With link_terms (a list) the term is appended for a batched
    evaluation by the caller; without (replay) it is evaluated here and a non-zero verdict (61-65) is returned."""
    GENK_CODES.update({61: 'harness: the observed iteration order of the candidate set is not a listing of the candidates',
                  62: 'numba_link raised SubnetOversizeException where the model (Model/NumbaLink.v) does not: neither more than max_size '
                      'sources nor a source with more than 9 forward candidates',
                  63: 'numba_link returned where the model (Model/NumbaLink.v) raises (more than max_size sources, or a source with more than 9 '
                      'forward candidates: C03_numba_link_raises_iff)',
                  64: 'the arrays numba_link handed to its kernel (ncands / candsarray / distsarray**2, padding included) differ from the '
                      "model's (Model/NumbaLink.v:nl_build) for the same sources and the same iteration order of the candidate set",
                  65: "numba_link's destinations are not the model's decoding (dcands[i] if i >= 0 else None) of the best_assignments its kernel left"})     # verdicts of check_numba_link (replay prints them through GENK_CODES)
    cZ, cl = common.cZ, common.clist
    dk = lambda d: "None" if d is None else "(Some %s)" % cnat(d)
    srcs_t = cl(["(%s, %s)" % (cnat(i), cl(["(Some %s, %s)" % (cnat(d), cZ(c)) for d, c in cs] + ["(None, %s)" % cZ(g['R2'])]))
                 for i, cs in enumerate(g['srcs'])])
    v1 = lambda a: cl([cZ(int(x)) for x in a])
    f1 = lambda a: cl([cZ(exact_int(x)) for x in a])
    m2 = lambda a, f: cl([cl([cZ(f(x)) for x in row]) for row in a])
    if obs.get('raised'):
        obs_t = "(@None ((list Z * list (list Z) * list (list Z)) * list Z * list (option nat)))"
    elif len(obs['calls']) == 1:
        b0, _, a0 = obs['calls'][0]
        obs_t = "(Some ((%s, %s, %s), %s, %s))" % (v1(b0[0]), m2(b0[1], int), m2(b0[2], exact_int), v1(a0[6]), cl([dk(d) for d in obs['dests']]))
    else:
        obs_t = None
    if obs_t is not None and 'dcands' in obs:
        lterm = "((%s, %s, %s, %s, %s) : link_case)" % (srcs_t, cl([dk(d) for d in obs['dcands']]), cZ(g['R2']), cZ(int(g.get('max_size', 30))), obs_t)
        if link_terms is not None:
            link_terms.append(lterm)
        elif os.path.exists(os.path.join(common.COQ, 'Model', 'NumbaLink.vo')):
            import tempfile, types, shutil
            tmpd = tempfile.mkdtemp(prefix='c03link')
            try:
                lcode = common.coq_eval_lists(types.SimpleNamespace(dir=tmpd), "From TP Require Import Model.Assign Model.NumbaLink.",
                                              "check_numba_link", [lterm], tag='numbalink')[0]
            finally:
                shutil.rmtree(tmpd, ignore_errors=True)
            if lcode:
                return None, lcode
    if obs.get('raised'):
        # no kernel call to compare (the exception is what check_numba_link judges): a constant, valid kernel case
        return ("([[(None, 1)]], [], ([1], [[-1; -1; -1; -1; -1; -1; -1; -1; -1]], [[1; 1; 1; 1; 1; 1; 1; 1; 1]], [-1], [0], [0], [-1]), "
                "(1, [-1], [-1], [0], [0]))"), 0
    if len(obs['calls']) != 1 or not obs['same_order']:
        return None, 57
    before, lc, after = obs['calls'][0]
    ncands, cands, d2, cura, sums, tmp, ba = before
    # the code numba_link gave every destination, read off its candidate array
    tab = {}
    for j, cs in enumerate(g['srcs']):
        for i, (d, c) in enumerate(cs):
            code = int(cands[j, i])
            if tab.setdefault(d, code) != code:
                return None, 51
    # numba_link's read-back: dest_results = dcands[i] if i >= 0 else None
    inv = {v: k for k, v in tab.items()}
    for j, b in enumerate(after[6]):
        want = None if int(b) < 0 else inv.get(int(b), 'unknown')
        if want != obs['dests'][j]:
            return None, 56
    A = cl([cl(["(Some %s, %s)" % (cnat(d), cZ(c)) for d, c in cs] + ["(None, %s)" % cZ(g['R2'])]) for cs in g['srcs']])
    tabt = cl(["(%s, %s)" % (cnat(d), cZ(z)) for d, z in sorted(tab.items())])
    arrs = "(%s, %s, %s, %s, %s, %s, %s)" % (v1(ncands), m2(cands, int), m2(d2, exact_int), v1(cura), f1(sums), v1(tmp), v1(ba))
    res = "(%s, %s, %s, %s, %s)" % (cZ(int(lc)), v1(after[6]), v1(after[3]), f1(after[4]), v1(after[5]))
    return "(%s, %s, %s, %s)" % (A, tabt, arrs, res), 0


def gen_kernel_harness(chk):
    """executes Gen/numbakernel.v (when it builds) next to the real _numba_subnet_norecur (interpreted) inside the real numba_link,
    and Model/NumbaLink.v (hand model of numba_link's array building, exception exits and read-back) next to that same call"""
    if not STATE.get('genk_ok'):
        chk.tally('generated _numba_subnet_norecur not executable (translation / build failed): generated-kernel harness skipped')
        return
    link_ok = os.path.exists(os.path.join(common.COQ, 'Model', 'NumbaLink.vo'))
    if not link_ok:
        chk.tally('Model/NumbaLink.vo missing: numba_link array-building comparison skipped')
    n = 200 if chk.tier == 'quick' else 5000
    terms, cases, lterms, lcases = [], [], [], []

    def special(g):
        """exception exits and their boundaries: a source with 8 / 9 / 10 real candidates, max_size = len or len - 1"""
        kind = chk.rng.choice(['cap8', 'cap9', 'cap10', 'size', 'sizeok'])
        if kind.startswith('cap'):
            m = int(kind[3:])
            g['nd'] = max(g['nd'], m + chk.rng.randint(0, 2))
            R = math.isqrt(g['R2'])
            ds = sorted(chk.rng.sample(range(g['nd']), m))
            g['srcs'][chk.rng.randrange(len(g['srcs']))] = sorted([(d, chk.rng.choice([0, 1, 1, 2, 2, 3, R]) ** 2) for d in ds], key=lambda x: x[1])
        else:
            g['max_size'] = len(g['srcs']) - (1 if kind == 'size' else 0)
        return kind

    for k in range(n + n // 4):
        g = c02.gen_sq_graph(chk.rng, chk.tier)
        g['numba'] = True
        kind = special(g) if k >= n else 'plain'
        try:
            obs = run_numba_kernel(g)
            lt = [] if link_ok else None
            term, code = gen_kernel_case(g, obs, lt)
        except Exception as e:
            chk.violation('numba_link: exception', 'numba_link / _numba_subnet_norecur raised %r' % e, dict(kind='genkernel', graph=g)); continue
        chk.tally('generated _numba_subnet_norecur vs real kernel inside numba_link' if kind == 'plain' else
                  'numba_link exception exits (%s): %s' % (kind, 'raised SubnetOversizeException' if obs['raised'] else 'returned'))
        if lt:
            lterms.append(lt[0]); lcases.append(g)
        if code:
            chk.count(('genkernel', g), len(g['srcs']) >= 3)
            chk.violation('generated numba kernel: %s' % GENK_CODES[code], 'numba_link: %s' % GENK_CODES[code], dict(kind='genkernel', code=code, graph=g))
            continue
        if obs['raised']:
            chk.count(('genkernel', g), len(g['srcs']) >= 3)
            continue
        terms.append(term); cases.append(g)
    res = common.coq_eval_lists(chk.work, GENK_IMPORTS, GENK_FUNC, terms, tag='genkernel')
    for g, r in zip(cases, res):
        chk.count(('genkernel', g), len(g['srcs']) >= 3)
        if r != 0:
            chk.violation('generated numba kernel: %s' % GENK_CODES.get(r, r), '_numba_subnet_norecur / Gen.numbakernel.py__numba_subnet_norecur: %s' % GENK_CODES.get(r, r),
                          dict(kind='genkernel', code=r, graph=g))
    if lterms:
        lres = common.coq_eval_lists(chk.work, "From TP Require Import Model.Assign Model.NumbaLink.", "check_numba_link", lterms, tag='numbalink')
        for g, r in zip(lcases, lres):
            chk.tally('numba_link array building / read-back vs Model/NumbaLink.v')
            if r != 0:
                chk.violation('numba_link model: %s' % GENK_CODES.get(r, r), 'numba_link / Model.NumbaLink.nl_build: %s' % GENK_CODES.get(r, r),
                              dict(kind='genkernel', code=r, graph=g))
        chk.coverage['numba_link arrays'] = ('every generated-kernel case, plus n/4 cases with a source of 8 / 9 / 10 real candidates or max_size = len / len - 1: '
                                             'the three arrays the real numba_link passes to its kernel, its SubnetOversizeException exits and its decoding of '
                                             'best_assignments are compared with Model/NumbaLink.v run on the same sources with the iteration order CPython gives '
                                             'the candidate set of the same Point objects')


def run_legacy(frames, sr, memory, neighbor, strategy):
    from trackpy.linking import legacy
    from trackpy.linking.utils import SubnetOversizeException
    legacy.PointND.reset_counter()
    ndim = frames[0].shape[1]
    levels = [[legacy.PointND(t, p.copy()) for p in f] for t, f in enumerate(frames)]
    srt = tuple(float(r) for r in sr) if isinstance(sr, tuple) else (float(sr),) * ndim
    kw = {}
    if neighbor == 'BTree':
        if isinstance(sr, tuple) or ndim not in (2, 3):
            return 'skip'
        lo = min([f.min() for f in frames if f.size] + [0.0]); hi = max([f.max() for f in frames if f.size] + [1.0])
        kw['hash_size'] = (hi + 10,) * ndim
        if lo < 0:
            return 'skip'
    out = []
    try:
        for k, lev in enumerate(legacy.link_iter(iter(levels), srt, memory=memory, neighbor_strategy=neighbor, link_strategy=strategy, **kw)):
            out.append([int(p.track.id) for p in levels[k]])
    except SubnetOversizeException:
        out.append(None)
    return out


def run_table(frames, sr, memory, strategy, entry, perm_rng=None, extra_kw=None):
    """link / link_df_iter; with perm_rng the rows of the table are shuffled and labels mapped back"""
    import trackpy as tp
    from trackpy.linking.utils import SubnetOversizeException
    ndim = frames[0].shape[1]
    cols = ['x', 'y', 'z'][:ndim][::-1]
    srf = linkgen.sr_float(sr)
    try:
        if entry == 'link':
            rows = [[*map(float, p), t, t, j] for t, f in enumerate(frames) for j, p in enumerate(f)]
            if not rows:
                return 'skip'
            df = pd.DataFrame(rows, columns=cols + ['frame', '_t', '_j'])
            if perm_rng is not None:
                idx = list(range(len(df))); perm_rng.shuffle(idx); df = df.iloc[idx]
            out = tp.link(df, srf, pos_columns=cols, memory=memory, link_strategy=strategy, **(extra_kw or {}))
            labs = [[None] * len(f) for f in frames]
            for t, j, lb in zip(out['_t'].values, out['_j'].values, out['particle'].values):
                labs[int(t)][int(j)] = int(lb)
            # frames absent from the table (empty) are still steps for link
            return labs
        dfs = [pd.DataFrame({**{c: f[:, i] for i, c in enumerate(cols)}, 'frame': t}) for t, f in enumerate(frames)]
        return [[int(x) for x in o['particle'].values] for o in tp.link_df_iter(dfs, srf, pos_columns=cols, memory=memory, link_strategy=strategy, **(extra_kw or {}))]
    except SubnetOversizeException:
        return 'oversize'


def run(chk):
    with linkgen.size_limit(linkgen.LIMIT):
        return _run(chk)


def _run(chk):
    common.quiet_trackpy()
    build(chk)
    rng = chk.rng
    n = 60 if chk.tier == 'quick' else 1200
    terms, metas, dterms, dmetas = [], [], [], []
    ref_part = {}
    corpus = []
    # pairs at distance exactly search_range (3-4-5, 6-8-10, 5-12-13): every path must admit them (defect F10, fixed)
    for (dx, dy, r) in [(3, 4, 5), (6, 8, 10), (5, 12, 13), (0, 5, 5)]:
        corpus.append(dict(frames=[np.array([[0., 0.], [40., 40.]]), np.array([[float(dx), float(dy)], [40., 41.]])], sr=Fraction(r), memory=0,
                           max_size=linkgen.LIMIT, strategy='recursive', ndim=2))
    # a per-axis range written with integers, as a tuple, a list and an integer ndarray: (2, 5) must mean (2.0, 5.0)
    for sp in ('int', 'list', 'array'):
        f0 = np.array([[0., 0.], [20., 3.], [40., 40.], [7., 30.]])
        f1 = f0 + np.array([[1., 4.], [-1., -4.], [1., 3.], [0., 4.]])
        corpus.append(dict(frames=[f0, f1[[2, 0, 3, 1]], f0[[1, 3, 0, 2]]], sr=(Fraction(2), Fraction(5)), memory=0, max_size=linkgen.LIMIT,
                           strategy='recursive', ndim=2, sr_spell=sp))
    # two features lost one frame after the other, both back within memory; the third row of frame 0 and the first row of frame 1
    # are the points a second linking job started in between would make "the same" if points were identified by a per-process
    # serial number (run below with another job alive)
    for mem_ in (2, 3):
        corpus.append(dict(frames=[np.array([[0., 0.], [0., 20.], [0., 40.]]), np.array([[30., 30.], [0., 0.5], [0., 20.5]]),
                                   np.array([[0., 1.], [0., 21.]]), np.array([[0., 1.5], [0., 21.5], [0., 40.5], [30., 30.5]])],
                           sr=Fraction(3), memory=mem_, max_size=linkgen.LIMIT, strategy='recursive', ndim=2))
    for k in range(n):
        c = corpus[k] if k < len(corpus) else c02.gen_case(rng, chk.tier)
        c['max_size'] = linkgen.LIMIT
        if k >= len(corpus) and rng.random() < 0.3 and len(c['frames']) >= 3:
            # a stretch of 2-3 consecutive frames without any feature (dropped video frames): the entry points must
            # count them as elapsed frames alike; memory shorter or longer than the stretch
            pos = rng.randint(1, len(c['frames']) - 1)
            nd0 = c['frames'][0].shape[1]
            c['frames'] = c['frames'][:pos] + [np.empty((0, nd0))] * rng.randint(2, 3) + c['frames'][pos:]
            c['memory'] = rng.choice([1, 1, 2, 3])
            chk.tally('movie with a stretch of blank frames')
        frames, sr, mem = c['frames'], c['sr'], c['memory']
        if any(len(f) == 0 for f in frames[:1]) or linkgen.max_inrange(frames, sr, mem) > 8:
            chk.tally('skipped'); continue
        # link() drops leading/trailing empty frames from the table: keep the movie's ends non-empty
        if len(frames[-1]) == 0:
            frames = frames[:-1]
            if not frames:
                continue
            c['frames'] = frames
        runs = {}
        linkgen.SPELL = c.get('sr_spell', rng.choice(linkgen.SPELLINGS))
        c['sr_spell'] = linkgen.SPELL
        chk.tally('search_range spelled as %s' % (linkgen.SPELL or 'float'))
        capb = c02.numba_cap_binding(dict(c, strategy='numba'))
        for s in ['recursive', 'nonrecursive', 'numba', 'hybrid', 'auto']:
            if capb and s in ('numba', 'hybrid'):
                chk.tally('numba candidate cap binding: numba/hybrid not run'); continue
            runs['link_iter/' + s] = linkgen.run_link_iter(frames, sr, memory=mem, link_strategy=s)
        s = rng.choice(['recursive', 'nonrecursive'] + ([] if capb else ['numba']))
        # the same call while another linking job is alive and advancing: must agree with all the others
        runs['link_iter(another job alive)/' + s] = linkgen.run_link_iter(frames, sr, memory=mem, link_strategy=s, bystander=True)
        runs['link/' + s] = run_table(frames, sr, mem, s, 'link')
        runs['link_df_iter/' + s] = run_table(frames, sr, mem, s, 'link_df_iter')
        runs['link(permuted rows)/' + s] = run_table(frames, sr, mem, s, 'link', perm_rng=rng)
        for nb in ['KDTree', 'BTree']:
            ls = rng.choice(['recursive', 'nonrecursive']) if k >= len(corpus) else 'recursive' 
            runs['legacy/%s/%s' % (nb, ls)] = run_legacy(frames, sr, mem, nb, ls)
        if isinstance(sr, tuple):
            pre = [f / np.array([float(r) for r in sr]) for f in frames]
            runs['pre-divided coordinates, range 1'] = linkgen.run_link_iter(pre, Fraction(1), memory=mem, link_strategy='recursive')
        drops = {'link_iter/drop': linkgen.run_link_iter(frames, sr, memory=mem, link_strategy='drop'),
                 'legacy/KDTree/drop': run_legacy(frames, sr, mem, 'KDTree', 'drop')}
        linkgen.SPELL = None
        chk.count(('movie', c02.jsonable(c, None)), sum(len(f) for f in frames) >= 6)
        ref = None
        for name, out in runs.items():
            if out in ('skip', 'oversize') or out is None:
                continue
            if any(o is None for o in out):
                chk.tally('oversize (skipped run)'); continue
            if any(lb is None for o in out for lb in o):
                chk.violation('%s: feature without label' % name.split('/')[0], '%s left a feature unlabelled' % name, dict(kind='matrix', run=name, case=c02.jsonable(c, out)))
                continue
            terms.append(c02.case_term(c, out)); metas.append((k, name, c, out))
            chk.tally('run ' + name.split('/')[0])
        for name, out in drops.items():
            if out in ('skip', 'oversize') or out is None or any(o is None for o in out):
                continue
            dterms.append(c02.case_term(c, out)); dmetas.append((k, name, c, out))
    # ---- hub movies: ONE source with 11-13 destinations in range (the cap of 10 neighbours is per destination, so a source
    # may have more candidates than that); the optimum links the hub to its farthest candidate.  New strategies, table entry
    # point and the legacy linker must all find it (subnet of 11-13 sources: limit raised for these movies only)
    for hk in range(3 if chk.tier == 'quick' else 40):
        c = c02.gen_hub(rng)
        frames, sr, mem = c['frames'], c['sr'], c['memory']
        with linkgen.size_limit(c['max_size']):
            hruns = {'link_iter/recursive': linkgen.run_link_iter(frames, sr, memory=mem, link_strategy='recursive', max_size=c['max_size']),
                     'link_iter/nonrecursive': linkgen.run_link_iter(frames, sr, memory=mem, link_strategy='nonrecursive', max_size=c['max_size']),
                     'link/recursive': run_table(frames, sr, mem, 'recursive', 'link'),
                     'legacy/KDTree/recursive': run_legacy(frames, sr, mem, 'KDTree', 'recursive')}
        chk.count(('hub movie', c02.jsonable(c, None)), True)
        chk.tally('hub movie (one source with > 10 destinations in range)')
        for name, out in hruns.items():
            if out in ('skip', 'oversize') or out is None or any(o is None for o in out):
                chk.tally('hub movie: oversize'); continue
            terms.append(c02.case_term(c, out)); metas.append((1000000 + hk, name, c, out))
            chk.tally('run ' + name.split('/')[0])
    # ---- the same matrix WITH adaptive search (strategies and entry points must agree there too): dense clusters,
    # lowered adaptive limit, memory >= 1; every labelling is judged by C12's monitor (Model/Adaptive.acheck_run)
    from props import c12
    aterms, ametas = [], []
    for k in range(110 if chk.tier == 'quick' else 600):
        c = c12.gen(rng, chk.tier)
        c['memory'] = rng.choice([1, 1, 2])
        c.pop('plain_limit', None)
        if isinstance(c['sr'], tuple) or linkgen.max_inrange(c['frames'], c['sr'], c['memory']) > 8 or c12.degenerate(c):
            continue
        if not len(c['frames'][0]) or not len(c['frames'][-1]):
            continue
        stop = float(c['sr'] * c['stop_rel'])
        akw = dict(adaptive_stop=stop, adaptive_step=float(c['step']))
        aruns = {}
        capb = c02.numba_cap_binding(dict(c, strategy='numba'))
        with linkgen.size_limit(c['max_size']):
            for st in ['recursive', 'nonrecursive'] + ([] if capb else ['numba', 'hybrid']):
                aruns['adaptive link_iter/' + st] = linkgen.run_link_iter(c['frames'], c['sr'], memory=c['memory'], link_strategy=st, max_size=c['max_size'],
                                                                          adaptive=(stop, float(c['step'])))
            st = rng.choice(['recursive', 'nonrecursive'])
            aruns['adaptive link/' + st] = run_table(c['frames'], c['sr'], c['memory'], st, 'link', extra_kw=akw)
            aruns['adaptive link_df_iter/' + st] = run_table(c['frames'], c['sr'], c['memory'], st, 'link_df_iter', extra_kw=akw)
        for name, out in aruns.items():
            if out in ('skip', 'oversize') or out is None:
                continue          # a table entry point that raises gives no labelling to judge (link_iter runs show the raise step)
            chk.tally('run ' + name.split('/')[0])
            aterms.append(c12.term(c, out)); ametas.append((name, c, out))
        chk.count(('adaptive movie', c12.jsonable(c, None)), True)
    ares = common.coq_eval_lists(chk.work, c12.IMPORTS, c12.FUNC, aterms, tag='adaptive')
    for (name, c, out), r in zip(ametas, ares):
        if r != 0:
            chk.violation('%s: %s' % (name.split('/')[0], c12.CODES.get(r, r)), '%s (memory=%d, limit=%d, adaptive_step=%s): %s' % (name, c['memory'], c['max_size'], c['step'], c12.CODES.get(r, r)),
                          dict(kind='adaptive-matrix', run=name, code=r, case=c12.jsonable(c, out)))
    res = common.coq_eval_lists(chk.work, IMPORTS, FUNC, terms)
    byk = {}
    for (k, name, c, out), r in zip(metas, res):
        if r != 0:
            chk.violation('%s: %s' % (name.split('/')[0], CODES.get(r, r)), '%s (memory=%d): %s' % (name, c['memory'], CODES.get(r, r)),
                          dict(kind='matrix', run=name, code=r, case=c02.jsonable(c, out)))
        else:
            byk.setdefault(k, []).append((name, c11.partition(out)))
    for k, lst in byk.items():
        parts = {json.dumps(p) for _, p in lst}
        chk.tally('all runs give one partition' if len(parts) == 1 else 'runs differ only by equal-cost ties (monitor-certified)')
    dres = common.coq_eval_lists(chk.work, IMPORTS, FUNC_DROP, dterms, tag='drop')
    for (k, name, c, out), r in zip(dmetas, dres):
        if r != 0:
            chk.violation('%s: %s' % (name, CODES.get(r, r)), '%s (memory=%d): %s' % (name, c['memory'], CODES.get(r, r)),
                          dict(kind='drop', run=name, code=r, case=c02.jsonable(c, out)))
    if metas:
        chk.sample(dict(run=metas[0][1], case=c02.jsonable(metas[0][2], metas[0][3])))
    # the generated explicit-stack solver (route T), executed
    gen_iter_harness(chk)
    # the generated array kernel (route T), executed
    gen_kernel_harness(chk)
    chk.coverage['rule'] = ("each lattice movie through 5 strategies x link_iter, link, link_df_iter, link with permuted rows, legacy.link_iter (KDTree + hash table), "
                            "pre-divided coordinates for per-axis ranges, and 'drop' (new + legacy); every labelling replayed by the Coq monitor; non-trivial = >= 6 features")
    chk.coverage['runs_checked'] = len(metas) + len(dmetas)
    chk.assumptions += ["as C02", "sklearn absent: neighbor_strategy='BTree' of the new linker not exercised; legacy 'BTree' is the pure-Python hash table",
                        "legacy.link_df / link_df_iter return NaN labels under pandas 3 (outside the property's observation points): legacy is driven through legacy.link_iter",
                        "Gen/iterative.v is produced by tools/py2coq_iterative.py (trusted translator, fail-closed; subset and conventions in its docstring, vocabulary in "
                        "Model/PyIterative.v): every Python int is a Z, l[i] wraps negative indices, dist**2 is an exact integer cost (float rounding of the partial sums not "
                        "modelled), deques are lists, the while loop runs on explicit fuel; the translation is exercised by exact comparison of the generated def with the "
                        "real nonrecursive_link (perfect-square costs, returned source order and tie-breaking included)",
                        "Gen/numbakernel.v is produced by tools/py2coq_numbakernel.py (trusted translator, fail-closed; vocabulary Model/PyNumbakernel.v): numpy arrays "
                        "are lists with Python indexing (IndexError outside; compiled nopython code would not check - the theorem shows no access is outside), the float "
                        "sums are exact integers, 1.0e23 is the exact value of that double and the theorems assume the sum of the sources' most expensive candidates "
                        "stays below it; the kernel runs interpreted (numba absent); numba_link's array building (set / dict / slices) is not translated: it is tied by "
                        "executing the generated kernel on the arrays the real numba_link built and checking them against kernel_inputs"]


def replay(chk, path):
    with linkgen.size_limit(linkgen.LIMIT):
        return _replay(chk, path)


def _replay(chk, path):
    common.quiet_trackpy()
    build(chk)
    r = json.load(open(path))['replay']
    if r.get('kind') == 'genkernel':
        g = r['graph']
        g['srcs'] = [[tuple(x) for x in cs] for cs in g['srcs']]
        obs = run_numba_kernel(g)
        term, code = gen_kernel_case(g, obs)
        if not code:
            code = common.coq_eval_lists(chk.work, GENK_IMPORTS, GENK_FUNC, [term], tag='genkernel')[0]
        chk.count(('replay', g), True)
        print('replay: generated _numba_subnet_norecur; real kernel calls', [(c[1], c[2][6].tolist()) for c in obs['calls']], 'code', code, GENK_CODES.get(code))
        if code != 0:
            chk.violation('generated numba kernel: %s' % GENK_CODES.get(code, code), GENK_CODES.get(code, code), dict(kind='genkernel', code=code, graph=g))
        return
    if r.get('kind') == 'geniter':
        g = r['graph']
        g['srcs'] = [[tuple(x) for x in cs] for cs in g['srcs']]
        impl = run_nrl(g)
        res = common.coq_eval_lists(chk.work, GENI_IMPORTS, GENI_FUNC, [gen_iter_term(g, impl)], tag='geniter')
        chk.count(('replay', g), True)
        print('replay: generated nonrecursive_link; real choice', impl, 'code', res[0], GENI_CODES.get(res[0]))
        if res[0] != 0:
            chk.violation('generated nonrecursive_link: %s' % GENI_CODES.get(res[0], res[0]), GENI_CODES.get(res[0], res[0]),
                          dict(kind='geniter', code=res[0], graph=g, impl_choice=impl))
        return
    cj = r['case']
    if r.get('kind') == 'adaptive-matrix':
        from props import c12
        frames = linkgen.frames_from_json(cj['frames'])
        ndim = max([f.shape[1] for f in frames if f.size] or [1])
        c = dict(frames=[f.reshape(len(f), ndim) for f in frames], sr=Fraction(cj['search_range']), memory=cj['memory'], ndim=ndim, max_size=cj['max_size'],
                 strategy=cj['link_strategy'], step=Fraction(cj['adaptive_step']), stop_rel=Fraction(cj['adaptive_stop_rel']))
        name = r['run']; st = name.split('/')[1]
        stop = float(c['sr'] * c['stop_rel'])
        with linkgen.size_limit(c['max_size']):
            if name.startswith('adaptive link_iter'):
                out = linkgen.run_link_iter(c['frames'], c['sr'], memory=c['memory'], link_strategy=st, max_size=c['max_size'], adaptive=(stop, float(c['step'])))
            else:
                out = run_table(c['frames'], c['sr'], c['memory'], st, 'link_df_iter' if 'link_df_iter' in name else 'link',
                                extra_kw=dict(adaptive_stop=stop, adaptive_step=float(c['step'])))
        code = common.coq_eval_lists(chk.work, c12.IMPORTS, c12.FUNC, [c12.term(c, out)])[0] if out not in ('skip', 'oversize') else 0
        chk.count(('replay', cj), True)
        print('replay:', name, 'labels', out, 'monitor code', code, c12.CODES.get(code))
        if code != 0:
            chk.violation('%s: %s' % (name.split('/')[0], c12.CODES.get(code, code)), c12.CODES.get(code, code), dict(kind='adaptive-matrix', run=name, code=code, case=c12.jsonable(c, out)))
        return
    sr = tuple(Fraction(x) for x in cj['search_range']) if isinstance(cj['search_range'], list) else Fraction(cj['search_range'])
    frames = linkgen.frames_from_json(cj['frames'])
    ndim = max([f.shape[1] for f in frames if f.size] or [2])
    frames = [f.reshape(len(f), ndim) for f in frames]
    c = dict(frames=frames, sr=sr, memory=cj['memory'], max_size=int(cj.get('max_size') or linkgen.LIMIT), strategy='recursive', ndim=ndim)
    if c['max_size'] != linkgen.LIMIT:          # hub movies: limit raised for that movie
        with linkgen.size_limit(c['max_size']):
            return _replay_matrix(chk, r, cj, c, frames, sr)
    return _replay_matrix(chk, r, cj, c, frames, sr)


def _replay_matrix(chk, r, cj, c, frames, sr):
    linkgen.SPELL = cj.get('search_range_spelling')
    c['sr_spell'] = linkgen.SPELL
    name = r.get('run', 'link_iter/recursive')
    parts = name.split('/')
    if parts[0] == 'legacy':
        out = run_legacy(frames, sr, c['memory'], parts[1], parts[2])
    elif parts[0] == 'link_iter(another job alive)':
        out = linkgen.run_link_iter(frames, sr, memory=c['memory'], link_strategy=parts[1], bystander=True)
    elif parts[0] == 'link_iter':
        out = linkgen.run_link_iter(frames, sr, memory=c['memory'], link_strategy=parts[1], max_size=c['max_size'] if c['max_size'] != linkgen.LIMIT else None)
    else:
        out = run_table(frames, sr, c['memory'], parts[-1], 'link_df_iter' if parts[0] == 'link_df_iter' else 'link')
    drop = parts[-1] == 'drop'
    res = common.coq_eval_lists(chk.work, IMPORTS, FUNC_DROP if drop else FUNC, [c02.case_term(c, out)])
    chk.count(('replay', cj), True)
    print('replay:', name, 'labels', out, 'monitor code', res[0], CODES.get(res[0]))
    if res[0] != 0:
        chk.violation('%s: %s' % (parts[0], CODES.get(res[0])), CODES.get(res[0]), dict(kind='matrix', run=name, code=res[0], case=c02.jsonable(c, out)))
