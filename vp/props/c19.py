"""C19 -- static structure measures match their geometric definitions.

Tie (route C):
  * Clusters.from_pairs on ordered pair lists: exact correspondence with
    Model/StaticCluster.from_pairs (pos_ids, cluster_size, dict key order).
  * trackpy.cluster on lattice point sets (chains, rings, clumps, duplicates,
    several frames, shuffled rows, odd index): the VERIFIED monitor
    check_cluster (Properties/C19.v: C19_cluster_monitor_sound) runs on the
    implementation's own output; ids must be disjoint across frames.
  * trackpy.proximity: exact squared nearest-other distance from the model.
  * pair_correlation_2d / _3d: model over Q (Model/StaticPairCorr) with the edge
    measure supplied by an INDEPENDENT geometric reference (vp/staticgeom.py:
    wall crossings / hat-box quadrature), so the comparison is end-to-end
    "g(r) = sum over pairs of 1/true-arc / (rho N dr)"; plus metamorphic
    translation / permutation runs of the implementation.
  * arclen_2d_bounded / area_3d_bounded directly against the same reference on
    generic float inputs (walls, corners, circles larger than the box, size-0/1
    arrays, arcs just above / below the NaN threshold).
Tie (route T, edge-correction formulas): tools/py2coq_static.py re-translates the
CURRENT text of trackpy/static.py (circle_cap_arclen, circle_corner_arclen,
sphere_cap_area, sphere_edge_area, sphere_corner_area, arclen_2d_bounded,
area_3d_bounded; _protect_mask analysed) into coq/Gen/static_geom.v on every run;
Proofs/StaticGen.v proves each generated function equal to the hand-written model
and Properties/C19.v restates the headline theorem about the generated function.
Tie (route T, the pair-correlation functions): tools/py2coq_paircorr.py re-translates
pair_correlation_2d / pair_correlation_3d (boundary branch, filter, density, p_indices,
r_edges, kd-tree query, both guards, mask, handle_edge branch, histogram,
normalisation) into coq/Gen/paircorr.v over the named primitives of
Model/PyPairCorr.v; Proofs/StaticPairCorrGen.v proves the generated functions equal
to pair_correlation_sel under the interpretation PairCorrI wherever they do not
raise, and Properties/C19.v restates the g(r) theorems for them.
A translation error or a proof that no longer closes goes through
chk.proof_broken; the run then doubles the direct comparison of the
implementation with the independent geometric reference, so that a concrete
failing (dist, pos, box) is reported with its replay when one exists.
"""
import math, random, json, os, sys, hashlib
import numpy as np
import pandas as pd
from fractions import Fraction
import common, staticgeom as sg
from common import cnat, cZ, cQ, cN, clist, copt

IMPORTS = "From TP Require Import Model.StaticCluster Model.StaticPairCorr Model.StaticPairCorrSel."
TRANSLATOR = os.path.join(common.VERIF, 'tools', 'py2coq_static.py')
GEN = os.path.join(common.COQ, 'Gen', 'static_geom.v')
TRANSLATOR_PC = os.path.join(common.VERIF, 'tools', 'py2coq_paircorr.py')
GEN_PC = os.path.join(common.COQ, 'Gen', 'paircorr.v')

CL_CODES = {0: 'ok', 1: 'wrong number of labels/sizes', 2: 'cluster labels are not the connectivity partition (features within separation chains labelled differently, or unconnected features labelled alike)',
            3: 'cluster_size is not the size of the connected component', 4: 'a cluster id is reused in two frames'}
FP_CODES = {0: 'ok', 1: 'pos_ids differ from the relabel-union model', 2: 'cluster_size differs from the model', 3: 'cluster dict keys differ from the model'}
PX_CODES = {0: 'ok', 1: 'wrong length', 2: 'proximity is not the distance to the nearest other feature', 3: 'inf-ness differs'}
GR_CODES = {0: 'ok', 1: 'wrong number of bins', 2: 'g(r) differs from the corrected pair histogram normalised by density', 3: 'NaN pattern of g(r) differs'}


def F(x):
    return Fraction(x) if not isinstance(x, float) else Fraction(*x.as_integer_ratio())


# ---------------------------------------------------------------------------
# translator / build
# ---------------------------------------------------------------------------
def regenerate(chk, translator=None, gen=None):
    """re-run a translator on the current source; returns (ok, text-or-log)"""
    translator, gen = translator or TRANSLATOR, gen or GEN
    label = 'Gen/' + os.path.basename(gen)
    rc, out = common.sh([sys.executable, translator, '--repo', common.REPO, '--stdout'], timeout=60)
    if rc != 0:
        return False, out
    with common.Lock(os.path.join(common.COQ, '.build.lock')):
        old = open(gen).read() if os.path.exists(gen) else None
        if old != out:
            os.makedirs(os.path.dirname(gen), exist_ok=True)
            tmp = gen + '.tmp%d' % os.getpid()
            with open(tmp, 'w') as f:
                f.write(out)
            os.replace(tmp, gen)
            chk.tally('%s rewritten (source differs from last run)' % label)
        else:
            chk.tally('%s unchanged' % label)
    return True, out


def ensure_models(chk):
    """Model/StaticCluster.vo and Model/StaticPairCorr.vo (executable models of the correspondence run) do not
    depend on the generated file: they are needed even when a geometry proof is broken by a changed formula"""
    def fresh(v):
        vo = os.path.join(common.COQ, v + 'o')
        return os.path.exists(vo) and os.path.getmtime(vo) >= os.path.getmtime(os.path.join(common.COQ, v))
    files = ('Model/StaticCluster.v', 'Model/StaticPairCorr.v')
    if all(fresh(v) for v in files):
        return True
    with common.Lock(os.path.join(common.COQ, '.build.lock')):
        rc, out = common.sh('timeout 600 make %s 2>&1 | tail -40' % ' '.join(v + 'o' for v in files), timeout=630, cwd=common.COQ)
        if not all(fresh(v) for v in files):
            chk.proof_broken('Model/StaticCluster.v / Model/StaticPairCorr.v (executable models do not build)', out)
            return False
    return True


def build(chk):
    """translators -> cone of Properties/C19.v.  False when a translation or a proof failed."""
    ok, text = regenerate(chk)
    if not ok:
        chk.proof_broken('translation tools/py2coq_static.py (an edge-correction function left the translatable subset)', text)
    ok_pc, text_pc = regenerate(chk, TRANSLATOR_PC, GEN_PC)
    if not ok_pc:
        chk.proof_broken('translation tools/py2coq_paircorr.py (pair_correlation_2d / pair_correlation_3d left the translatable subset)', text_pc)
    if not (ok and ok_pc):
        chk.build = dict(obligations=0, discharged=0, assumptions=[], files=[], theorems=[])
        return False
    for attempt in range(3):
        b = chk.coq()
        if open(GEN).read() == text and open(GEN_PC).read() == text_pc:
            break
        # another run (different TRACKPY_REPO) rewrote a generated file in between: redo
        chk.violations = [v for v in chk.violations if not v[0].startswith('proof:')]
        regenerate(chk)
        regenerate(chk, TRANSLATOR_PC, GEN_PC)
    chk.notes.append('Gen/static_geom.v sha1 %s generated from %s' % (hashlib.sha1(text.encode()).hexdigest()[:12], common.REPO))
    chk.notes.append('Gen/paircorr.v sha1 %s generated from %s' % (hashlib.sha1(text_pc.encode()).hexdigest()[:12], common.REPO))
    if not b['ok']:
        # say which re-proof about the generated functions fails (the generic report only names the first stale file)
        for proof, gen, cur, what in (
                ('StaticGen', GEN, text, 'a function generated from the current trackpy/static.py no longer equals the model the geometry theorems are about'),
                ('StaticPairCorrGen', GEN_PC, text_pc, 'pair_correlation_2d / _3d generated from the current trackpy/static.py no longer equal the '
                                                       'hand-written pair_correlation_sel under the interpretation Model/PyPairCorr.v')):
            with common.Lock(os.path.join(common.COQ, '.build.lock')):
                rc, out = common.sh('timeout 600 make Proofs/%s.vo 2>&1 | tail -40' % proof, timeout=630, cwd=common.COQ)
                vo, gvo = os.path.join(common.COQ, 'Proofs', proof + '.vo'), gen[:-2] + '.vo'
                stale = not (os.path.exists(vo) and os.path.exists(gvo) and os.path.getmtime(vo) >= os.path.getmtime(gvo))
            if stale and open(gen).read() == cur:
                chk.violations = [v for v in chk.violations if not v[0].startswith('proof:')]
                chk.proof_broken('Proofs/%s.v (%s)' % (proof, what), out)
                break
    return bool(b['ok'])


def is_pow2(fr):
    def p2(n):
        return n > 0 and n & (n - 1) == 0
    return p2(fr.numerator) and p2(fr.denominator)


# ---------------------------------------------------------------------------
# cluster
# ---------------------------------------------------------------------------
SEPS = ['1', '2', '4', '1/2', '3/2', '5/2', '3', '5', '23/10', '2', '1']


def gen_frame_points(rng, ndim, sep_f, half):
    kind = rng.choice(['random', 'random', 'chain', 'ring', 'clumps', 'dups', 'grid', 'single'])
    u = 0.5 if half else 1.0
    s = max(1, int(math.floor(sep_f)))
    pts = []
    if kind == 'single':
        pts = [[float(rng.randint(0, 9)) for _ in range(ndim)]]
    elif kind == 'random':
        n = rng.randint(2, 28)
        L = rng.choice([4, 8, 16, 30])
        pts = [[rng.randint(0, int(L / u)) * u for _ in range(ndim)] for _ in range(n)]
    elif kind == 'chain':
        # steps of exactly sep, sep+1 or along a diagonal: boundary pairs and just-too-far pairs
        p = [float(rng.randint(0, 5)) for _ in range(ndim)]
        pts = [list(p)]
        for _ in range(rng.randint(2, 14)):
            ax = rng.randrange(ndim)
            step = rng.choice([s, s, s + 1, s, max(1, s - 1)]) * rng.choice([1, 1, 1, -1])
            p = list(p)
            p[ax] += step
            if rng.random() < 0.2:
                p[(ax + 1) % ndim] += rng.choice([u, -u, 1])
            pts.append(list(p))
        for _ in range(rng.randint(0, 4)):
            pts.append([float(rng.randint(-20, 20)) for _ in range(ndim)])
    elif kind == 'ring':
        m = rng.randint(2, 5)
        g = rng.choice([s, s + 1])
        for i in range(m + 1):
            for j in range(m + 1):
                if i in (0, m) or j in (0, m):
                    pts.append([float(i * g), float(j * g)] + [0.0] * (ndim - 2))
        if rng.random() < 0.5:
            pts.append([m * g / 2.0 if (m * g) % 2 == 0 else float(m * g // 2), float((m * g) // 2)] + [0.0] * (ndim - 2))
        if rng.random() < 0.5:
            pts.pop(rng.randrange(len(pts)))
    elif kind == 'clumps':
        for _ in range(rng.randint(2, 5)):
            c = [float(rng.randint(0, 40)) for _ in range(ndim)]
            for _ in range(rng.randint(1, 6)):
                pts.append([c[k] + rng.randint(-s, s) * u for k in range(ndim)])
    elif kind == 'dups':
        n = rng.randint(2, 10)
        base = [[float(rng.randint(0, 6)) for _ in range(ndim)] for _ in range(n)]
        pts = base + [list(rng.choice(base)) for _ in range(rng.randint(1, 5))]
    elif kind == 'grid':
        g = rng.choice([s, s + 1, s])
        m = rng.randint(2, 4)
        pts = [[float(i * g), float(j * g)] + [0.0] * (ndim - 2) for i in range(m) for j in range(m)]
        pts = [p for p in pts if rng.random() < 0.85] or pts[:1]
    rng.shuffle(pts)
    return kind, [[float(v) for v in p] for p in pts[:40]]


def gen_cluster_case(rng, tier):
    ndim = rng.choice([2, 2, 3])
    aniso = rng.random() < 0.25
    if aniso:
        sep = [rng.choice(['1', '2', '3', '4', '3/2']) for _ in range(ndim)]
        sep_f = float(min(Fraction(s) for s in sep))
    else:
        sep = rng.choice(SEPS)
        sep_f = float(Fraction(sep))
    half = rng.random() < 0.3
    nfr = rng.choice([1, 1, 2, 3, 4])
    frames, kinds = [], []
    for _ in range(nfr):
        k, p = gen_frame_points(rng, ndim, sep_f, half)
        frames.append(p)
        kinds.append(k)
    frame_nos = sorted(rng.sample(range(0, 12), nfr))
    return dict(ndim=ndim, frames=frames, frame_nos=frame_nos, sep=sep,
                pos_columns=rng.choice([None, None, ['x', 'y', 'z'][:ndim]]),
                shuffle=rng.randrange(10 ** 6), with_frame=(nfr > 1 or rng.random() < 0.7),
                index_name=rng.choice([None, None, None, 'frame']), kinds=kinds)


# ---- frames that fit into a box about one separation wide ---------------------
# Blind spot closed here: a frame all of whose features lie in an axis-aligned box with every side shorter than the
# separation is NOT thereby one cluster -- features near opposite corners are up to sqrt(ndim) separations apart.  Any
# shortcut keyed on the frame's per-axis extent (instead of pairwise Euclidean distances) goes wrong exactly there,
# and the older generators (lattice unit >= 1/2, frames much wider than the separation) hardly ever produce such a frame.
def axis_seps(c):
    """separation per coordinate of the stored points (stored order is x, y, z; the separation tuple follows
    pos_columns, whose default is z, y, x)"""
    ndim = c['ndim']
    ss = [Fraction(s) for s in c['sep']] if isinstance(c['sep'], list) else [Fraction(c['sep'])] * ndim
    return ss if c['pos_columns'] else ss[::-1]


def frame_profile(pts, seps):
    """exact: (every axis extent < separation, some axis extent == separation, number of connected components,
    some pair exactly at the separation)"""
    P = [[F(v) / seps[k] for k, v in enumerate(p)] for p in pts]
    n = len(P)
    ext = [max(p[k] for p in P) - min(p[k] for p in P) for k in range(len(seps))]
    root = list(range(n))

    def find(i):
        while root[i] != i:
            root[i] = root[root[i]]
            i = root[i]
        return i
    exact = False
    for i in range(n):
        for j in range(i + 1, n):
            d2 = sum((a - b) ** 2 for a, b in zip(P[i], P[j]))
            exact = exact or d2 == 1
            if d2 <= 1:
                root[find(i)] = find(j)
    return all(e < 1 for e in ext), any(e == 1 for e in ext), len({find(i) for i in range(n)}), exact


def gen_compact_frame(rng, ndim, seps):
    """features on a dyadic lattice inside a box whose sides are just below / exactly / just above the separation
    (per axis), concentrated in the corners of that box"""
    smin = min(seps)
    dens = [d for d in (1, 2, 4, 8) if smin * d >= 4] or [8]
    den = rng.choice(dens)
    nk = [s * den for s in seps]                               # separation in lattice units
    mk = [int(math.ceil(x)) - 1 for x in nk]                   # largest lattice extent strictly below it
    mode = rng.choice(['below', 'below', 'below', 'smaller', 'smaller', 'exact-one', 'exact-all', 'above-one'])
    if mode == 'below':
        e = list(mk)
    elif mode == 'smaller':
        e = [rng.randint(max(1, int(math.ceil(Fraction(7, 10) * x))), max(1, m)) for x, m in zip(nk, mk)]
    else:
        e = list(mk)
        axes = range(ndim) if mode == 'exact-all' else [rng.randrange(ndim)]
        for k in axes:
            if mode == 'above-one':
                e[k] = mk[k] + rng.choice([1, 2])
            elif nk[k].denominator == 1:
                e[k] = int(nk[k])                              # extent exactly the separation: not "shorter than"
    e = [max(1, v) for v in e]
    org = [rng.randint(-20 * den, 20 * den) for _ in range(ndim)]
    corner = lambda bits: [e[k] if b else 0 for k, b in enumerate(bits)]
    opposite = lambda bits: [1 - b for b in bits]
    inward = lambda q, j: [min(e[k], max(0, v + (rng.randint(0, j) if v == 0 else -rng.randint(0, j)))) for k, v in enumerate(q)]
    kind = rng.choice(['diag pair', 'diag pair', 'dimer + far feature', 'dimer + far feature', 'corner groups', 'corner groups',
                       'face diagonal', 'random in box', 'bridged diagonal'])
    b0 = [rng.randrange(2) for _ in range(ndim)]
    jit = max(1, min(e) // 5)
    if kind == 'diag pair':
        L = [corner(b0), corner(opposite(b0))]
    elif kind == 'dimer + far feature':
        a = corner(b0)
        L = [a, inward(a, jit), inward(corner(opposite(b0)), rng.choice([0, 0, jit]))]
        if rng.random() < 0.3:
            L.append(inward(a, jit))
    elif kind == 'corner groups':
        L = [corner(b0), corner(opposite(b0))]                  # extent reached on every axis
        for _ in range(rng.randint(1, 3)):
            q = corner([rng.randrange(2) for _ in range(ndim)])
            L += [inward(q, jit) for _ in range(rng.randint(1, 3))]
    elif kind == 'face diagonal':
        # full extent along two axes only (distance about sqrt(2) separations), the others flat or nearly so
        i, j = rng.sample(range(ndim), 2)
        a = [rng.randint(0, jit) for _ in range(ndim)]
        b = list(a)
        a[i], a[j] = 0, e[j] * b0[j]
        b[i], b[j] = e[i], e[j] * (1 - b0[j])
        L = [a, b] + ([inward(a, jit)] if rng.random() < 0.5 else [])
    elif kind == 'random in box':
        L = [corner(b0), corner(opposite(b0))] + [[rng.randint(0, v) for v in e] for _ in range(rng.randint(0, 4))]
    else:
        # the same corners joined by a chain of features through the middle of the box: really one cluster (or nearly)
        a, b = corner(b0), corner(opposite(b0))
        m = rng.choice([1, 2, 3])
        L = [a, b] + [[int(round(a[k] + (b[k] - a[k]) * t / (m + 1.0))) for k in range(ndim)] for t in range(1, m + 1)]
        if rng.random() < 0.4:
            L.pop(rng.randrange(2, len(L)))
    rng.shuffle(L)
    return 'compact box (%s; %s)' % (kind, mode), [[(org[k] + v) / float(den) for k, v in enumerate(q)] for q in L]


def gen_compact_case(rng, tier):
    ndim = rng.choice([2, 2, 3])
    if rng.random() < 0.25:
        sep = [rng.choice(['1', '2', '3', '4', '3/2', '1/2']) for _ in range(ndim)]
    else:
        sep = rng.choice(SEPS + ['1', '1/2', '2', '4', '8'])
    nfr = rng.choice([1, 1, 2, 3, 4])
    c = dict(ndim=ndim, frames=[], frame_nos=sorted(rng.sample(range(0, 12), nfr)), sep=sep,
             pos_columns=rng.choice([None, None, ['x', 'y', 'z'][:ndim]]),
             shuffle=rng.randrange(10 ** 6), with_frame=(nfr > 1 or rng.random() < 0.7),
             index_name=rng.choice([None, None, None, 'frame']), kinds=[])
    seps = axis_seps(c)
    pow2 = all(is_pow2(s) for s in seps)
    for i in range(nfr):
        if i > 0 and rng.random() < 0.3:
            k, p = gen_frame_points(rng, ndim, float(min(seps)), rng.random() < 0.3)     # an ordinary wide frame next to it
        else:
            for attempt in range(6):
                k, p = gen_compact_frame(rng, ndim, seps)
                if pow2 or not frame_profile(p, seps)[3]:
                    break                                      # no pair exactly at a separation whose division is inexact
        c['frames'].append(p)
        c['kinds'].append(k)
    return c


def cluster_metric(sep, ndim, S):
    ss = [Fraction(s) for s in sep] if isinstance(sep, list) else [Fraction(sep)] * ndim
    a = [s.numerator for s in ss]
    b = [s.denominator for s in ss]
    P = 1
    for x in a:
        P *= x * x
    w = []
    for i in range(ndim):
        wi = b[i] * b[i]
        for j in range(ndim):
            if j != i:
                wi *= a[j] * a[j]
        w.append(wi)
    return w, S * S * P, all(is_pow2(s) for s in ss)


def run_cluster_impl(c):
    import trackpy as tp
    names = ['x', 'y', 'z'][:c['ndim']]
    rows = [(fn, p) for fn, fr in zip(c['frame_nos'], c['frames']) for p in fr]
    order = list(range(len(rows)))
    random.Random(c['shuffle']).shuffle(order)
    data = {nm: [rows[i][1][k] for i in order] for k, nm in enumerate(names)}
    data['frame'] = [rows[i][0] for i in order]
    data['mass'] = [float(i) for i in order]
    df = pd.DataFrame(data, index=[7 * i + 3 for i in order])
    if not c['with_frame']:
        del df['frame']
    if c.get('index_name'):
        df.index.name = c['index_name']
    f0 = df.copy()
    sep = tuple(float(Fraction(s)) for s in c['sep']) if isinstance(c['sep'], list) else float(Fraction(c['sep']))
    res = tp.cluster(df, sep, pos_columns=c['pos_columns'])
    pos = c['pos_columns'] or ['z', 'y', 'x'][3 - c['ndim']:]
    notes = []
    if not (df.equals(f0) and list(df.columns) == list(f0.columns)):
        notes.append("caller's table modified")
    base = res.drop(columns=['cluster', 'cluster_size'])
    if sorted(map(tuple, base[names + ['mass']].values.tolist())) != sorted(map(tuple, f0[names + ['mass']].values.tolist())):
        notes.append('output rows are not the input rows')
    out = []
    if 'frame' in res.columns:
        groups = [g for _, g in res.groupby(res['frame'].values)]
    else:
        groups = [res]
    for g in groups:
        out.append(dict(pts=g[pos].values.tolist(), labels=[int(v) for v in g['cluster'].tolist()],
                        sizes=[int(v) for v in g['cluster_size'].tolist()]))
    return out, notes


def cluster_term(c, out):
    ndim = c['ndim']
    # common lattice scale: the coordinates are dyadic floats (units 1, 1/2, 1/4, 1/8), their largest denominator is the lcm
    S = max([F(v).denominator for fr in out for p in fr['pts'] for v in p] + [1])
    # separation follows pos_columns order, and so do the output points
    w, R2, exact_safe = cluster_metric(c['sep'], ndim, S)
    frs = []
    boundary = False
    for fr in out:
        ip = [[int(F(v) * S) for v in p] for p in fr['pts']]
        for i in range(len(ip)):
            for j in range(i + 1, len(ip)):
                if sum(w[k] * (ip[i][k] - ip[j][k]) ** 2 for k in range(ndim)) == R2:
                    boundary = True
        frs.append("(%s, (%s, %s))" % (clist([clist([cZ(v) for v in p]) for p in ip]),
                                       clist([cnat(v) for v in fr['labels']]), clist([cnat(v) for v in fr['sizes']])))
    term = "(%s, %s, %s)" % (clist([cZ(x) for x in w]), cZ(R2), clist(frs))
    return term, boundary and not exact_safe, boundary


CL_FUNC = "fun c => match c with (w, R2, frs) => check_cluster w R2 frs end"


def eval_cluster(chk, cases, report=True):
    terms, kept = [], []
    for c in cases:
        try:
            out, notes = run_cluster_impl(c)
        except Exception as e:
            chk.violation('cluster:exception', 'trackpy.cluster raised %r' % (e,), dict(kind='cluster', case=c))
            continue
        for nt in notes:
            chk.violation('cluster:' + nt, 'trackpy.cluster: ' + nt, dict(kind='cluster', case=c))
        term, degenerate, boundary = cluster_term(c, out)
        if degenerate:
            chk.tally('cluster skipped: pair exactly at a separation that is not a power of two (float division inexact)')
            continue
        if boundary:
            chk.tally('cluster: pair exactly at separation (inclusive boundary exercised)')
        terms.append(term)
        kept.append((c, out))
    res = common.coq_eval_lists(chk.work, IMPORTS, CL_FUNC, terms, tag='cluster', shard=100)
    for (c, out), r in zip(kept, res):
        n = sum(len(f['pts']) for f in out)
        ncl = sum(len(set(f['labels'])) for f in out)
        chk.count(('cluster', c), n >= 4 and ncl < n)
        chk.tally('cluster frames=%d' % len(out))
        for k in c.get('kinds', []):
            chk.tally('cluster frame kind=' + k.split(';')[0] + (')' if ';' in k else ''))
        seps = axis_seps(c)
        for fr in c['frames']:
            compact, touching, ncomp, _ = frame_profile(fr, seps)
            if len(fr) > 1 and compact:
                chk.tally('cluster frame inside a box with every side < separation: ' + ('one cluster' if ncomp == 1 else 'SEVERAL clusters (corners farther apart than the separation)'))
            elif len(fr) > 1 and touching and all(max(F(p[k]) for p in fr) - min(F(p[k]) for p in fr) <= seps[k] for k in range(c['ndim'])):
                chk.tally('cluster frame inside a box with a side exactly = separation, none longer: %s' % ('one cluster' if ncomp == 1 else 'several clusters'))
        if r != 0:
            chk.violation('cluster:%s' % CL_CODES.get(r, r), 'trackpy.cluster(separation=%s): %s' % (c['sep'], CL_CODES.get(r, r)),
                          dict(kind='cluster', code=r, case=c, impl_output=out))
    return kept


# ---- Clusters.from_pairs on ordered pair lists -----------------------------
def gen_pairs_case(rng, tier):
    n = rng.randint(1, 14)
    m = rng.randint(0, 2 * n)
    return dict(n=n, pairs=[[rng.randrange(n), rng.randrange(n)] for _ in range(m)])


def run_pairs_impl(c):
    from trackpy import static
    cl = static.Clusters.from_pairs([tuple(p) for p in c['pairs']], c['n'])
    return dict(ids=[int(v) for v in cl.pos_ids], sizes=[int(v) for v in cl.cluster_size], keys=[int(k) for k in cl.clusters.keys()],
                sets_ok=all(sorted(cl.clusters[k]) == [i for i, v in enumerate(cl.pos_ids) if v == k] for k in cl.clusters))


FP_FUNC = "fun c => match c with (n, pairs, ids, sizes, keys) => check_from_pairs n pairs ids sizes keys end"


def eval_pairs(chk, cases):
    terms, outs, ok_cases = [], [], []
    for c in cases:
        try:
            o = run_pairs_impl(c)
        except Exception as e:
            chk.violation('from_pairs:exception', 'Clusters.from_pairs / cluster_size raised %r' % (e,), dict(kind='pairs', case=c))
            continue
        outs.append(o)
        ok_cases.append(c)
        terms.append("(%s, %s, %s, %s, %s)" % (cnat(c['n']), clist(["(%s, %s)" % (cnat(a), cnat(b)) for a, b in c['pairs']]),
                                               clist([cnat(v) for v in o['ids']]), clist([cnat(v) for v in o['sizes']]), clist([cnat(v) for v in o['keys']])))
    res = common.coq_eval_lists(chk.work, IMPORTS, FP_FUNC, terms, tag='pairs')
    for c, o, r in zip(ok_cases, outs, res):
        chk.count(('pairs', c), len(c['pairs']) >= 3)
        if r != 0 or not o['sets_ok']:
            txt = FP_CODES.get(r, r) if r != 0 else 'clusters dict is not the inverse image of pos_ids'
            chk.violation('from_pairs:%s' % txt, 'Clusters.from_pairs: %s' % txt, dict(kind='pairs', code=r, case=c, impl_output=o))


# ---------------------------------------------------------------------------
# proximity
# ---------------------------------------------------------------------------
def gen_prox_case(rng, tier):
    ndim = rng.choice([2, 2, 3])
    n = rng.choice([1, 2, 3, 5, 8, 12, 20, 30])
    L = rng.choice([3, 10, 100])
    u = rng.choice([1.0, 1.0, 0.5])
    pts = [[rng.randint(0, int(L / u)) * u for _ in range(ndim)] for _ in range(n)]
    if rng.random() < 0.3 and n > 2:
        pts[rng.randrange(n)] = list(pts[rng.randrange(n)])
    # the frame's own index: fresh 0..n-1, the labels a frame keeps when it is cut out of a larger table (arbitrary, not
    # in order), or repeated labels (every row indexed by its frame number)
    return dict(ndim=ndim, pts=pts, particle=rng.random() < 0.5, index=rng.choice(['range', 'range', 'cut', 'shuffled', 'frame']),
                iseed=rng.randint(0, 2 ** 30))


def run_prox_impl(c):
    import trackpy as tp
    names = ['x', 'y', 'z'][:c['ndim']]
    df = pd.DataFrame({nm: [p[k] for p in c['pts']] for k, nm in enumerate(names)})
    if c['particle']:
        df['particle'] = [3 * i + 1 for i in range(len(df))]
    how = c.get('index', 'range')
    ir = random.Random(c.get('iseed', 0))
    if how == 'cut':
        df.index = sorted(ir.sample(range(0, 5 * len(df) + 5), len(df)))
    elif how == 'shuffled':
        lab = list(range(len(df))); ir.shuffle(lab); df.index = lab
    elif how == 'frame':
        df.index = [7] * len(df)
    r = tp.proximity(df, pos_columns=names)
    # row k of the result belongs to row k of the frame: indexed by that row's particle id when there is one
    idx_ok = (not c['particle']) or (len(r) == len(df) and list(r.index) == list(df['particle']))
    if len(r) != len(df):
        raise AssertionError('proximity returned %d rows for %d features' % (len(r), len(df)))
    return [float(v) for v in r['proximity'].values], idx_ok


PX_FUNC = "fun c => match c with (pts, out) => check_proximity pts out end"


def eval_prox(chk, cases):
    terms, outs, ok_cases = [], [], []
    for c in cases:
        try:
            o, idx_ok = run_prox_impl(c)
        except Exception as e:
            chk.violation('proximity:exception', 'trackpy.proximity raised %r' % (e,), dict(kind='prox', case=c))
            continue
        ok_cases.append(c)
        if not idx_ok:
            chk.violation('proximity:index', 'proximity result is not indexed by particle', dict(kind='prox', case=c))
        outs.append(o)
        S = 2
        terms.append("(%s, %s)" % (clist([clist([cZ(int(F(v) * S)) for v in p]) for p in c['pts']]),
                                   clist(["(None : option Q)" if not math.isfinite(v) else "(Some %s)" % cQ(F(v) * S) for v in o])))
    res = common.coq_eval_lists(chk.work, IMPORTS, PX_FUNC, terms, tag='prox')
    for c, o, r in zip(ok_cases, outs, res):
        chk.count(('prox', c), len(c['pts']) >= 3)
        if r != 0:
            chk.violation('proximity:%s' % PX_CODES.get(r, r), 'trackpy.proximity: %s' % PX_CODES.get(r, r), dict(kind='prox', code=r, case=c, impl_output=[repr(v) for v in o]))


# ---------------------------------------------------------------------------
# pair correlation
# ---------------------------------------------------------------------------
def gen_gr_case(rng, tier, ndim=None):
    ndim = ndim or rng.choice([2, 2, 3])
    L = rng.choice([3, 4, 6, 8, 12])
    u = rng.choice([1.0, 1.0, 0.5])
    n = rng.randint(2, 36 if ndim == 2 else 22)
    kind = rng.choice(['random', 'random', 'walls', 'corners', 'grid'])
    ext = [L] + [rng.choice([L, L, L // 2 + 1, L + 3]) for _ in range(ndim - 1)]
    pts = [[rng.randint(0, int(ext[k] / u)) * u for k in range(ndim)] for _ in range(n)]
    if kind == 'walls':
        for p in pts:
            if rng.random() < 0.6:
                k = rng.randrange(ndim)
                p[k] = float(rng.choice([0, ext[k]]))
    elif kind == 'corners':
        for p in pts[:min(n, 2 ** ndim)]:
            for k in range(ndim):
                p[k] = float(rng.choice([0, ext[k]]))
    elif kind == 'grid':
        g = rng.choice([1, 2])
        pts = [[float(i * g), float(j * g)] + [float(rng.choice([0, g, ext[-1]]))] * (ndim - 2)
               for i in range(L // g + 1) for j in range(ext[1] // g + 1) if rng.random() < 0.7][:40] or pts
    bmode = rng.choice(['none', 'none', 'tight', 'larger', 'smaller'])
    if bmode == 'none':
        boundary = None
    elif bmode == 'tight':
        boundary = [[0.0, float(ext[k])] for k in range(ndim)]
    elif bmode == 'larger':
        boundary = [[-float(rng.choice([0, 1, 5])), float(ext[k] + rng.choice([0, 2, 7]))] for k in range(ndim)]
    else:
        boundary = [[float(rng.choice([0, 1])), float(max(2, ext[k] - rng.choice([0, 1, 2])))] for k in range(ndim)]
    cutoff = rng.choice([1.0, 1.5, 2.0, 2.5, 3.0, 4.0, float(L), L * 1.5]) if ndim == 2 else rng.choice([1.0, 1.5, 2.0, 3.0, float(L)])
    dr = rng.choice([0.25, 0.5, 0.5, 1.0, 2.0])
    nd = rng.choice([None, None, '1/4', '3/2', '1/50'])
    c = dict(ndim=ndim, pts=pts, boundary=boundary, cutoff=cutoff, dr=dr, ndensity=nd,
             handle_edge=rng.random() < 0.8, max_rel=rng.choice([None, 'auto', 'auto', 'auto', 'auto']), kind=kind)
    r = rng.random()
    if r < 0.3:
        # reference particles given as p_indices: 'refs' lists them as rows of pts (all inside the boundary); a row may be
        # listed twice (fraction < 1 draws with replacement)
        ins = inside_rows(c, pts, boundary)
        if ins:
            m = rng.randint(1, max(1, len(ins) - 1))
            c['refs'] = [rng.choice(ins) for _ in range(m)] if rng.random() < 0.3 else rng.sample(ins, min(m, len(ins)))
    elif r < 0.4:
        # fraction < 1: the implementation draws the reference particles with numpy's global generator; the harness seeds it
        c['fraction'] = rng.choice([0.25, 0.5, 0.75])
        c['npseed'] = rng.randint(0, 2 ** 31 - 1)
    return c


def inside_rows(c, pts, boundary):
    """rows of pts that survive the boundary filter, in order"""
    if boundary is None:
        return list(range(len(pts)))
    return [i for i, p in enumerate(pts) if all(F(boundary[k][0]) <= F(float(p[k])) <= F(boundary[k][1]) for k in range(c['ndim']))]


def p_indices_of(c, pts, boundary, refs):
    """the p_indices argument (positions in the FILTERED table) that selects rows refs of pts"""
    ins = inside_rows(c, pts, boundary)
    pos = {i: k for k, i in enumerate(ins)}
    return [pos[i] for i in refs]


def drawn_refs(c, pts, boundary):
    """fraction < 1: rows of pts the implementation will draw after np.random.seed(npseed)"""
    ins = inside_rows(c, pts, boundary)
    st = np.random.get_state()
    np.random.seed(c['npseed'])
    k = np.random.randint(0, len(ins), int(c['fraction'] * len(ins)))
    np.random.set_state(st)
    return [ins[int(i)] for i in k]


def run_gr_impl(c, pts=None, boundary='same', refs='same'):
    import trackpy as tp
    names = ['x', 'y', 'z'][:c['ndim']]
    pts = c['pts'] if pts is None else pts
    boundary = c['boundary'] if boundary == 'same' else boundary
    refs = c.get('refs') if refs == 'same' else refs
    df = pd.DataFrame({nm: [float(p[k]) for p in pts] for k, nm in enumerate(names)})
    f = tp.pair_correlation_2d if c['ndim'] == 2 else tp.pair_correlation_3d
    kw = dict(dr=c['dr'], handle_edge=c['handle_edge'])
    if c['ndensity'] is not None:
        kw['ndensity'] = float(Fraction(c['ndensity']))
    if boundary is not None:
        kw['boundary'] = tuple(v for b in boundary for v in b)
    if c['max_rel'] is not None:
        kw['max_rel_ndensity'] = c['max_rel']
    if refs is not None:
        pi = p_indices_of(c, pts, boundary, refs)
        kw['p_indices'] = pi if c.get('p_indices_as', 'list') == 'list' else np.array(pi, dtype=np.intp)
    elif c.get('fraction') is not None:
        kw['fraction'] = c['fraction']
        np.random.seed(c['npseed'])
    try:
        edges, g = f(df, c['cutoff'], **kw)
    except (RuntimeError, MemoryError) as e:
        return ('refused', type(e).__name__), None
    except (IndexError, ValueError) as e:
        return ('crash', '%s: %s' % (type(e).__name__, e)), None
    return [float(v) for v in edges], [float(v) for v in g]


def gr_reference(c):
    """exact feat/box/pairs, table of independent arcs, tolerance; None if degenerate"""
    ndim = c['ndim']
    P = [[F(float(v)) for v in p] for p in c['pts']]
    if c['boundary'] is not None:
        box = [(F(lo), F(hi)) for lo, hi in c['boundary']]
        feat = [p for p in P if all(box[k][0] <= p[k] <= box[k][1] for k in range(ndim))]
    else:
        feat = P
        if not feat:
            return 'empty'
        box = [(min(p[k] for p in feat), max(p[k] for p in feat)) for k in range(ndim)]
    n = len(feat)
    ext = 1
    for lo, hi in box:
        ext *= (hi - lo)
    if n <= 1 or ext == 0:
        return 'degenerate: fewer than two particles in the box or flat box'
    rho = Fraction(c['ndensity']) if c['ndensity'] is not None else Fraction(n - 1) / ext
    sel = None
    if c.get('refs') is not None:
        sel = p_indices_of(c, c['pts'], c['boundary'], c['refs'])
    elif c.get('fraction') is not None:
        sel = p_indices_of(c, c['pts'], c['boundary'], drawn_refs(c, c['pts'], c['boundary']))
        if not sel:
            return 'degenerate: fraction selects no particle'
    refs = feat if sel is None else [feat[i] for i in sel]
    norm = rho * len(refs) * F(c['dr'])
    if norm == 0:
        return 'degenerate: zero density'
    c2 = F(c['cutoff']) ** 2
    fbox = tuple((float(lo), float(hi)) for lo, hi in box)
    table = {}
    sum_w = 0.0
    sum_err = 0.0
    npairs = 0
    for p in refs:
        walls = tuple(v for k in range(ndim) for v in (p[k] - box[k][0], box[k][1] - p[k]))
        for q in feat:
            d2 = sum((a - b) ** 2 for a, b in zip(p, q))
            if not (0 < d2 < c2):
                continue
            npairs += 1
            key = (d2, walls)
            if key not in table:
                r = math.sqrt(d2)
                full = 2 * math.pi * r if ndim == 2 else 4 * math.pi * r * r
                if not c['handle_edge']:
                    arc, err = full, full * 1e-15
                elif ndim == 2:
                    arc = sg.arclen_inside_2d(r, float(p[0]), float(p[1]), fbox)
                    err = 1e-12 * full
                    thr = 1e-5 * r
                else:
                    arc, qe = sg.area_inside_3d(r, [float(v) for v in p], fbox)
                    err = 10 * qe + 1e-11 * full
                    thr = 1e-7 * r * r
                if c['handle_edge']:
                    if arc < 0.5 * thr:
                        arc = None
                    elif arc < 2 * thr:
                        return 'degenerate: arc at the NaN threshold'
                table[key] = (arc, err)
            arc, err = table[key]
            if arc is not None:
                sum_w += 1.0 / arc
                sum_err += err / (arc * arc)
    tol = 4 * (sum_err + sum_w * 2.0 ** -40) / float(norm) + 2.0 ** -100
    return dict(feat=feat, box=box, n=n, table=table, tol=tol, npairs=npairs, norm=norm, sel=sel, refs=refs)


def base_estimate(c, ref, mr):
    edges_max = np.arange(0, c['cutoff'] + c['dr'], c['dr']).max()
    rho = float(Fraction(c['ndensity'])) if c['ndensity'] is not None else (ref['n'] - 1) / float(np.prod([float(hi - lo) for lo, hi in ref['box']]))
    if c['ndim'] == 2:
        return np.pi * (edges_max + c['dr']) ** 2 * rho * mr
    return (4. / 3.) * np.pi * (edges_max + c['dr']) ** 3 * rho * mr


def resolve_max_rel(c, ref):
    """'auto' -> the smallest convenient max_rel_ndensity for which the neighbour estimate exceeds the particle count"""
    if c['max_rel'] == 'auto':
        c['max_rel'] = float(1.05 * (ref['n'] + 3) / base_estimate(c, ref, 1.0))


def cQl(xs):
    return clist([cQ(x) for x in xs])


def gr_term(c, ref, g):
    bd = "(None : option box)" if c['boundary'] is None else "(Some %s)" % clist(["(%s, %s)" % (cQ(F(lo)), cQ(F(hi))) for lo, hi in c['boundary']])
    pts = clist([cQl([F(float(v)) for v in p]) for p in c['pts']])
    nd = "(None : option Q)" if c['ndensity'] is None else "(Some %s)" % cQ(Fraction(c['ndensity']))
    # the arc is handed over as the exact inverse of the double 1/arc, so that the model's weights are dyadic
    tbl = "(%s : arc_table)" % clist(["((%s, %s), %s)" % (cQ(d2), cQl(w), "(None : option Q)" if a is None else "(Some %s)" % cQ(1 / F(1.0 / a)))
                                      for (d2, w), (a, e) in ref['table'].items()])
    out = clist(["(None : option Q)" if not math.isfinite(v) else "(Some %s)" % cQ(F(v)) for v in g])
    sel = "(None : option (list nat))" if ref.get('sel') is None else "(Some %s)" % ("(@nil nat)" if not ref['sel'] else clist([cnat(i) for i in ref['sel']]))
    return "(%s, %s, %s, %s, %s, %s, %s, %s, %s, %s)" % (cnat(c['ndim']), bd, pts, nd, cQ(F(c['cutoff'])), cQ(F(c['dr'])), tbl, out, cQ(F(ref['tol'])), sel)


GR_FUNC = ("fun c => match c with (dim, bd, pts, nd, cutoff, dr, tbl, out, tol, sel) => match sel with None => check_gr dim bd pts nd cutoff dr tbl out tol "
           "| Some idx => check_gr_sel dim bd pts idx nd cutoff dr tbl out tol end end")


def expected_refusal(c, ref):
    """the documented refusal: some particle has at least max_p_count neighbours (itself included) within cutoff"""
    mr = 10 if c['max_rel'] is None else c['max_rel']
    k = int(base_estimate(c, ref, mr))
    c2 = F(c['cutoff']) ** 2
    most = max(sum(1 for q in ref['feat'] if sum((a - b) ** 2 for a, b in zip(p, q)) < c2) for p in ref['refs'])
    return k, most


def compare_g(g1, g2, rel=1e-9):
    if len(g1) != len(g2):
        return 'different number of bins'
    scale = max([abs(v) for v in g1 if math.isfinite(v)] + [1e-300])
    for a, b in zip(g1, g2):
        fa, fb = math.isfinite(a), math.isfinite(b)
        if not fa and not fb:
            return None       # from the first NaN bin on numpy's cumulative sum decides
        if fa != fb:
            return 'NaN pattern differs'
        if abs(a - b) > rel * scale:
            return 'values differ (%r vs %r)' % (a, b)
    return None


def eval_gr(chk, cases, rng=None, metamorphic=True):
    terms, kept = [], []
    for c in cases:
        ref = gr_reference(c)
        if isinstance(ref, str):
            chk.tally('g(r) skipped: ' + ref)
            continue
        if ref['npairs'] > 1500 or len(ref['table']) > 450:
            chk.tally('g(r) skipped: too many pairs for the in-Coq model run')
            continue
        resolve_max_rel(c, ref)
        edges, g = run_gr_impl(c)
        if g is None:
            k, most = expected_refusal(c, ref)
            if edges == ('refused', 'MemoryError') and len(ref['refs']) * k > 1e8:
                chk.tally('g(r) refused as documented (distance array too large)')
            elif edges == ('refused', 'RuntimeError') and most >= k:
                chk.tally('g(r) refused as documented (neighbour estimate exceeded)')
            elif k <= 1:
                chk.tally('g(r) refused with %s because the neighbour estimate max_p_count is %d (sparse data / small cutoff); same condition as the documented RuntimeError' % (edges[1].split(':')[0], k))
            else:
                chk.violation('pair_correlation:unjustified-exception', 'pair_correlation_%dd raised %s although no particle has %d neighbours within cutoff (max %d)' % (c['ndim'], edges[1], k, most),
                              dict(kind='gr', case=c))
            continue
        nb = int(math.ceil(F(c['cutoff']) / F(c['dr'])))
        if [F(e) for e in edges] != [k * F(c['dr']) for k in range(nb + 1)]:
            chk.violation('pair_correlation:edges', 'r_edges are not k*dr for k = 0..ceil(cutoff/dr)', dict(kind='gr', case=c, impl_edges=edges))
            continue
        terms.append(gr_term(c, ref, g))
        kept.append((c, ref, g))
        if metamorphic and rng is not None and rng.random() < 0.5:
            t = [float(rng.randint(-50, 50)) for _ in range(c['ndim'])]
            order = list(range(len(c['pts'])))
            rng.shuffle(order)
            for what, pts2, b2 in (('translation', [[v + t[k] for k, v in enumerate(p)] for p in c['pts']],
                                    None if c['boundary'] is None else [[lo + t[k], hi + t[k]] for k, (lo, hi) in enumerate(c['boundary'])]),
                                   ('permutation', [c['pts'][i] for i in order], c['boundary'])):
                if c.get('fraction') is not None:
                    continue          # a random draw of reference particles: another table order means another draw
                refs2 = 'same'
                if what == 'permutation' and c.get('refs') is not None:
                    newpos = {old: new for new, old in enumerate(order)}
                    refs2 = [newpos[i] for i in c['refs']]          # the same particles, where they stand now
                    rng.shuffle(refs2)
                e2, g2 = run_gr_impl(c, pts2, b2, refs2)
                msg = 'raised %s' % (e2,) if g2 is None else compare_g(g, g2)
                if msg:
                    chk.violation('pair_correlation:%s-invariance' % what, 'g(r) changes under %s of the particles: %s' % (what, msg),
                                  dict(kind='gr-meta', what=what, case=c, t=t, order=order, refs2=None if refs2 == 'same' else refs2))
                chk.tally('g(r) metamorphic ' + what)
    res = common.coq_eval_lists(chk.work, IMPORTS, GR_FUNC, terms, tag='gr', shard=5)
    for (c, ref, g), r in zip(kept, res):
        chk.count(('gr', c), ref['npairs'] >= 4)
        chk.tally('g(r) %dD %s edge handling, boundary %s' % (c['ndim'], 'with' if c['handle_edge'] else 'without', 'given' if c['boundary'] else 'default'))
        chk.tally('g(r) reference particles: ' + ('p_indices' if c.get('refs') is not None else 'fraction < 1 (seeded draw)' if c.get('fraction') is not None else 'all'))
        if any(a is None for a, e in ref['table'].values()):
            chk.tally('g(r) case with a vanishing arc (NaN weight)')
        if r != 0:
            chk.violation('pair_correlation:%s' % GR_CODES.get(r, r), 'pair_correlation_%dd: %s' % (c['ndim'], GR_CODES.get(r, r)),
                          dict(kind='gr', code=r, case=c, impl_g=[repr(v) for v in g]))
    return kept


# ---------------------------------------------------------------------------
# edge-correction geometry, directly
# ---------------------------------------------------------------------------
def gen_tiny_arc_case(rng):
    """2-D, centre in a box corner, circle just short of the opposite corner: the part inside is a short arc near
    that corner, of angular measure about eps * (a/b + b/a).  Exercises the NaN mask for vanishing arcs
    (threshold 1e-5 in angle) from both sides; eval_geom skips the band [0.5, 2] x threshold."""
    a, b = rng.uniform(1, 8), rng.uniform(1, 8)
    x0, y0 = rng.choice([0.0, rng.uniform(-5, 5)]), rng.choice([0.0, rng.uniform(-5, 5)])
    box = [[x0, x0 + a], [y0, y0 + b]]
    a, b = box[0][1] - box[0][0], box[1][1] - box[1][0]
    m = rng.choice([rng.uniform(2.5e-5, 9e-5), rng.uniform(1e-4, 1e-3), rng.uniform(1e-6, 4e-6)])
    eps = m / (a / b + b / a)
    corner = [box[0][rng.randrange(2)], box[1][rng.randrange(2)]]
    return dict(ndim=2, box=box, pos=[corner], dist=[math.hypot(a, b) * (1 - eps)])


def gen_geom_case(rng, ndim):
    if ndim == 2 and rng.random() < 0.04:
        return gen_tiny_arc_case(rng)
    L = [rng.uniform(1, 12) for _ in range(ndim)]
    lo = [rng.choice([0.0, rng.uniform(-5, 5)]) for _ in range(ndim)]
    box = [[lo[k], lo[k] + L[k]] for k in range(ndim)]
    m = rng.choice([0, 1, 1, 2, 5])
    pos, dist = [], []
    for _ in range(m):
        p = [rng.uniform(box[k][0], box[k][1]) for k in range(ndim)]
        for k in range(ndim):
            q = rng.random()
            if q < 0.25:
                p[k] = box[k][rng.randrange(2)]
            elif q < 0.35:
                p[k] = box[k][0] + rng.choice([1e-3, 1e-6]) * L[k]
        pos.append(p)
        dist.append(rng.choice([rng.uniform(0.05, 0.5), rng.uniform(0.5, 1.6), 1.0]) * rng.choice(L))
    if rng.random() < 0.3:
        # integer-valued floats: wall distances, tangency (h == r) and circles through corners (3-4-5) are exact
        box = [[float(round(a)), float(round(a) + max(1, round(b - a)))] for a, b in box]
        pos = [[float(min(max(round(v), box[k][0]), box[k][1])) for k, v in enumerate(p)] for p in pos]
        dist = [float(rng.choice([1, 2, 3, 4, 5, 5, 6, 10, 13])) for _ in dist]
    return dict(ndim=ndim, box=box, pos=pos, dist=dist)


def regime_3d(r, hs):
    """Regime of one area_3d_bounded row from its six wall distances hs = [x-, x+, y-, y+, z-, z+] (the code's own masks):
    which of the cap / edge / corner terms are switched on, and which theorem covers the row:
    'parallel' -- all edge terms that are on belong to box edges parallel to one axis, no corner term
    (C19_area_3d_single_cap_partial / C19_area_3d_edges_partial / C19_area_3d_parallel_edges_partial);
    'general' -- edge terms of two or three directions and / or a corner term on: covered by C19_area_3d_bounded_is_area
    (every r > 0, every centre in the closed box), which also contains the first kind;
    None -- centre outside the closed box or r <= 0: outside the hypotheses of every theorem (numerical reference only)."""
    import itertools
    reach = [[hs[2 * a + s] < r for s in range(2)] for a in range(3)]
    axes_hit = [a for a in range(3) if any(reach[a])]
    edge_on = any(hs[2 * a + sa] ** 2 + hs[2 * b + sb] ** 2 < r * r
                  for a, b in ((0, 1), (0, 2), (1, 2)) for sa in range(2) for sb in range(2))
    corner_on = any(hs[sx] ** 2 + hs[2 + sy] ** 2 + hs[4 + sz] ** 2 < r * r
                    for sx, sy, sz in itertools.product(range(2), repeat=3))
    if corner_on:
        name = 'corner (three mutually adjacent faces, corner term on)'
    elif edge_on:
        name = 'edge overlap (two adjacent faces, caps overlap, edge term on)'
    elif len(axes_hit) >= 2:
        name = 'adjacent faces, caps do not overlap (sphere minus caps)'
    elif len(axes_hit) == 1:
        name = 'single axis (one cap or two opposite caps)'
    else:
        name = 'single axis (no face within reach)'
    # C19_area_3d_parallel_edges_partial: for some axis, no cap of a face perpendicular to it overlaps a cap of a face parallel to it
    parallel = any(all(hs[2 * ax + s] ** 2 + hs[2 * b + sb] ** 2 >= r * r for s in range(2) for b in range(3) if b != ax for sb in range(2))
                   for ax in range(3))
    # C19_area_3d_bounded_is_area: 0 < r, centre in the closed box (all six wall distances >= 0); nothing else
    in_hyp = r > 0 and all(h >= 0 for h in hs)
    proved = None if not in_hyp else ('parallel' if parallel else 'general')
    return name, proved


def gen_geom3_regime_case(rng):
    """3-D rows aimed at the regimes of two adjacent faces: caps disjoint / overlapping (incl. centre on a face or on the
    edge), and a column (three or four faces parallel to one axis within reach); the faces of the remaining axis far."""
    r = rng.choice([rng.uniform(0.3, 3.0), 1.0, 2.0])
    kind = rng.choice(['disjoint', 'overlap', 'overlap', 'on-face', 'on-edge', 'column'])
    th = rng.uniform(0.05, math.pi / 2 - 0.05)
    if kind == 'disjoint':
        s = rng.uniform(1.0, min(1 / math.cos(th), 1 / math.sin(th)))
        d = [s * r * math.cos(th), s * r * math.sin(th)]
    elif kind == 'overlap':
        s = rng.uniform(0.02, 1.0)
        d = [s * r * math.cos(th), s * r * math.sin(th)]
    elif kind == 'on-face':
        d = [0.0, rng.uniform(0.0, 1.2) * r]
        rng.shuffle(d)
    elif kind == 'on-edge':
        d = [0.0, 0.0]
    else:
        d = [rng.uniform(0, 1.0) * r, rng.uniform(0, 1.0) * r]
    ax = rng.randrange(3)                       # the axis parallel to the faces concerned
    lat = [a for a in range(3) if a != ax]
    box, pos = [None] * 3, [None] * 3
    lo = rng.choice([0.0, rng.uniform(-5, 5)])
    L = rng.uniform(2.2, 6.0) * r
    box[ax] = [lo, lo + L]
    pos[ax] = rng.uniform(lo + 1.05 * r, lo + L - 1.05 * r)
    for k, a in enumerate(lat):
        lo = rng.choice([0.0, rng.uniform(-5, 5)])
        L = (rng.uniform(0.3, 1.9) * r + d[k]) if kind == 'column' else rng.uniform(2.2, 6.0) * r
        L = max(L, d[k])
        box[a] = [lo, lo + L]
        pos[a] = (lo + L - d[k]) if rng.random() < 0.5 else (lo + d[k])
    return dict(ndim=3, box=box, pos=[pos], dist=[r])


def near_tangent(r, hs, ndim):
    """circle/sphere within 1e-7 of touching a wall, an edge or a corner without touching it exactly:
    the measure has a square-root singularity there and both computations lose digits"""
    import itertools
    for m in range(1, ndim + 1):
        for axes in itertools.combinations(range(ndim), m):
            for sides in itertools.product(range(2), repeat=m):
                s2 = sum(hs[2 * a + sd] ** 2 for a, sd in zip(axes, sides))
                if 0 < abs(s2 - r * r) < 1e-7 * r * r:
                    return True
    return False


def eval_geom(chk, c):
    from trackpy import static
    ndim = c['ndim']
    box = np.array(c['box'], dtype=float)
    pos = np.array(c['pos'], dtype=float).reshape(len(c['pos']), ndim)
    dist = np.array(c['dist'], dtype=float)
    f = static.arclen_2d_bounded if ndim == 2 else static.area_3d_bounded
    try:
        out = f(dist.copy(), pos.copy(), box.copy())
    except Exception as e:
        chk.violation('edge-correction:exception', '%s raised %r' % (f.__name__, e), dict(kind='geom', case=c))
        return
    if len(out) != len(dist):
        chk.violation('edge-correction:shape', '%s returned the wrong shape' % f.__name__, dict(kind='geom', case=c))
        return
    fbox = tuple((float(a), float(b)) for a, b in c['box'])
    for i in range(len(dist)):
        r = float(dist[i])
        if ndim == 2:
            ref = sg.arclen_inside_2d(r, pos[i, 0], pos[i, 1], fbox)
            full, thr, err = 2 * math.pi * r, 1e-5 * r, 1e-9 * r
        else:
            ref, qe = sg.area_inside_3d(r, list(pos[i]), fbox)
            full, thr, err = 4 * math.pi * r * r, 1e-7 * r * r, 1e-8 * r * r + 10 * qe
        chk.count(('geom', ndim, c['box'], c['pos'][i], c['dist'][i]), ref < full * (1 - 1e-9))
        chk.tally('edge-correction %dD: %s' % (ndim, 'full' if ref >= full * (1 - 1e-9) else 'truncated by the box'))
        v = float(out[i])
        hs = [x for k in range(ndim) for x in (pos[i, k] - box[k, 0], box[k, 1] - pos[i, k])]
        reg = None
        if ndim == 3:
            name, proved = regime_3d(r, [float(x) for x in hs])
            reg = 'edge-correction 3D regime: %s; %s' % (name, {
                'parallel': 'edge terms on only along one axis, no corner term (proved regime: C19_area_3d_parallel_edges_partial and C19_area_3d_bounded_is_area)',
                'general': 'edge terms of two directions or a corner term on (proved regime: C19_area_3d_bounded_is_area)',
                None: 'centre outside the closed box or r <= 0 (outside the theorems: numerical reference only)'}[proved])
            chk.tally(reg)
        if near_tangent(r, hs, ndim):
            chk.tally('edge-correction within 1e-7 of a tangency (ill-conditioned, not compared)')
            continue
        if 0.5 * thr <= ref <= 2 * thr:
            chk.tally('edge-correction at the NaN threshold (not compared)')
            continue
        if reg:
            chk.tally(reg + ' -- compared with the numerical reference')
        if ref < 0.5 * thr:
            bad = not math.isnan(v)
        else:
            bad = math.isnan(v) or abs(v - ref) > err
        if bad:
            what = 'arc length of the circle inside the box' if ndim == 2 else 'area of the sphere inside the box'
            chk.violation('edge-correction:%dd' % ndim, '%s = %r but the %s is %r (dist=%r pos=%r box=%r)' % (f.__name__, v, what, ref, r, c['pos'][i], c['box']),
                          dict(kind='geom', case=dict(ndim=ndim, box=c['box'], pos=[c['pos'][i]], dist=[c['dist'][i]]), impl=repr(v), reference=ref))


# ---------------------------------------------------------------------------
# corpus of tricky cases
# ---------------------------------------------------------------------------
def corpus():
    cl = [
        # chain at exactly the separation (inclusive boundary, power-of-two separation), plus a point just too far
        dict(ndim=2, frames=[[[0., 0.], [2., 0.], [4., 0.], [4., 2.], [7., 2.], [20., 20.]]], frame_nos=[0], sep='2', pos_columns=None, shuffle=1, with_frame=True, index_name=None),
        # duplicates and single-row frames, ids across frames
        dict(ndim=2, frames=[[[1., 1.], [1., 1.], [5., 5.]], [[0., 0.]], [[3., 3.], [3., 4.], [9., 9.], [9., 8.]]], frame_nos=[2, 5, 6], sep='1', pos_columns=['x', 'y'], shuffle=2, with_frame=True, index_name=None),
        # two components merged late by a bridging feature (relabel of an already merged cluster)
        dict(ndim=2, frames=[[[0., 0.], [1., 0.], [2., 0.], [10., 0.], [9., 0.], [8., 0.], [5., 0.], [4., 0.], [3., 0.], [6., 0.], [7., 0.]]], frame_nos=[3], sep='1', pos_columns=None, shuffle=5, with_frame=True, index_name=None),
        # anisotropic separation: near along one axis only
        dict(ndim=2, frames=[[[0., 0.], [3., 0.], [0., 3.], [3., 3.]]], frame_nos=[0], sep=['4', '2'], pos_columns=['x', 'y'], shuffle=3, with_frame=False, index_name=None),
        dict(ndim=2, frames=[[[0., 0.], [3., 0.], [0., 3.], [3., 3.]]], frame_nos=[0], sep=['4', '2'], pos_columns=None, shuffle=3, with_frame=True, index_name=None),
        # DESIGN section 4, F9: table whose index is named like the frame column (output of filter_stubs)
        dict(ndim=2, frames=[[[0., 0.], [1., 0.]], [[0., 0.], [5., 5.]]], frame_nos=[0, 1], sep='2', pos_columns=None, shuffle=4, with_frame=True, index_name='frame'),
        dict(ndim=3, frames=[[[0., 0., 0.], [1., 1., 1.], [2., 2., 2.], [2., 2., 4.5]]], frame_nos=[1], sep='2', pos_columns=None, shuffle=6, with_frame=True, index_name=None),
        # frames inside a box narrower than the separation on every axis that are NOT one cluster: opposite corners of the
        # box are up to sqrt(ndim) separations apart (2-D diagonal pair, 3-D body diagonal, dimer + far feature next to a
        # compact frame that really is one cluster, per-axis separation, face diagonal in 3-D)
        dict(ndim=2, frames=[[[0., 0.], [0.75, 0.75]]], frame_nos=[0], sep='1', pos_columns=None, shuffle=7, with_frame=True, index_name=None),
        dict(ndim=3, frames=[[[5., 5., 5.], [5.875, 5.875, 5.875]]], frame_nos=[0], sep='1', pos_columns=None, shuffle=8, with_frame=False, index_name=None),
        dict(ndim=2, frames=[[[10., 10.], [10.125, 10.], [12.75, 12.5]], [[3., 3.], [3.25, 3.125], [3.125, 3.25]]], frame_nos=[0, 1], sep='3', pos_columns=None, shuffle=9, with_frame=True, index_name=None),
        dict(ndim=2, frames=[[[0., 0.], [3.5, 1.75], [0.5, 0.]]], frame_nos=[4], sep=['4', '2'], pos_columns=['x', 'y'], shuffle=10, with_frame=True, index_name=None),
        dict(ndim=3, frames=[[[0., 0., 1.], [1.75, 1.75, 1.], [1.75, 0., 1.], [-7., 0., 0.]][:3]], frame_nos=[2], sep='2', pos_columns=None, shuffle=11, with_frame=True, index_name=None),
        # the same box with a side exactly the separation (boundary of "narrower than"), and a bridged diagonal (one cluster)
        dict(ndim=2, frames=[[[0., 0.], [2., 1.75]], [[0., 0.], [1.75, 1.75], [0.875, 0.875]]], frame_nos=[0, 3], sep='2', pos_columns=None, shuffle=12, with_frame=True, index_name=None),
    ]
    gr = [
        # two particles: they sit in opposite corners of their own bounding box, the arc vanishes
        dict(ndim=2, pts=[[0., 0.], [4., 4.]], boundary=None, cutoff=8.0, dr=2.0, ndensity=None, handle_edge=True, max_rel='auto'),
        dict(ndim=2, pts=[[0., 0.], [4., 4.], [2., 2.]], boundary=None, cutoff=8.0, dr=2.0, ndensity=None, handle_edge=True, max_rel='auto'),
        # particles on walls and corners, circle through a corner (3-4-5)
        dict(ndim=2, pts=[[0., 0.], [3., 0.], [3., 4.], [0., 4.], [1., 2.], [2., 2.]], boundary=[[0., 3.], [0., 4.]], cutoff=5.5, dr=0.5, ndensity=None, handle_edge=True, max_rel='auto'),
        dict(ndim=2, pts=[[0., 0.], [1., 0.], [2., 0.], [0., 4.], [4., 4.]], boundary=None, cutoff=3.0, dr=1.0, ndensity=None, handle_edge=True, max_rel=None),
        dict(ndim=2, pts=[[0., 0.], [1., 0.], [2., 0.], [0., 4.], [4., 4.], [9., 9.]], boundary=[[0., 4.], [0., 4.]], cutoff=3.0, dr=1.0, ndensity='1/4', handle_edge=False, max_rel='auto'),
        dict(ndim=3, pts=[[0., 0., 0.], [2., 0., 0.], [2., 2., 0.], [2., 2., 2.], [1., 1., 1.], [0., 2., 1.]], boundary=None, cutoff=3.0, dr=0.5, ndensity=None, handle_edge=True, max_rel='auto'),
        dict(ndim=3, pts=[[0., 0., 0.], [2., 0., 0.], [2., 2., 0.], [2., 2., 2.], [1., 1., 1.], [0., 2., 1.]], boundary=[[-1., 3.], [0., 2.], [0., 5.]], cutoff=2.5, dr=0.5, ndensity=None, handle_edge=True, max_rel='auto'),
        # sparse data, default max_rel_ndensity: estimate max_p_count <= 1
        dict(ndim=2, pts=[[0., 0.], [1., 0.], [20., 0.], [0., 20.], [20., 20.]], boundary=None, cutoff=1.5, dr=0.5, ndensity=None, handle_edge=True, max_rel=None),
    ]
    geom = [
        dict(ndim=2, box=[[0., 3.], [0., 4.]], pos=[[0., 0.], [3., 4.], [0., 2.], [1.5, 2.]], dist=[5.0, 2.5, 1.0, 2.0]),
        dict(ndim=2, box=[[0., 3.], [0., 4.]], pos=[[1., 1.]], dist=[1.5]),
        dict(ndim=2, box=[[0., 3.], [0., 4.]], pos=[], dist=[]),
        dict(ndim=3, box=[[0., 3.], [0., 4.], [0., 5.]], pos=[[0., 0., 0.], [1., 1., 1.], [3., 4., 5.], [1.5, 2., 0.]], dist=[2.0, 1.5, 4.0, 2.5]),
        dict(ndim=3, box=[[0., 3.], [0., 4.], [0., 5.]], pos=[[1., 1., 1.]], dist=[1.8]),
    ]
    return cl, gr, geom


# ---------------------------------------------------------------------------
def run(chk):
    common.quiet_trackpy()
    built = build(chk)
    ensure_models(chk)
    rng = chk.rng
    q = chk.tier == 'quick'
    import time
    ccl, cgr, cgeom = corpus()
    t0 = time.time()
    eval_cluster(chk, ccl + [gen_cluster_case(rng, chk.tier) for _ in range(200 if q else 1500)]
                 + [gen_compact_case(rng, chk.tier) for _ in range(150 if q else 1200)])
    t1 = time.time()
    eval_pairs(chk, [dict(n=5, pairs=[[0, 1], [2, 3], [3, 1]]), dict(n=3, pairs=[[1, 1], [2, 0], [0, 2]])]
               + [gen_pairs_case(rng, chk.tier) for _ in range(200 if q else 1500)])
    t2 = time.time()
    eval_prox(chk, [dict(ndim=2, pts=[[0., 0.]], particle=False), dict(ndim=2, pts=[[0., 0.], [3., 4.], [3., 4.]], particle=True)]
              + [gen_prox_case(rng, chk.tier) for _ in range(150 if q else 1000)])
    t3 = time.time()
    kept = eval_gr(chk, cgr + [gen_gr_case(rng, chk.tier, 2) for _ in range(100 if q else 700)]
                   + [gen_gr_case(rng, chk.tier, 3) for _ in range(35 if q else 250)], rng=rng)
    t4 = time.time()
    ng2, ng3 = (1500, 300) if q else (8000, 2000)
    if not built:
        ng2, ng3 = 2 * ng2, 2 * ng3      # proof / translation broken: search harder for the concrete failing (dist, pos, box)
        chk.tally('edge-correction search doubled (translation or proof broken)')
    for c in (cgeom + [gen_geom_case(rng, 2) for _ in range(ng2)] + [gen_geom_case(rng, 3) for _ in range(ng3)]
              + [gen_geom3_regime_case(rng) for _ in range(ng3 // 2)]):
        eval_geom(chk, c)
    t5 = time.time()
    chk.notes.append('wall seconds: cluster %.1f, from_pairs %.1f, proximity %.1f, g(r) %.1f, edge corrections %.1f' % (t1 - t0, t2 - t1, t3 - t2, t4 - t3, t5 - t4))
    if kept:
        c, ref, g = kept[0]
        chk.sample(dict(kind='gr', case=c, impl_g=[repr(v) for v in g]))
    chk.sample(dict(kind='cluster', case=ccl[0]))
    chk.sample(dict(kind='cluster', case=ccl[9]))
    chk.coverage['rule'] = ("cluster: lattice frames (random, chains stepping exactly/just beyond separation, rings, clumps, duplicates, grids, single rows; 1-4 frames, shuffled rows, odd index, "
                            "isotropic and per-axis separations) through trackpy.cluster, verified monitor on its output; "
                            "plus the compact-box family: frames on a dyadic lattice (unit 1 .. 1/8) that fit into an axis-aligned box whose sides are just below / 70-100% of / exactly / just above "
                            "the (per-axis) separation, features concentrated in its corners (diagonal pair, dimer + far feature, 2-4 corner groups, 3-D face diagonal, random fill, diagonal bridged "
                            "by a chain), at random offsets, alone or next to ordinary frames -- such a frame is up to sqrt(ndim) separations across and is usually NOT one cluster although every "
                            "axis extent is below the separation (tallied per frame from the input by exact arithmetic: 'inside a box with every side < separation: one / SEVERAL clusters'); "
                            "ordered pair lists through Clusters.from_pairs (exact). "
                            "proximity: lattice sets with duplicates. g(r): lattice sets in 2-D/3-D with particles on walls/corners, default or given boundary/density, with and without edge handling, "
                            "against the Q model fed with independently computed arcs/areas; translation and permutation re-runs. edge corrections: generic float positions incl. on walls, in corners, "
                            "circles larger than the box, plus 3-D rows aimed at two adjacent faces (caps disjoint / overlapping, centre on a face / on the edge) and columns. non-trivial = cluster case with >=4 features and a merged cluster / >=3 pairs / >=3 points / >=4 particle pairs / measure truncated by the box; distinct by content hash")
    chk.assumptions += [
        "cKDTree.query_pairs(r) returns exactly the pairs at distance <= r, cKDTree.query(distance_upper_bound=c) exactly the neighbours at distance < c (modelled, exercised by the correspondence)",
        "float distance arithmetic agrees with exact arithmetic on lattice inputs; pairs exactly at a separation that is not a power of two are skipped and counted",
        "np.histogram's propagation of a NaN weight into all later bins is not part of the model: bins from the first NaN bin on are not compared",
        "the edge measure enters the g(r) model as a table computed by vp/staticgeom.py (wall crossings in 2-D, hat-box quadrature in 3-D; agreement with trackpy's closed forms is what is checked, to 1e-9 r / 1e-8 r^2)",
        "3-D: area_3d_bounded (the generated function, NaN mask included) is proved to be the area of the part of the sphere inside the box for EVERY r > 0 and EVERY centre in the closed box "
        "(C19_area_3d_bounded_is_area: caps, edge terms of one, two or three directions and corner terms in any combination; sphere_edge_area is the area of the lune, C19_sphere_edge_area_is_lune, "
        "sphere_corner_area the area of the spherical triangle beyond three adjacent faces, C19_sphere_corner_area_is_triangle), the area being measured in the axial parametrisation "
        "(area element r dphi dt proved to be the Euclidean surface element; the three coordinate axes give the same value for these sets, C19_area_3d_axis_independent; "
        "that this axial area agrees with surface area defined otherwise for arbitrary sets is classical and not proved); "
        "every 3-D row is tallied by regime ('edge-correction 3D regime: ...': which terms are on and which theorem covers it) and compared with the numerical reference in each; "
        "rows with the centre outside the box are outside the theorems and covered numerically only",
        "Gen/static_geom.v is produced by tools/py2coq_static.py (trusted translator, fail-closed; conventions in its docstring: one point of the numpy vector code over R, "
        "acc[mask] -= v read as acc - (if mask then v else 0), _protect_mask checked by abstract evaluation to be the elementwise conditional, 10**-5 / 10**-7 as exact "
        "reals, NaN as None; acos / asin / sqrt / division are total in Coq: the generated functions speak for the code where numpy stays in the domains, i.e. centre in the closed box, dist > 0)",
        "Gen/paircorr.v is produced by tools/py2coq_paircorr.py (trusted translator, fail-closed) over the record of named numpy / pandas / scipy primitives of Model/PyPairCorr.v; "
        "what the primitives mean is the interpretation PairCorrI of that file (floats as exact rationals, distances squared, the kd-tree query = all particles strictly within cutoff of each "
        "reference particle in table order padded with inf to max_p_count columns, LibraryError for max_p_count <= 1, np.random.randint an oracle, np.pi any rational, 2 pi sqrt(d2) left open): "
        "that numpy / pandas / scipy behave like the interpretation is exercised by the g(r) correspondence runs, not proved",
        "pair_correlation refuses (RuntimeError, or IndexError/ValueError when its neighbour estimate max_p_count <= 1) instead of returning g(r) on sparse inputs; counted, not compared",
    ]


def replay(chk, path):
    common.quiet_trackpy()
    build(chk)
    ensure_models(chk)
    r = json.load(open(path))['replay']
    kind = r.get('kind')
    if kind == 'cluster':
        kept = eval_cluster(chk, [r['case']])
        for c, out in kept:
            print('replay: implementation output', out)
    elif kind == 'pairs':
        eval_pairs(chk, [r['case']])
        print('replay: implementation output', run_pairs_impl(r['case']))
    elif kind == 'prox':
        eval_prox(chk, [r['case']])
        print('replay: implementation output', run_prox_impl(r['case']))
    elif kind == 'gr':
        eval_gr(chk, [r['case']], metamorphic=False)
        print('replay: implementation output', run_gr_impl(r['case']))
    elif kind == 'gr-meta':
        c = r['case']
        e1, g1 = run_gr_impl(c)
        if r['what'] == 'translation':
            t = r['t']
            pts2 = [[v + t[k] for k, v in enumerate(p)] for p in c['pts']]
            b2 = None if c['boundary'] is None else [[lo + t[k], hi + t[k]] for k, (lo, hi) in enumerate(c['boundary'])]
        else:
            pts2, b2 = [c['pts'][i] for i in r['order']], c['boundary']
        e2, g2 = run_gr_impl(c, pts2, b2, r['refs2'] if r.get('refs2') is not None else 'same')
        chk.count(('gr-meta', c), True)
        print('replay: g(r) original', g1, '\nreplay: g(r) after %s' % r['what'], g2)
        msg = ('raised %s' % (e2,)) if g2 is None or g1 is None else compare_g(g1, g2)
        if msg:
            chk.violation('pair_correlation:%s-invariance' % r['what'], 'g(r) changes under %s: %s' % (r['what'], msg), r)
    elif kind == 'geom':
        eval_geom(chk, r['case'])
    else:
        print('replay: nothing executable in this replay file (proof/translation breakage): see its log field; searching numerically')
        rng = random.Random(0)
        for c in corpus()[2] + [gen_geom_case(rng, 2) for _ in range(1500)] + [gen_geom_case(rng, 3) for _ in range(300)]:
            eval_geom(chk, c)
