"""C01 — linking returns a valid labelling and preserves the caller's data.

Theorems (Properties/C01.v): label bookkeeping of the step machine (unique per
frame, fresh ids, links only from live sources within range, memory ageing) for
every run; the table adapter hands every row to the linker exactly once.
Tie: link / link_iter / link_df_iter are run on generated tables; (a) the Coq
monitor replays the labels on frames rebuilt *by the harness* from the returned
table (missing frame numbers = empty steps), deciding uniqueness, gap bound,
range bound (and optimality, shared with C02); (b) pandas-level comparison of
returned rows with the input rows (index values, columns, values, frame
coerced and ordered) and of the caller's table before/after (data and index).

Route T (table plumbing).  tools/py2coq_coords.py re-translates the CURRENT text of
coords_from_df / coords_from_df_iter (trackpy/linking/utils.py) and link_iter / link /
link_df_iter (trackpy/linking/linking.py) into coq/Gen/coords.v on every run, before the
cone of Properties/C01.v is rebuilt: Proofs/CoordsGen.v re-proves that the generated
functions equal the hand-written models (Model/CoordsFromDf.v, Model/LinkTable.v,
Model/Link.v) and the C01 theorems are restated for them (C01_generated_*).  A source that
leaves the translatable subset, or whose translation no longer satisfies those proofs, is
reported through chk.proof_broken; the correspondence runs below still take place (they only
need the hand-written models), so a concrete failing input is still searched for.  When the
build is intact the generated coords_from_df is also executed on the coords_from_df cases,
next to the function it was translated from.
"""
import numpy as np, pandas as pd, json, os, sys, hashlib
from fractions import Fraction
import common, linkgen
from common import cnat, clist
from props import c02

IMPORTS = c02.IMPORTS
FUNC = c02.FUNC
CODES = c02.CODES

TRANSLATOR = os.path.join(common.VERIF, 'tools', 'py2coq_coords.py')
GEN = os.path.join(common.COQ, 'Gen', 'coords.v')
STATE = {'gen_ok': False}


# ----------------------------------------------------------------------------
# route T: translator / build
# ----------------------------------------------------------------------------
def regenerate(chk):
    """re-run the translator on the current source; returns (ok, text-or-log)"""
    rc, out = common.sh([sys.executable, TRANSLATOR, '--repo', common.REPO, '--stdout'], timeout=60)
    if rc != 0:
        return False, out
    with common.Lock(os.path.join(common.COQ, '.build.lock')):
        old = open(GEN).read() if os.path.exists(GEN) else None
        if old != out:
            os.makedirs(os.path.dirname(GEN), exist_ok=True)
            tmp = GEN + '.tmp%d' % os.getpid()
            with open(tmp, 'w') as f:
                f.write(out)
            os.replace(tmp, GEN)
            # what was proved about the previous text is void: a failing re-proof is then reported under its own file name
            for v in ('Proofs/CoordsGen.vo', 'Proofs/CoordsGen2.vo', 'Model/CoordsGenCheck.vo', 'Properties/C01.vo'):
                try:
                    os.remove(os.path.join(common.COQ, v))
                except OSError:
                    pass
            chk.tally('Gen/coords.v rewritten (source differs from last run)')
        else:
            chk.tally('Gen/coords.v unchanged')
    return True, out


def ensure_models(chk):
    """the executable hand-written models / monitors are needed by the correspondence runs even when the
    translation or a proof about the generated functions is broken"""
    def fresh(v):
        vo = os.path.join(common.COQ, v + 'o')
        return os.path.exists(vo) and os.path.getmtime(vo) >= os.path.getmtime(os.path.join(common.COQ, v))
    files = ('Model/LinkTable.v', 'Model/CoordsFromDf.v', 'Model/LinkCheck.v')
    if all(fresh(v) for v in files):
        return True
    with common.Lock(os.path.join(common.COQ, '.build.lock')):
        rc, out = common.sh('timeout 600 make -j8 %s 2>&1 | tail -25' % ' '.join(v + 'o' for v in files), timeout=630, cwd=common.COQ)
    if not all(fresh(v) for v in files):
        chk.proof_broken('Model/LinkCheck.v (hand-written models)', out)
        return False
    return True


def build(chk):
    """translator -> cone of Properties/C01.v; STATE['gen_ok'] tells whether the generated code can be executed"""
    STATE['gen_ok'] = False
    ok, text = regenerate(chk)
    if not ok:
        chk.proof_broken('translation tools/py2coq_coords.py (coords_from_df / coords_from_df_iter / link_iter / link / link_df_iter '
                         'left the translatable subset)', text)
        chk.build = dict(obligations=0, discharged=0, assumptions=[], files=[], theorems=[])
    else:
        for attempt in range(3):
            b = chk.coq()
            if open(GEN).read() == text:
                break
            # another run (different TRACKPY_REPO) rewrote the generated file in between: redo
            chk.violations = [v for v in chk.violations if not v[0].startswith('proof:')]
            regenerate(chk)
        chk.notes.append('Gen/coords.v sha1 %s generated from %s' % (hashlib.sha1(text.encode()).hexdigest()[:12], common.REPO))
        STATE['gen_ok'] = bool(b['ok'])
        if b['ok']:
            # the executable comparison file for the generated code (not in the cone of Properties/C01.v)
            with common.Lock(os.path.join(common.COQ, '.build.lock')):
                rc, out = common.sh('timeout 600 make Model/CoordsGenCheck.vo 2>&1 | tail -25', timeout=630, cwd=common.COQ)
            vo = os.path.join(common.COQ, 'Model', 'CoordsGenCheck.vo')
            if not (os.path.exists(vo) and os.path.getmtime(vo) >= os.path.getmtime(os.path.join(common.COQ, 'Gen', 'coords.vo'))):
                STATE['gen_ok'] = False
                chk.proof_broken('Model/CoordsGenCheck.v (executable comparison of the generated code)', out)
        if not b['ok']:
            # say which statement about the generated functions no longer checks
            with common.Lock(os.path.join(common.COQ, '.build.lock')):
                rc, out = common.sh('timeout 600 make Proofs/CoordsGen.vo 2>&1 | tail -25', timeout=630, cwd=common.COQ)
            chk.notes.append('make Proofs/CoordsGen.vo (generated functions = model): ' + out[-2500:])
    return ensure_models(chk)


def make_table(rng, frames, frame_numbers, reverse_pos=False):
    """build a DataFrame from per-frame coordinates with unusual index / extra columns / row order"""
    ndim = frames[0].shape[1]
    cols = ['x', 'y', 'z'][:ndim][::-1]   # default pos_columns order: (z,) y, x
    rows = []
    for t, f in zip(frame_numbers, frames):
        for p in f:
            rows.append([float(v) for v in p] + [t])
    df = pd.DataFrame(rows, columns=cols + ['frame'])
    n = len(df)
    df['mass'] = [float(rng.randint(1, 1000)) for _ in range(n)]
    if rng.random() < 0.3:
        df['tag'] = [rng.choice(['a', 'b', None]) for _ in range(n)]
    kind = rng.choice(['default', 'shuffled', 'dup', 'str', 'multi', 'named_frame', 'float_frame'])
    if kind in ('shuffled', 'dup', 'str', 'multi', 'named_frame') or rng.random() < 0.5:
        perm = list(range(n)); rng.shuffle(perm)
        df = df.iloc[perm]
    if kind == 'default':
        df = df.reset_index(drop=True)
    elif kind == 'dup':
        df.index = [rng.randint(0, 3) for _ in range(n)]
    elif kind == 'str':
        df.index = ['r%d' % rng.randint(0, 99) for _ in range(n)]
    elif kind == 'multi':
        df.index = pd.MultiIndex.from_arrays([[rng.randint(0, 2) for _ in range(n)], list(range(n))], names=['a', 'b'])
    elif kind == 'named_frame':
        df.index = pd.Index(df['frame'].values, name='frame')
    elif kind == 'float_frame':
        df['frame'] = df['frame'].astype(float)
    # how the frame numbers are stored: int64 (default), or a narrower / unsigned integer dtype they fit in (files written
    # by cameras and other tools); the rows keep whatever order they have
    if kind != 'float_frame' and n and rng.random() < 0.3:
        lo_f, hi_f = min(frame_numbers), max(frame_numbers)
        fits = [d for d in ('uint8', 'uint16', 'uint32', 'uint64', 'int16', 'int32') if np.iinfo(d).min <= lo_f and hi_f <= np.iinfo(d).max]
        if fits:
            fdt = rng.choice(fits)
            df['frame'] = df['frame'].astype(fdt)
            if kind == 'named_frame':
                df.index = pd.Index(df['frame'].values, name='frame')
            kind += '+frame:' + fdt
    df['_rid'] = np.arange(n)     # row identity carried through as an ordinary column
    if reverse_pos:
        order = ['frame'] + cols[::-1] + [c for c in df.columns if c not in cols and c != 'frame']   # x before y (before z)
        df = df[order]
    elif rng.random() < 0.5:
        order = list(df.columns); rng.shuffle(order)   # column order must not matter (pos_columns are given or guessed by NAME)
        df = df[order]
    return df, kind, cols


def frames_from_output(out, cols, lo=None, hi=None):
    """group the RETURNED table by frame number, inserting empty steps for missing numbers"""
    if len(out) == 0:
        return [], [], []
    fr = out['frame'].values.astype(np.int64)
    lo = int(fr.min()) if lo is None else lo
    hi = int(fr.max()) if hi is None else hi
    frames, labels, rids = [], [], []
    for t in range(lo, hi + 1):
        sel = out[fr == t]
        frames.append(sel[cols].values.astype(float).reshape(len(sel), len(cols)))
        labels.append([int(v) for v in sel['particle'].values])
        rids.append([int(v) for v in sel['_rid'].values])
    return frames, labels, rids


def col_equal(a, b):
    a = np.asarray(a); b = np.asarray(b)
    if a.shape != b.shape:
        return False
    if a.dtype.kind in 'fiub' and b.dtype.kind in 'fiub':
        return bool(np.array_equal(a, b, equal_nan=True))
    def norm(x):
        return None if (x is None or (isinstance(x, float) and x != x) or x is pd.NA) else x
    return [norm(x) for x in a.tolist()] == [norm(x) for x in b.tolist()]


def snapshot(df):
    return (df.copy(deep=True), list(df.columns), df.index.copy(deep=True), list(df.index.names), [str(d) for d in df.dtypes])


def same_table(df, snap):
    d0, c0, i0, n0, t0 = snap
    if list(df.columns) != c0 or [str(d) for d in df.dtypes] != t0:
        return 'columns/dtypes changed'
    if list(df.index.names) != n0:
        return 'index names changed'
    if not df.index.equals(i0):
        return 'index values changed'
    for c in c0:
        if not col_equal(df[c].values, d0[c].values):
            return 'column %s changed' % c
    return None


def rows_preserved(inp, out, need_int=True):
    """returned rows = input rows (index values, columns, values), frame coerced to int, ordered by frame"""
    if len(out) != len(inp):
        return 'row count %d != %d' % (len(out), len(inp))
    if 'particle' not in out.columns:
        return 'no particle column'
    if list(c for c in out.columns if c != 'particle') != list(inp.columns):
        return 'columns differ'
    if need_int and not np.issubdtype(out['frame'].dtype, np.integer):
        return 'frame column not integer'
    fr = out['frame'].values
    if np.any(np.diff(fr) < 0):
        return 'rows not ordered by frame'
    if sorted(out['_rid'].values) != list(range(len(inp))):
        return 'rows are not a permutation of the input rows'
    pos = {int(r): k for k, r in enumerate(inp['_rid'].values)}
    order = [pos[int(r)] for r in out['_rid'].values]
    exp = inp.iloc[order]
    for c in inp.columns:
        a, b = out[c].values, exp[c].values
        if c == 'frame' and need_int:
            b = b.astype(np.int64)
        if not col_equal(a, b):
            return 'values of column %s differ' % c
    a, b = out.index, exp.index
    if not (list(a) == list(b)):
        return 'index values differ'
    if not np.issubdtype(out['particle'].dtype, np.integer) or (len(out) and out['particle'].min() < 0):
        return 'labels are not non-negative integers'
    return None


def run(chk):
    with linkgen.size_limit(linkgen.LIMIT):
        return _run(chk)


def _run(chk):
    import trackpy as tp
    from trackpy.linking.linking import Linker
    from trackpy.linking.utils import SubnetOversizeException
    common.quiet_trackpy()
    build(chk)
    n = 120 if chk.tier == 'quick' else 4000
    terms, metas, dterms, dmetas = [], [], [], []
    for k in range(n):
        c = c02.gen_case(chk.rng, chk.tier)
        c['max_size'] = linkgen.LIMIT
        c02.safe_strategy(c)
        if chk.rng.random() < 0.12:
            c['strategy'] = 'drop'      # labels must be valid for every link_strategy; 'drop' is judged by its own monitor
        if linkgen.max_inrange(c['frames'], c['sr'], c['memory']) > 8:
            chk.tally('skipped: neighbour cap binding'); continue
        frames = c['frames']
        entry = chk.rng.choice(['link', 'link', 'link_df_iter', 'link_df_iter', 'link_iter'])
        if entry != 'link_iter' and c['ndim'] >= 2 and chk.rng.random() < 0.4:
            # strongly different per-axis ranges: an axis mix-up changes which pairs are within the ellipsoid
            rr = [Fraction(v) for v in chk.rng.choice([(2, 7), (7, 2), (3, 8), (8, 3), (2, 5)])]
            c['sr'] = tuple((rr + [Fraction(4)])[:c['ndim']])
            if linkgen.max_inrange(c['frames'], c['sr'], c['memory']) > 8:
                chk.tally('skipped: neighbour cap binding'); continue
            c02.safe_strategy(c)
        # frame numbering: start != 0, gaps (missing frame numbers)
        t0 = chk.rng.choice([0, 0, 1, 5, -3])
        numbers, t = [], t0
        for f in frames:
            numbers.append(t)
            t += 1 if chk.rng.random() < 0.75 else chk.rng.randint(2, 4)
        if chk.rng.random() < 0.5:
            numbers = list(range(t0, t0 + len(frames)))
        kw = dict(memory=c['memory'], link_strategy=c['strategy'])
        # units: the same movie expressed in another length unit (coordinates and ranges times 2^k: exact in floating
        # point, so the model sees the unscaled movie).  Tiny units only with genuinely per-axis ranges (there the code
        # divides by the range first); with one range for all axes the 1e-7 candidate slack of the KD-tree query is
        # absolute, so only k >= 0 is used.
        aniso = isinstance(c['sr'], tuple) and len(set(c['sr'])) > 1
        uexp = chk.rng.choice([0, 0, -30, -20, -10, 5, 10]) if aniso else chk.rng.choice([0, 0, 0, 0, 5, 10])
        unit = 2.0 ** uexp
        c['unit_exp'] = uexp
        frames = [f * unit for f in frames]
        sr_u = tuple(r * Fraction(2) ** uexp for r in c['sr']) if isinstance(c['sr'], tuple) else c['sr'] * Fraction(2) ** uexp
        srf = linkgen.sr_float(sr_u)
        chk.tally('length unit 2^%d%s' % (uexp, ' (per-axis ranges)' if aniso else ''))
        try:
            if entry == 'link':
                keep = [(tn, f) for tn, f in zip(numbers, frames) if len(f)]
                if not keep:
                    continue
                df, kind, cols = make_table(chk.rng, [f for _, f in keep], [tn for tn, _ in keep], reverse_pos=chk.rng.random() < 0.3)
                snap = snapshot(df)
                guess = len(cols) >= 2 and chk.rng.random() < 0.4
                out = tp.link(df, srf, **kw) if guess else tp.link(df, srf, pos_columns=cols, **kw)
                chk.tally('link pos_columns guessed' if guess else 'link pos_columns given')
                why = same_table(df, snap)
                if why:
                    chk.violation('link: caller table modified', 'tp.link modified the caller\'s table: ' + why,
                                  dict(kind='table', entry='link', index_kind=kind, why=why, case=c02.jsonable(c, None)))
                why = rows_preserved(snap[0], out)
                if why:
                    chk.violation('link: rows not preserved', 'tp.link output rows differ from input rows: ' + why,
                                  dict(kind='table', entry='link', index_kind=kind, why=why, case=c02.jsonable(c, None), frame_numbers=numbers))
                    continue
                fr2, labs, _ = frames_from_output(out, cols)
                chk.tally('link index=' + kind)
            elif entry == 'link_df_iter':
                dfs, snaps, colss = [], [], None
                revp = chk.rng.random() < 0.5
                for tn, f in zip(numbers, frames):
                    if len(f):
                        d, kind, colss = make_table(chk.rng, [f], [tn], reverse_pos=revp)
                    else:
                        ndim = f.shape[1]
                        colss = ['x', 'y', 'z'][:ndim][::-1]
                        d = pd.DataFrame({**{cc: [] for cc in colss}, 'frame': np.array([], dtype=int), '_rid': np.array([], dtype=int)})
                    dfs.append(d); snaps.append(snapshot(d))
                guess = len(colss) >= 2 and all(len(d) for d in dfs) and chk.rng.random() < 0.6
                outs = list(tp.link_df_iter(dfs, srf, **kw)) if guess else list(tp.link_df_iter(dfs, srf, pos_columns=colss, **kw))
                chk.tally('link_df_iter pos_columns guessed' if guess else 'link_df_iter pos_columns given')
                bad = None
                for d, s, o in zip(dfs, snaps, outs):
                    bad = bad or same_table(d, s)
                    if len(d):
                        w = rows_preserved(s[0], o, need_int=False)
                        if w and 'ordered' not in w:
                            bad = bad or w
                if bad or len(outs) != len(dfs):
                    chk.violation('link_df_iter: rows not preserved', 'link_df_iter: ' + str(bad or 'wrong number of frames'),
                                  dict(kind='table', entry='link_df_iter', why=bad, case=c02.jsonable(c, None)))
                    continue
                fr2 = [o[colss].values.astype(float).reshape(len(o), len(colss)) for o in outs]
                labs = [[int(v) for v in o['particle'].values] for o in outs]
                chk.tally('link_df_iter')
            else:
                bys = chk.rng.random() < 0.5
                labs = linkgen.run_link_iter(frames, sr_u, memory=c['memory'], link_strategy=c['strategy'], enumerate_t=numbers, bystander=bys)
                c['bystander'] = bys
                if bys:
                    chk.tally('link_iter with another linking job alive')
                fr2 = [f[:, ::-1][:, ::-1] for f in frames]
                chk.tally('link_iter')
        except SubnetOversizeException:
            chk.tally('oversize (skipped)'); continue
        except Exception as ex:
            # trackpy itself raises on a valid movie: that movie is the failing input
            c3 = dict(c); c3['frames'] = [np.asarray(f, dtype=float) / unit for f in frames]
            chk.count((entry, 'exception', k), True)
            chk.violation('%s: exception %s' % (entry, type(ex).__name__),
                          '%s(%s, memory=%d) raises %s: %s' % (entry, c['strategy'], c['memory'], type(ex).__name__, str(ex)[:300]),
                          dict(kind='movie', entry=entry, code=-1, case=dict(c02.jsonable(c3, None), unit_exp=c.get('unit_exp', 0), bystander=False),
                               frame_numbers=numbers))
            continue
        c2 = dict(c); c2['frames'] = [np.asarray(f, dtype=float) / unit for f in fr2]
        # link/link_df_iter pass coordinates in pos_columns order (z,y,x) = reversed generator order: distances unchanged
        if isinstance(c['sr'], tuple) and entry != 'link_iter':
            c2['sr'] = tuple(c['sr'])   # table columns are reversed (cols[::-1]) and so is the data: same pairing
        (dterms if c2['strategy'] == 'drop' else terms).append(c02.case_term(c2, labs)); (dmetas if c2['strategy'] == 'drop' else metas).append((entry, c2, labs, numbers))
    from props import c03
    res = common.coq_eval_lists(chk.work, IMPORTS, FUNC, terms) + common.coq_eval_lists(chk.work, c03.IMPORTS, c03.FUNC_DROP, dterms, tag='drop')
    CODES.update({9: c03.CODES[9]})
    for (entry, c2, labs, numbers), r in zip(metas + dmetas, res):
        chk.count((entry, c02.jsonable(c2, labs)), sum(len(f) for f in c2['frames']) >= 6)
        if r != 0:
            chk.violation('%s:%s' % (entry, CODES.get(r, r)), '%s(%s, memory=%d): %s' % (entry, c2['strategy'], c2['memory'], CODES.get(r, r)),
                          dict(kind='movie', entry=entry, code=r, case=dict(c02.jsonable(c2, labs), unit_exp=c2.get('unit_exp', 0), bystander=bool(c2.get('bystander'))), frame_numbers=numbers))
    if metas:
        chk.sample(dict(entry=metas[0][0], case=c02.jsonable(metas[0][1], metas[0][2])))
    # coords_from_df itself against its model (Model/CoordsFromDf.v, proved equal to the declarative frame split)
    from trackpy.linking.utils import coords_from_df
    cterms, cmeta, gterms = [], [], []
    for k in range(60 if chk.tier == 'quick' else 1500):
        nrow = chk.rng.randint(1, 14)
        t0 = chk.rng.choice([0, 0, 1, -4, 7])
        frs = [t0 + chk.rng.choice([0, 0, 1, 1, 2, 3, 5]) for _ in range(nrow)]
        if chk.rng.random() < 0.5:
            frs[0] = t0
        dfc = pd.DataFrame(dict(x=np.arange(nrow, dtype=float), frame=np.array(frs, dtype=np.int64)))
        try:
            gott = [(int(t), [int(v) for v in arr[:, 0]]) for t, arr in coords_from_df(dfc, ['x'], 'frame')]
        except Exception as ex:
            chk.count(('cfd', tuple(frs)), True)
            chk.violation('coords_from_df: exception %s' % type(ex).__name__, 'coords_from_df on frame column %s raises %s: %s' % (frs, type(ex).__name__, str(ex)[:300]),
                          dict(kind='cfd', frames=frs, got=None))
            continue
        got = [g for _, g in gott]
        rows = clist(["{| r_id := %s; r_frame := %s; r_pos := [] |}" % (cnat(i), common.cZ(f)) for i, f in enumerate(frs)])
        cterms.append("(%s, %s)" % (rows, clist([clist([cnat(v) for v in g]) for g in got])))
        cmeta.append((frs, got))
        gterms.append("(%s, %s)" % (rows, clist(["(%s, %s)" % (common.cZ(t), clist([cnat(v) for v in g])) for t, g in gott])))
    cres = common.coq_eval_lists(chk.work, "From TP Require Import Model.Assign Model.Link Model.LinkTable Model.CoordsFromDf.",
                                 "fun c => match c with (rows, out) => check_cfd rows out end", cterms, tag='cfd')
    for (frs, got), r in zip(cmeta, cres):
        chk.count(('cfd', frs), len(set(frs)) >= 2)
        chk.tally('coords_from_df vs model')
        if r != 0:
            chk.violation('coords_from_df: frames handed to the linker differ from the model',
                          'coords_from_df on frame column %s yields row groups %s, not one group per frame number from min to max in input order' % (frs, got),
                          dict(kind='cfd', frames=frs, got=got))
    # link_iter numbers the arrays of a bare (not enumerated) iterable 0, 1, 2, ..
    arrs = [np.array([[float(3 * k), 0.0]]) for k in range(4)]
    try:
        ts = [t for t, _ in tp.link_iter(arrs, 1)]
    except Exception as ex:
        ts = 'raises %s' % type(ex).__name__
    chk.count(('link_iter numbering',), True)
    chk.tally('link_iter frame numbers of a bare iterable')
    if ts != [0, 1, 2, 3]:
        chk.violation('link_iter: frame numbers of a bare iterable', 'link_iter over 4 arrays (not enumerated) reports frame numbers %s, not [0, 1, 2, 3]' % (ts,),
                      dict(kind='link_iter_numbers', got=str(ts)))
    # the same cases through the code GENERATED from the current coords_from_df (translator + vocabulary against the implementation)
    if STATE['gen_ok']:
        GCODES = {1: 'different row groups', 2: 'different frame numbers', 3: 'the generated code raises'}
        gres = common.coq_eval_lists(chk.work, "From TP Require Import Model.Assign Model.Link Model.LinkTable Model.CoordsGenCheck.",
                                     "fun c => match c with (rows, out) => check_cfd_gen rows out end", gterms, tag='cfdgen')
        for (frs, got), r in zip(cmeta, gres):
            chk.tally('generated coords_from_df vs implementation')
            if r != 0:
                chk.violation('generated coords_from_df: ' + GCODES.get(r, str(r)),
                              'Gen/coords.v (translated from the current source) disagrees with the implementation it was translated from on frame '
                              'column %s: %s (implementation yields %s)' % (frs, GCODES.get(r, str(r)), got), dict(kind='cfd', frames=frs, got=got))
    else:
        chk.tally('generated coords_from_df not executed (translation / proof broken)')
    chk.coverage['rule'] = ("lattice movies turned into tables with default/shuffled/duplicate/string/MultiIndex/'frame'-named indices, float frame column, "
                            "extra object columns, frame numbering with offsets and gaps; entry points link, link_df_iter, link_iter x every strategy x memory 0-3; "
                            "non-trivial = >= 6 features")
    chk.assumptions += ["pandas semantics of the returned table are observed, not modelled", "as C02: KD-tree exact, lattice inputs, 1e-7 slack not modelled",
                        "route T: Gen/coords.v is produced from the current trackpy/linking/utils.py (coords_from_df, coords_from_df_iter) and linking.py (link_iter, link, "
                        "link_df_iter) by tools/py2coq_coords.py (trusted, fail-closed; subset, conventions and the list of pandas / numpy / itertools primitives in its "
                        "docstring and in Model/PyCoords.v: eager generators, DataFrame = labels + rows with identity and numeric cells, integer-valued frame column whose "
                        "dtype is a flag, the Linker class as the interface LinkerI interpreted by Model/Link.v's step machine); pandas_sort and guess_pos_columns are "
                        "primitives here (translated for C20)"]


def replay(chk, path):
    with linkgen.size_limit(linkgen.LIMIT):
        return _replay(chk, path)


def _replay(chk, path):
    common.quiet_trackpy()
    build(chk)
    r = json.load(open(path))['replay']
    if r.get('kind') == 'movie':
        cj = r['case']
        sr = tuple(Fraction(x) for x in cj['search_range']) if isinstance(cj['search_range'], list) else Fraction(cj['search_range'])
        frames = linkgen.frames_from_json(cj['frames'])
        ndim = max([f.shape[1] for f in frames if f.size] or [2])
        frames = [f.reshape(len(f), ndim) for f in frames]
        c = dict(frames=frames, sr=sr, memory=cj['memory'], max_size=cj['max_size'], strategy=cj['link_strategy'], ndim=ndim)
        import trackpy as tp
        cols = ['x', 'y', 'z'][:ndim][::-1]
        nums = r.get('frame_numbers') or list(range(len(frames)))
        uexp = int(cj.get('unit_exp', 0)); unit = 2.0 ** uexp
        rows = [[*[float(v) * unit for v in p], t] for t, f in zip(nums, frames) for p in f]
        df = pd.DataFrame(rows, columns=cols + ['frame']); df['_rid'] = np.arange(len(df))
        sr_u = tuple(x * Fraction(2) ** uexp for x in sr) if isinstance(sr, tuple) else sr * Fraction(2) ** uexp
        if r.get('entry') == 'link_iter' and cj.get('bystander'):
            labs = linkgen.run_link_iter([f * unit for f in frames], sr_u, memory=c['memory'], link_strategy=c['strategy'], enumerate_t=nums, bystander=True)
            fr2 = [f * unit for f in frames]
        else:
            try:
                out = tp.link(df, linkgen.sr_float(sr_u), pos_columns=cols, memory=c['memory'], link_strategy=c['strategy'])
            except Exception as ex:
                chk.count(('replay', cj), True)
                print('replay (through tp.link): raises %s: %s' % (type(ex).__name__, ex))
                chk.violation('link: exception %s' % type(ex).__name__, 'tp.link raises %s: %s' % (type(ex).__name__, str(ex)[:300]),
                              dict(kind='movie', code=-1, case=cj, frame_numbers=nums))
                return
            fr2, labs, _ = frames_from_output(out, cols)
        c['frames'] = [np.asarray(f, dtype=float) / unit for f in fr2]
        res = common.coq_eval_lists(chk.work, IMPORTS, FUNC, [c02.case_term(c, labs)])
        chk.count(('replay', cj), True)
        print('replay (through %s): labels' % ('link_iter with a bystander job' if (r.get('entry') == 'link_iter' and cj.get('bystander')) else 'tp.link'), 'labels', labs, 'monitor code', res[0], CODES.get(res[0]))
        if res[0] != 0:
            chk.violation('link:%s' % CODES.get(res[0]), CODES.get(res[0]), dict(kind='movie', code=res[0], case=c02.jsonable(c, labs)))
    else:
        print('replay: table-level finding; re-run ./check C01 with VERIF_SEED=%s to regenerate' % json.load(open(path)).get('seed'))
