"""C06 -- grey_dilation returns exactly the admissible local maxima.

Tie (route C, exact): trackpy.find.grey_dilation is run on generated images
(integer and float, 1-3 D, plateaus/ties, scalar and per-axis separation,
percentiles 0-100, margins None/0/large/tuple, precise on/off).  The sorted
coordinate set it returns is compared inside Coq (Model/DilationCheck.check_gd)
with the executable model Model/Dilation.grey_dilation, about which
Properties/C06.v proves: result = exactly {p | p > threshold, not exceeded in the
box, outside the margin}; precise=True: subset, pairwise separation, justified
discards.  The threshold handed to the model is np.percentile of the non-zero
pixels computed by the harness (np.percentile is trusted, not the
implementation's percentile_threshold).  where_close / drop_close are also driven
directly on explicit point sets (second harness).

Tie (route T).  tools/py2coq_find.py re-translates the CURRENT text of
trackpy/find.py (percentile_threshold, where_close, drop_close, grey_dilation) into
coq/Gen/find.v on every run, before the build; Proofs/FindGen.v proves the
generated functions equal to Model/Dilation.v for all inputs and Properties/C06.v
restates the theorems for them (C06_gen_*).  A translation error (the source left
the translatable subset) or a proof about the generated functions that no longer
checks is reported through chk.proof_broken; the correspondence run below still
takes place against the hand-written model and looks for a concrete failing input.
"""
import hashlib, itertools, json, math, os, sys
import numpy as np
from fractions import Fraction
import common
from common import cZ, cQ, clist, cbool

IMPORTS = "From TP Require Import Model.Dilation Model.DilationCheck."
FUNC = ("fun c => match c with (f, sh, d, sep, mg, thr, pr, out) => "
        "check_gd f {| shape := sh; data := d |} sep mg thr pr out end")
CONV_FUNC = "fun c => match c with (sh, d, out) => check_convert {| shape := sh; data := d |} out end"
WC_FUNC = "fun c => match c with (pos, sep, ints, out) => check_wc pos sep ints out end"
DC_FUNC = "fun c => match c with (pos, sep, ints, out) => check_dc pos sep ints out end"

CODES = {
    1: 'returned a pixel that is not an admissible local maximum (not above threshold / exceeded inside its box / inside the margin)',
    2: 'missed an admissible local maximum',
    3: 'precise=True returned a point that is not a candidate maximum (or returned it twice)',
    4: 'precise=True returned two points closer than separation',
    5: 'precise=True discarded a maximum that has no at-least-as-bright candidate within separation',
    6: 'precise=True result differs from the model only in which member of a tied close pair is dropped (tie rule: coordinate sum, then order)',
    7: 'returned a pixel twice',
    8: 'convert_to_int differs from floor(255*max(v,0)/vmax) on a pixel away from a rounding boundary',
    11: 'where_close returned an index out of range / unsorted / repeated',
    12: 'where_close keeps two features closer than separation',
    13: 'where_close drops a feature without an at-least-as-bright close neighbour',
    14: 'where_close differs from the model only in the tie rule (coordinate sum, then order)',
    15: 'drop_close did not return exactly the rows not listed by where_close',
}


TRANSLATOR = os.path.join(common.VERIF, 'tools', 'py2coq_find.py')
GEN = os.path.join(common.COQ, 'Gen', 'find.v')


# ----------------------------------------------------- translator / build
def regenerate(chk):
    """re-run the translator on the current source; returns (ok, text-or-log)"""
    rc, out = common.sh([sys.executable, TRANSLATOR, '--repo', common.REPO, '--stdout'], timeout=60)
    if rc != 0:
        return False, out
    with common.Lock(os.path.join(common.COQ, '.build.lock')):
        old = open(GEN).read() if os.path.exists(GEN) else None
        if old != out:
            os.makedirs(os.path.dirname(GEN), exist_ok=True)
            tmp = GEN + '.tmp%d' % os.getpid()
            with open(tmp, 'w') as f:
                f.write(out)
            os.replace(tmp, GEN)
            chk.tally('Gen/find.v rewritten (source differs from last run)')
        else:
            chk.tally('Gen/find.v unchanged')
    return True, out


def ensure_model(chk):
    """Model/DilationCheck.vo (hand-written model + monitors, executable) is needed by the correspondence
    run even when the translation or a proof about the generated functions is broken"""
    def fresh(v):
        vo = os.path.join(common.COQ, v + 'o')
        return os.path.exists(vo) and os.path.getmtime(vo) >= os.path.getmtime(os.path.join(common.COQ, v))
    files = ('Model/Dilation.v', 'Model/DilationCheck.v')
    if all(fresh(v) for v in files):
        return True
    with common.Lock(os.path.join(common.COQ, '.build.lock')):
        for v in files:
            rc, out = common.sh('timeout 300 coqc -Q . TP %s' % v, timeout=330, cwd=common.COQ)
            if rc != 0:
                chk.proof_broken(v, out)
                return False
    return True


def build(chk):
    """translator -> cone of Properties/C06.v; returns True when the executable model is available"""
    ok, text = regenerate(chk)
    if not ok:
        chk.proof_broken('translation tools/py2coq_find.py (trackpy/find.py left the translatable subset)', text)
        chk.build = dict(obligations=0, discharged=0, assumptions=[], files=[], theorems=[])
    else:
        for attempt in range(3):
            b = chk.coq()
            if open(GEN).read() == text:
                break
            # another run (different TRACKPY_REPO) rewrote the generated file in between: redo
            chk.violations = [v for v in chk.violations if not v[0].startswith('proof:')]
            regenerate(chk)
        chk.notes.append('Gen/find.v sha1 %s generated from %s' % (hashlib.sha1(text.encode()).hexdigest()[:12], common.REPO))
        if not b['ok']:
            # say which statement about the generated functions no longer checks
            with common.Lock(os.path.join(common.COQ, '.build.lock')):
                rc, out = common.sh('timeout 600 make Proofs/FindGen.vo 2>&1 | tail -25', timeout=630, cwd=common.COQ)
            chk.notes.append('make Proofs/FindGen.vo (generated functions = model): ' + out[-2500:])
    return ensure_model(chk)


# ---------------------------------------------------------------- literals
def carr(a):
    """nested arr literal of an integer ndarray (python ints)"""
    if a.ndim == 0:
        return "Leaf " + cZ(int(a))
    if a.ndim == 1:
        return "Node (map Leaf (%s)%%Z)" % clist([str(int(x)) if x >= 0 else "(%d)" % int(x) for x in a.tolist()]) if len(a) else "Node []"
    return "Node " + clist([carr(x) for x in a])


def cpts(pts):
    if len(pts) == 0:
        return "(@nil (list Z))"
    return "(%s)%%Z" % clist([clist([str(int(x)) if x >= 0 else "(%d)" % int(x) for x in p]) for p in pts])


def cqlist(xs):
    return "(%s : list Q)" % clist([cQ(x) for x in xs])


# ------------------------------------------------------------- generators
DTYPES_INT = ['uint8', 'uint8', 'uint8', 'uint16', 'int16', 'int32', 'int64']
DTYPES_FLT = ['float64', 'float64', 'float32']


def gen_shape(rng, tier):
    nd = rng.choice([1, 2, 2, 2, 2, 2, 3, 3])
    big = tier == 'thorough' and rng.random() < 0.2
    tiny = rng.random() < 0.12
    if nd == 1:
        return (rng.randint(1, 6) if tiny else rng.randint(7, 40),)
    if nd == 2:
        m = 24 if not big else 32
        return (rng.randint(1, 3), rng.randint(1, m)) if tiny else (rng.randint(5, m), rng.randint(5, m))
    m = 8 if not big else 10
    return (rng.randint(1, 2), rng.randint(1, m), rng.randint(1, m)) if tiny else (rng.randint(3, m), rng.randint(4, m), rng.randint(4, m))


def gen_values(rng, shape):
    """integer-valued array (int64) with the structures the property is about"""
    nprng = np.random.default_rng(rng.getrandbits(32))
    kind = rng.choice(['few'] * 6 + ['blobs'] * 6 + ['sparse'] * 2 + ['wide'] * 2 + ['ramp'] * 2 + ['plateau'] * 4 + ['edge'] * 4 + ['negative'] * 3 + ['huge'] * 3 + ['constant', 'zero'])
    n = int(np.prod(shape))
    if kind == 'few':
        k = rng.choice([2, 3, 4, 6])
        a = nprng.integers(0, k, size=shape)
    elif kind == 'blobs':
        a = nprng.integers(0, 3, size=shape)
        for _ in range(rng.randint(1, 6)):
            c = [rng.randrange(s) for s in shape]
            amp = rng.choice([5, 9, 9, 20, 100])
            w = rng.choice([1, 2, 3])
            idx = np.indices(shape)
            d2 = sum((idx[i] - c[i]) ** 2 for i in range(len(shape)))
            a = a + (amp * np.exp(-d2 / (2.0 * w * w))).astype(np.int64)
    elif kind == 'sparse':
        a = np.zeros(shape, dtype=np.int64)
        for _ in range(rng.randint(0, max(1, n // 6))):
            a[tuple(rng.randrange(s) for s in shape)] = rng.choice([1, 1, 2, 3, 7])
    elif kind == 'negative':   # all pixels negative: the zero padding of mode='constant' is what decides at the border
        a = -nprng.integers(1, rng.choice([3, 4, 6]), size=shape)
    elif kind == 'constant':
        a = np.full(shape, rng.choice([1, 5, 200]), dtype=np.int64)
    elif kind == 'zero':
        a = np.zeros(shape, dtype=np.int64)
    elif kind == 'huge':   # large dynamic range: distinct maxima that differ by a few parts in 10^6 .. 10^9
        base = rng.choice([10 ** 6, 3 * 10 ** 7, 2 * 10 ** 9])
        a = nprng.integers(0, 3, size=shape) * (base // 1000)
        for _ in range(rng.randint(2, 8)):
            a[tuple(rng.randrange(s) for s in shape)] = base + rng.randint(0, 4)
    elif kind == 'wide':
        a = nprng.integers(0, 60000, size=shape)
    elif kind == 'ramp':
        idx = np.indices(shape)
        a = sum(idx[i] * rng.choice([0, 1, 1, 2]) for i in range(len(shape))) % rng.choice([3, 5, 7, 1000])
        a = a.astype(np.int64)
    elif kind == 'plateau':
        a = nprng.integers(0, 2, size=shape)
        for _ in range(rng.randint(1, 4)):
            lo = [rng.randrange(s) for s in shape]
            sl = tuple(slice(l, l + rng.randint(1, 3)) for l in lo)
            a[sl] = rng.choice([4, 4, 6])
    else:  # 'edge': bright pixels on / next to the border
        a = nprng.integers(0, 2, size=shape)
        for _ in range(rng.randint(1, 8)):
            p = [rng.choice([0, 1, 2, s - 1, s - 2, s - 3, s // 2]) % s for s in shape]
            a[tuple(p)] = rng.choice([5, 5, 8])
    return kind, np.asarray(a, dtype=np.int64)


def gen_sep(rng, ndim, generic=False):
    lo = math.sqrt(ndim) / 2
    # dyadic separations keep the model's rational arithmetic small; generic doubles (2.2, 3.3) only on small images
    pool = [1, 1.5, 1.5, 2, 2, 2, 2.5, 3, 3, 3.5, 4, 5, 7, 2.25, 4.75] + ([2.2, 3.3, 1.1] * 3 if generic else [])
    pool = [p for p in pool if p >= lo * 1.02]
    if rng.random() < 0.6 or ndim == 1:
        return rng.choice(pool)
    return tuple(rng.choice(pool) for _ in range(ndim))


def gen_margin(rng, shape, sep):
    r = rng.random()
    if r < 0.35:
        return None
    if r < 0.55:
        return 0
    if r < 0.75:
        return rng.choice([1, 1, 2, 3])
    if r < 0.87:
        return tuple(rng.choice([0, 1, 2, 4]) for _ in shape)
    if r < 0.94:
        return tuple(max(0, (s - 1) // 2 + rng.choice([-1, 0, 1])) for s in shape)
    return max(shape) // 2 + rng.choice([0, 1])


def gen_case(rng, tier):
    shape = gen_shape(rng, tier)
    kind, vals = gen_values(rng, shape)
    if rng.random() < 0.3 and kind != 'negative':
        dt = rng.choice(DTYPES_FLT)
        scale = rng.choice([1.0, 0.5, 0.1, 1 / 3.0, 0.0078125, 3.7, 1e-3])
        off = rng.choice([0, 0, 0, -1, -3])
        img = ((vals + off) * scale).astype(dt)
    else:
        dt = rng.choice(DTYPES_INT)
        if kind == 'negative':
            dt = rng.choice(['int16', 'int32', 'int64', 'int8'])
        elif dt.startswith('int') and rng.random() < 0.4:
            vals = vals - rng.choice([1, 2, 3])
        if dt == 'uint8':
            vals = np.clip(vals, 0, 255)
        if dt == 'int16':
            vals = np.clip(vals, -30000, 30000)
        img = vals.astype(dt)
    sep = gen_sep(rng, len(shape), generic=img.size <= 80)
    perc = rng.choice([0, 0, 10, 30, 50, 50, 64, 64, 90, 99, 100, round(rng.uniform(0, 100), 2)])
    if kind in ('few', 'plateau', 'ramp', 'sparse', 'edge') and rng.random() < 0.7:
        perc = rng.choice([0, 0, 5, 10, 30, 50, round(rng.uniform(0, 60), 2)])   # few grey levels: a high percentile is the top level
    margin = gen_margin(rng, shape, sep)
    precise = rng.random() < 0.55
    return dict(kind=kind, image=img, separation=sep, percentile=perc, margin=margin, precise=precise)


def corpus():
    """small hand-made tricky cases (run first)"""
    A = np.array
    cs = []

    def add(img, sep, perc=0, margin=0, precise=False, dtype='uint8'):
        cs.append(dict(kind='corpus', image=A(img).astype(dtype), separation=sep, percentile=perc, margin=margin, precise=precise))
    p22 = np.zeros((6, 6), int); p22[2:4, 2:4] = 5
    add(p22, 2, precise=False); add(p22, 2, precise=True); add(p22, 3, precise=True, margin=None)
    # even box (size 2): window is [i, i+1], not [i-1, i]
    add([[0, 0, 0, 0, 0], [0, 3, 4, 0, 0], [0, 0, 0, 0, 0]], 1.5)
    add([[0, 0, 0, 0, 0], [0, 4, 3, 0, 0], [0, 0, 0, 0, 0]], 1.5)
    add([[0, 0, 0], [3, 0, 0], [4, 0, 0], [0, 0, 0]], (1.5, 3))
    add([1, 2, 3, 3, 2, 5, 1], 1); add([1, 2, 3, 3, 2, 5, 1], 2.5, precise=True)
    add(np.zeros((4, 4)), 2); add(np.full((4, 4), 7), 2); add(np.full((4, 4), 7), 2, perc=100)
    add([[9]], 1); add([[9]], 1, margin=None); add([[9]], 1, margin=1)
    # peaks exactly on / next to the margin boundary
    e = np.ones((9, 9), int); e[2, 2] = 5; e[1, 5] = 5; e[6, 6] = 5; e[7, 3] = 5; e[4, 4] = 2
    add(e, 2, margin=2); add(e, 2, margin=(2, 1)); add(e, 5, margin=None); add(e, 2, margin=4); add(e, 2, margin=5)
    # negative pixels at the border: outside counts as 0
    add([[-1, -2, -1], [-2, -1, -2], [-1, -2, -1]], 2, dtype='int16'); add([[-1, -2], [-3, 4]], 1, dtype='int32')
    add([[-1, -2, -1], [-2, -1, -2], [-1, -2, -1]], 2.25, dtype='int16'); add([-2, -1, -1, -3, -1], 1, dtype='int8'); add([-2, -1, -1, -3, -1], 1.5, dtype='int8')
    # threshold: strictly brighter
    add([[0, 0, 0, 0], [0, 2, 0, 3], [0, 0, 0, 0], [0, 3, 0, 2]], 1, perc=50); add([[0, 0, 0, 0], [0, 2, 0, 3], [0, 0, 0, 0], [0, 3, 0, 2]], 1, perc=100)
    # chain A<B<C, A-B and B-C close, A-C not; tie (1,2)/(2,1)
    ch = np.zeros((5, 13), int); ch[2, 2] = 3; ch[2, 6] = 4; ch[2, 10] = 5
    add(ch, 4.5, precise=True); add(ch, 4.5, precise=False)
    t = np.zeros((5, 5), int); t[1, 2] = 4; t[2, 1] = 4
    add(t, 1.5, precise=True); add(t.T, (1.5, 2), precise=True); add(t, (3, 1.5), precise=True)
    # float rescale: max pixel lands on 254, negatives are clipped
    cs.append(dict(kind='corpus', image=A([[0, 49.0, 0, 0], [0, 0, 0, 24.5], [1, 0, 0, 0]]), separation=1, percentile=0, margin=0, precise=False))
    cs.append(dict(kind='corpus', image=A([[-5.0, 0.3, -0.1], [0.2, 0.29, 0.0], [-7, 0.1, 0.3]]), separation=1, percentile=10, margin=0, precise=True))
    cs.append(dict(kind='corpus', image=A([[-5.0, -0.3], [-0.2, -0.29]]), separation=1, percentile=10, margin=0, precise=True))
    cs.append(dict(kind='corpus', image=np.zeros((3, 3)), separation=1, percentile=10, margin=0, precise=True))
    # 3-D plateau with per-axis separation
    v = np.zeros((4, 5, 5), int); v[1:3, 2, 2] = 6; v[2, 2, 4] = 6
    add(v, (1, 2, 2), precise=True); add(v, 2, precise=True); add(v, (1, 2, 2), precise=False, margin=None)
    return cs


# ------------------------------------------------------- exact side helpers
def sep_tuple(sep, ndim):
    return tuple(sep) if hasattr(sep, '__iter__') else (sep,) * ndim


def exact_box_size(s, ndim):
    s = Fraction(s)
    return math.isqrt((4 * s.numerator ** 2) // (ndim * s.denominator ** 2))


def float_to_scaled_ints(img):
    """float image -> integer image v * 2^k (exact)"""
    fr = [Fraction(float(x)) for x in img.ravel().tolist()]
    L = 1
    for f in fr:
        L = max(L, f.denominator)
    return np.array([int(f * L) for f in fr], dtype=object).reshape(img.shape)


def analyse_float(img, conv):
    """compare the implementation's convert_to_int output with the exact
    floor(255*max(v,0)/vmax).  returns ('exact'|'borderline'|'wrong', detail)"""
    tol = 8 * float(np.finfo(img.dtype).eps)      # two roundings (255/vmax, the product), with headroom
    flat = [Fraction(float(x)) for x in img.ravel().tolist()]
    vmax = max(flat)
    out = [int(x) for x in conv.ravel().tolist()]
    status = 'exact'
    for i, (v, o) in enumerate(zip(flat, out)):
        x = Fraction(255) * max(v, 0) / vmax if vmax > 0 else Fraction(0)
        fl = x.numerator // x.denominator
        if o == fl:
            continue
        r = round(x)
        if abs(x - r) <= tol * max(1, r) and o in (r, r - 1):
            status = 'borderline'
            continue
        return 'wrong', dict(pixel_index=i, value=float(v), vmax=float(vmax), exact=float(x), implementation=o)
    return status, None


def lexsorted(pos):
    if len(pos) == 0:
        return []
    return sorted(tuple(int(x) for x in p) for p in np.asarray(pos).reshape(len(pos), -1).tolist())


def run_impl(c):
    from trackpy.find import grey_dilation
    return lexsorted(grey_dilation(c['image'], c['separation'], c['percentile'], c['margin'], c['precise']))


def prepare(c, chk):
    """run the implementation and build the Coq case term.  returns dict or None (skipped)"""
    from trackpy.preprocessing import convert_to_int
    img = c['image']
    ndim = img.ndim
    sep = sep_tuple(c['separation'], ndim)
    is_float = not np.issubdtype(img.dtype, np.integer)
    info = dict(case=c, tie_fragile=False)
    # box sizes: float formula of the implementation vs exact
    for s in sep:
        if int(2 * s / np.sqrt(ndim)) != exact_box_size(s, ndim):
            chk.tally('skipped: int(2*s/sqrt(ndim)) within rounding of an integer')
            return None
        if exact_box_size(s, ndim) < 1:
            chk.tally('skipped: box size 0 (separation < sqrt(ndim)/2)')
            return None
    conv = convert_to_int(img, dtype=np.uint8)[1]
    model_float = False
    if is_float:
        st, det = analyse_float(img, conv)
        if st == 'wrong':
            chk.violation('convert_to_int:' + CODES[8], 'convert_to_int: ' + CODES[8] + ' ' + json.dumps(det),
                          dict(kind='gd', code=8, detail=det, case=jsonable(c)))
            return None
        chk.tally('float image: rescale ' + st)
        model_float = st == 'exact'
        info['conv_term'] = None
        if model_float:
            sc = float_to_scaled_ints(img)
            info['conv_term'] = "(%s, %s, %s)" % ("(%s)%%Z" % clist([str(x) for x in img.shape]), carr(sc),
                                                  "(%s)%%Z" % clist([str(int(x)) for x in conv.ravel().tolist()]) if conv.size else "(@nil Z)")
    nz = conv[np.nonzero(conv)]
    thr = float(np.percentile(nz, c['percentile'])) if len(nz) else 0.0
    out = run_impl(c)
    info['out'] = out
    info['thr'] = thr
    # guards for precise: float closeness / tie decisions vs exact
    if c['precise']:
        cands = lexsorted(run_impl_nonprecise(c))
        info['ncand'] = len(cands)
        fs = [Fraction(s) for s in sep]
        fsum = np.sum(np.array(cands, dtype=float).reshape(len(cands), ndim) / np.array(sep, dtype=float), 1) if cands else []
        for i in range(len(cands)):
            for j in range(i + 1, len(cands)):
                d2 = sum(Fraction(cands[i][k] - cands[j][k]) ** 2 / fs[k] ** 2 for k in range(ndim))
                if Fraction(999999, 1000000) <= d2 < 1:
                    chk.tally('skipped: a pair within 1e-6 of the separation boundary')
                    return None
                if d2 < 1 and conv[cands[i]] == conv[cands[j]]:
                    ex = sum(Fraction(cands[i][k]) / fs[k] for k in range(ndim)) - sum(Fraction(cands[j][k]) / fs[k] for k in range(ndim))
                    fl = fsum[i] - fsum[j]
                    if (ex > 0) != (fl > 0) or (ex < 0) != (fl < 0):
                        info['tie_fragile'] = True
    else:
        info['ncand'] = len(out)
    mg = c['margin']
    if mg is None:
        mterm = "(@None (list Z))"
    else:
        mt = tuple(mg) if hasattr(mg, '__iter__') else (mg,) * ndim
        mterm = "(Some (%s)%%Z)" % clist([str(int(m)) if m >= 0 else "(%d)" % int(m) for m in mt])
    data = float_to_scaled_ints(img) if model_float else conv.astype(np.int64) if is_float else img.astype(np.int64)
    info['term'] = "(%s, %s, %s, %s, %s, %s, %s, %s)" % (
        cbool(model_float), "(%s)%%Z" % clist([str(x) for x in img.shape]), carr(np.asarray(data)),
        cqlist(sep), mterm, cQ(thr), cbool(c['precise']), cpts(out))
    return info


def run_impl_nonprecise(c):
    from trackpy.find import grey_dilation
    return grey_dilation(c['image'], c['separation'], c['percentile'], c['margin'], False)


def jsonable(c):
    return dict(image=c['image'].tolist(), dtype=str(c['image'].dtype), separation=c['separation'], percentile=c['percentile'],
                margin=c['margin'], precise=c['precise'], kind=c.get('kind'))


def from_json(j):
    sep = j['separation']
    mg = j['margin']
    return dict(kind=j.get('kind'), image=np.array(j['image']).astype(j['dtype']), separation=tuple(sep) if isinstance(sep, list) else sep,
                percentile=j['percentile'], margin=tuple(mg) if isinstance(mg, list) else mg, precise=j['precise'])


def evaluate_gd(chk, cases, tag='cases'):
    infos = []
    for c in cases:
        try:
            info = prepare(c, chk)
        except Exception as e:
            chk.violation('grey_dilation:exception', 'grey_dilation raised %r on a valid input' % (e,), dict(kind='gd', case=jsonable(c)))
            continue
        if info is not None:
            infos.append(info)
    res = common.coq_eval_lists(chk.work, IMPORTS, FUNC, [i['term'] for i in infos], shard=150, tag=tag)
    conv = [i for i in infos if i.get('conv_term')]
    cres = common.coq_eval_lists(chk.work, IMPORTS, CONV_FUNC, [i['conv_term'] for i in conv], shard=150, tag=tag + '_conv')
    for i, r in zip(conv, cres):
        if r != 0:
            chk.violation('convert_to_int:' + CODES[8], 'convert_to_int: model and implementation disagree on the 8-bit image',
                          dict(kind='gd', code=8, case=jsonable(i['case'])))
    bad = []
    for i, r in zip(infos, res):
        c = i['case']
        chk.count(('gd', jsonable(c)), i['ncand'] >= 1 and c['image'].size > 1)
        chk.tally('gd ndim=%d' % c['image'].ndim)
        chk.tally('gd dtype=' + str(c['image'].dtype))
        chk.tally('gd precise=%s' % c['precise'])
        chk.tally('gd kind=' + str(c['kind']))
        chk.tally('gd maxima returned: ' + ('0' if not i['out'] else '1-3' if len(i['out']) <= 3 else '4+'))
        if c['precise'] and i['ncand'] > len(i['out']):
            chk.tally('gd precise: some candidate dropped')
        if r == 6 and i['tie_fragile']:
            chk.tally('tolerated: tie decided by float rounding of coordinate sums')
            continue
        if r != 0:
            bad.append((i, r))
    return infos, bad


def report_gd(chk, bad):
    for i, r in bad:
        c = i['case']
        chk.violation('grey_dilation:%s' % CODES.get(r, r),
                      'grey_dilation(image %s %s, separation=%s, percentile=%s, margin=%s, precise=%s): %s; implementation returned %s'
                      % (c['image'].shape, c['image'].dtype, c['separation'], c['percentile'], c['margin'], c['precise'], CODES.get(r, r), i['out'][:8]),
                      dict(kind='gd', code=r, case=jsonable(c), implementation_output=[list(p) for p in i['out']], threshold=i['thr']))


def shrink_gd(chk, bad):
    """one or two rounds of cropping, keeping the same violation code; best effort"""
    out = []
    for i, r in bad[:3]:
        c = i['case']
        for rnd in range(4):
            img = c['image']
            cands = []
            for ax in range(img.ndim):
                n = img.shape[ax]
                if n <= 1:
                    continue
                for sl in (slice(0, n // 2 + 1), slice(n // 2, n), slice(0, n - 1), slice(1, n)):
                    idx = [slice(None)] * img.ndim
                    idx[ax] = sl
                    cc = dict(c); cc['image'] = np.ascontiguousarray(img[tuple(idx)])
                    if cc['image'].shape != img.shape:
                        cands.append(cc)
            if not cands:
                break
            sub = common.Check.__new__(common.Check)   # throw-away accounting
            sub.__dict__.update(coverage=dict(evaluations=0), violations=[], _known=[], known_hits=[], _distinct=set(), work=chk.work)
            try:
                infos, b2 = evaluate_gd(sub, cands, tag='shrink%d' % rnd)
            except Exception:
                break
            b2 = [(ii, rr) for ii, rr in b2 if rr == r]
            if not b2:
                break
            b2.sort(key=lambda t: t[0]['case']['image'].size)
            i, c = b2[0][0], b2[0][0]['case']
        out.append((i, r))
    return out + bad[3:]


# ------------------------------------------- second harness: where_close
def gen_wc(rng, tier):
    nd = rng.choice([1, 2, 2, 2, 3])
    n = rng.choice([0, 1, 2, 3, 5, 8, 12, 20 if tier == 'quick' else 30])
    q = rng.choice([1, 1, 2, 4])
    span = rng.choice([3, 6, 12])
    pos = np.array([[rng.randint(0, span * q) / q for _ in range(nd)] for _ in range(n)], dtype=float).reshape(n, nd)
    if n >= 2 and rng.random() < 0.3:
        pos[rng.randrange(n)] = pos[rng.randrange(n)]          # exact duplicate
    sp = [1, 1.5, 2, 2.5, 3, 4, 5, 0.75]
    sep = rng.choice(sp) if rng.random() < 0.5 else tuple(rng.choice(sp) for _ in range(nd))
    if rng.random() < 0.04:
        sep = 0 if rng.random() < 0.5 else tuple([0] + [2] * (nd - 1))
    r = rng.random()
    inten = None if r < 0.3 else [rng.choice([1, 1, 2, 3]) for _ in range(n)] if r < 0.7 else [rng.randint(0, 1000) for _ in range(n)] if r < 0.85 else \
        [rng.choice([10 ** 6, 10 ** 9]) + rng.randint(0, 3) for _ in range(n)]     # nearly (not exactly) equal brightness
    return dict(pos=pos, separation=sep, intensity=inten, frame=rng.random() < 0.2)


def wc_jsonable(w):
    return dict(pos=w['pos'].tolist(), separation=w['separation'], intensity=w['intensity'], frame=w['frame'])


def wc_from_json(j):
    sep = j['separation']
    p = np.array(j['pos'], dtype=float)
    return dict(pos=p.reshape(len(j['pos']), -1) if len(j['pos']) else p.reshape(0, 2), separation=tuple(sep) if isinstance(sep, list) else sep,
                intensity=j['intensity'], frame=j['frame'])


def evaluate_wc(chk, ws):
    import pandas as pd
    from trackpy.find import where_close, drop_close
    items, terms, dterms = [], [], []
    for w in ws:
        pos, nd = w['pos'], w['pos'].shape[1]
        sep = sep_tuple(w['separation'], nd)
        arg = pd.DataFrame(pos, columns=list('xyz')[:nd]) if w['frame'] else pos
        try:
            out = [int(x) for x in where_close(arg, w['separation'], w['intensity'])]
            kept = np.asarray(drop_close(pos, w['separation'], w['intensity']), dtype=float).reshape(-1, nd)
        except Exception as e:
            chk.violation('where_close:exception', 'where_close/drop_close raised %r' % (e,), dict(kind='wc', case=wc_jsonable(w)))
            continue
        chk.count(('wc', wc_jsonable(w)), len(out) > 0)
        chk.tally('wc intensity=' + ('None' if w['intensity'] is None else 'given'))
        chk.tally('wc dropped: ' + ('0' if not out else '1+'))
        if any(s == 0 for s in sep) or len(pos) == 0:
            chk.tally('wc zero separation / empty')
            if out != [] or len(kept) != len(pos):
                chk.violation('where_close:zero separation or empty input must drop nothing', 'where_close returned %s' % out, dict(kind='wc', case=wc_jsonable(w)))
            continue
        fs = [Fraction(s) for s in sep]
        fragile = skip = False
        fsum = np.sum(pos / np.array(sep, dtype=float), 1)
        for i in range(len(pos)):
            for j in range(i + 1, len(pos)):
                d2 = sum((Fraction(pos[i][k]) - Fraction(pos[j][k])) ** 2 / fs[k] ** 2 for k in range(nd))
                if Fraction(999999, 1000000) <= d2 < 1:
                    skip = True
                if d2 < 1 and (w['intensity'] is None or w['intensity'][i] == w['intensity'][j]):
                    ex = sum((Fraction(pos[i][k]) - Fraction(pos[j][k])) / fs[k] for k in range(nd))
                    fl = fsum[i] - fsum[j]
                    if (ex > 0) != (fl > 0) or (ex < 0) != (fl < 0):
                        fragile = True
        if skip:
            chk.tally('skipped: a pair within 1e-6 of the separation boundary')
            continue
        pt = clist([clist([cQ(float(x)) for x in p]) for p in pos.tolist()])
        it = "(@None (list Z))" if w['intensity'] is None else "(Some (%s)%%Z)" % clist([str(int(x)) for x in w['intensity']])
        ot = "(%s)%%nat" % clist([str(x) for x in out]) if out else "(@nil nat)"
        kt = clist([clist([cQ(float(x)) for x in p]) for p in kept.tolist()]) if len(kept) else "(@nil (list Q))"
        terms.append("((%s : list (list Q)), %s, %s, %s)" % (pt, cqlist(sep), it, ot))
        dterms.append("((%s : list (list Q)), %s, %s, (%s : list (list Q)))" % (pt, cqlist(sep), it, kt))
        items.append((w, out, fragile))
    res = common.coq_eval_lists(chk.work, IMPORTS, WC_FUNC, terms, tag='wc')
    dres = common.coq_eval_lists(chk.work, IMPORTS, DC_FUNC, dterms, tag='dc')
    for (w, out, fragile), r, d in zip(items, res, dres):
        if r == 14 and fragile:
            chk.tally('tolerated: tie decided by float rounding of coordinate sums')
            continue
        if r == 0 and d != 0 and fragile:
            continue
        code = r if r != 0 else d
        if code != 0:
            chk.violation('where_close:%s' % CODES.get(code, code),
                          'where_close(%d points, separation=%s, intensity %s): %s; returned %s' % (
                              len(w['pos']), w['separation'], 'given' if w['intensity'] is not None else 'None', CODES.get(code, code), out),
                          dict(kind='wc', code=code, case=wc_jsonable(w), implementation_output=out))


def wc_corpus():
    A = lambda x: np.array(x, dtype=float)
    return [
        dict(pos=A([[0, 0], [1, 0], [5, 5]]), separation=2, intensity=[1, 2, 3], frame=False),
        dict(pos=A([[0, 0], [1, 0], [5, 5]]), separation=2, intensity=[2, 2, 3], frame=False),
        dict(pos=A([[1, 2], [2, 1]]), separation=2, intensity=[2, 2], frame=False),
        dict(pos=A([[1, 2], [2, 1]]), separation=2, intensity=None, frame=True),
        dict(pos=A([[1, 1], [1, 1]]), separation=2, intensity=None, frame=False),
        dict(pos=A([[0, 0], [3, 4]]), separation=5, intensity=[1, 2], frame=False),       # exactly at separation: not close
        dict(pos=A([[0, 0], [3, 4]]), separation=5.25, intensity=[1, 2], frame=False),
        dict(pos=A([[0, 0], [0, 3], [0, 6]]), separation=4, intensity=[1, 2, 3], frame=False),   # chain
        dict(pos=A([[0, 0], [0, 3], [0, 6]]), separation=4, intensity=[3, 2, 3], frame=False),
        dict(pos=A([[0, 0], [0, 3]]), separation=(1, 4), intensity=[5, 4], frame=False),
        dict(pos=A([[0, 0], [3, 0]]), separation=(1, 4), intensity=[5, 4], frame=False),
        dict(pos=A([[0, 0, 0], [1, 1, 1]]), separation=0, intensity=None, frame=False),
        dict(pos=A([]).reshape(0, 2), separation=3, intensity=None, frame=False),
    ]


# ------------------------------------------------------------------ run
def exhaustive(chk):
    cs = []
    for vals in itertools.product(range(3), repeat=9):
        cs.append(dict(kind='exhaustive3x3', image=np.array(vals, dtype=np.uint8).reshape(3, 3), separation=1.5, percentile=50, margin=0, precise=True))
    for vals in itertools.product(range(3), repeat=8):
        cs.append(dict(kind='exhaustive2x2x2', image=np.array(vals, dtype=np.uint8).reshape(2, 2, 2), separation=2, percentile=30, margin=0, precise=True))
    return cs


def run(chk):
    common.quiet_trackpy()
    if not build(chk):
        return          # not even the hand-written model builds: reported, nothing can be executed
    rng = chk.rng
    n = 220 if chk.tier == 'quick' else 3000
    cases = corpus() + [gen_case(rng, chk.tier) for _ in range(n)]
    if chk.tier != 'quick':
        cases += exhaustive(chk)
    infos, bad = evaluate_gd(chk, cases)
    if bad:
        try:
            bad = shrink_gd(chk, bad)
        except Exception:
            pass
    report_gd(chk, bad)
    for i in infos[:2] + infos[len(corpus()):len(corpus()) + 2]:
        chk.sample(dict(case=jsonable(i['case']), implementation_output=[list(p) for p in i['out']], threshold=i['thr']))
    nw = 200 if chk.tier == 'quick' else 3000
    evaluate_wc(chk, wc_corpus() + [gen_wc(rng, chk.tier) for _ in range(nw)])
    chk.coverage['rule'] = (
        "corpus of hand-made tricky images first; then generated images (1-D <= 40, 2-D <= 24x24 (32 thorough), 3-D <= 8^3 (10^3): few grey levels, blobs, "
        "sparse, constant, all-zero, wide range, ramps, plateaus, bright pixels at the border; uint8/uint16/int16/int32/int64 incl. negative pixels, "
        "float64/float32 incl. negative values) x separation scalar/per-axis (odd and even box sizes) x percentile 0-100 x margin None/0/1-3/tuple/"
        ">=shape/2 x precise; thorough adds all 3x3 images and all 2x2x2 images over {0,1,2}.  The implementation's sorted output is compared with the "
        "model inside Coq (set equality for precise=False; subset+separation+justification and equality with the model for precise=True).  "
        "Second harness: where_close/drop_close on explicit point sets (quarter-pixel lattice, duplicates, ties, DataFrame input, zero separation).  "
        "non-trivial = image with > 1 pixel and >= 1 candidate maximum / point set with >= 1 dropped feature; distinct by content hash")
    chk.assumptions += [
        "Gen/find.v is produced from the current trackpy/find.py by tools/py2coq_find.py (trusted, fail-closed; subset, conventions and the list of numpy / scipy primitives in its "
        "docstring and in Model/PyFind.v); the C06_gen_* theorems are about that text (separations >= 0; np.percentile a parameter; int(2*s/sqrt(ndim)) as the exact integer); "
        "validate_tuple is taken as the identity on the tuple handed over, convert_to_int (trackpy/preprocessing.py) is not translated and stays tied by the float cases of this run",
        "scipy.ndimage.grey_dilation(image, size, mode='constant') = max over the reflected box [i-(s-1)//2, i+s//2] with zeros outside (modelled; exercised on every case)",
        "np.percentile is trusted: the harness recomputes the threshold with np.percentile on the non-zero pixels and hands it to the model as an exact rational",
        "cKDTree.query_pairs(1-1e-7) = all pairs at rescaled distance < 1; cases with a pair within 1e-6 of the boundary are skipped and counted",
        "float images: floor(255*max(v,0)/vmax) exactly; pixels whose exact value is within 8 ulp (relative, of the image dtype) of an integer may come out one lower in float "
        "arithmetic -- then the implementation's own 8-bit image is handed to the model (counted as 'rescale borderline')",
        "int(2*s/sqrt(ndim)) computed in floats equals the exact floor (cases where it does not are skipped and counted); box size >= 1 (separation >= sqrt(ndim)/2)",
        "ties between coordinate sums that float rounding decides differently from exact arithmetic are tolerated and counted",
        "NaN/inf pixels and empty images are outside the model",
    ]


def replay(chk, path):
    common.quiet_trackpy()
    if not build(chk):
        return
    r = json.load(open(path))['replay']
    if r.get('kind') == 'gd':
        c = from_json(r['case'])
        infos, bad = evaluate_gd(chk, [c])
        for i in infos:
            print('replay: implementation returned', i['out'], 'threshold', i['thr'])
        for i, code in bad:
            print('replay: monitor code', code, CODES.get(code))
        report_gd(chk, bad)
    elif r.get('kind') == 'wc':
        evaluate_wc(chk, [wc_from_json(r['case'])])
    else:
        print('replay: nothing executable in this replay file (proof/correspondence breakage): see its log field')
