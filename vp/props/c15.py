"""C15 -- the least-squares objective's gradient and parameter packing are exact.

Tie.
 * route T: tools/py2coq_fitfun.py regenerates coq/Gen/fitfun.v from the
   CURRENT source of r2_*/dr2_*/gauss/ring fun/dfun on every run, and
   tools/py2coq_fitpack.py regenerates coq/Gen/fitpack.v from the CURRENT source
   of vect_from_params, vect_to_params, MODE_DICT, the param_mode / self.modes
   block of FitFunctions.__init__ and the closures of get_residual; the cone of
   Properties/C15.v (Coquelicot derivative proofs, generated = hand-written model)
   is rebuilt against both.
   A translation error or a proof that no longer closes is a violation; the
   numeric searches below then supply the concrete failing parameter vector.
 * route C (packing): trackpy's vect_from_params / vect_to_params and the Coq
   model Model/Pack.v (instantiated at Z in Model/PackCheck.v) run on the same
   integer-valued arrays: all mode vectors for small n_vars x random groupings
   x operations, plus a malformed stream (missing groups, empty / overlapping /
   out-of-range groups, short and long vectors, zero rows); results and
   raise/return behaviour compared exactly inside Coq.
 * monitor (packing): both round trips evaluated on the implementation's own
   outputs (float arrays, exact comparison: only copies are involved).
 * monitor (gradient): jacobian(vect) of FitFunctions.get_residual against
   central differences of residual(vect) on generated sub-images (prepare_subimage)
   for gauss/ring x 2-D/3-D x iso/anisotropic x random mode assignments x cluster
   layouts; and each d-function against central differences of its function.
   Constant columns carry per-feature values, the background included: the
   family 'constant background differing inside a cluster' (background='const',
   a cluster of >= 2 features whose constant background values differ) checks
   that both closures read the cluster's background level from the same place.
   The family 'evaluation protocol' drives ONE pair of closures through generated
   call sequences (work array updated in place, views, fresh arrays, repeated
   points, residual/jacobian in any order, twin closures of the same FitFunctions
   object in between, returned gradient overwritten, in-place difference loop):
   every call must equal a single evaluation of brand-new closures at a fresh
   copy of the vector -- the gradient is the derivative of the residual at the
   vector it is GIVEN, whatever was evaluated before and whatever array holds it.
"""
import os, sys, json, subprocess, hashlib, itertools, math
import numpy as np
import common
from common import cnat, cZ, clist, cN

IMPORTS = "From TP Require Import Model.Pack Model.PackCheck."
PACK_CODES = {0: 'ok', 1: 'packed vector differs from the model', 2: 'model raises but vect_from_params returned',
              3: 'vect_from_params raised but the model returns'}
UNPACK_CODES = {0: 'ok', 1: 'unpacked array differs from the model', 2: 'model raises but vect_to_params returned',
                3: 'vect_to_params raised but the model returns'}
OPS = {0: None, 1: np.sum, 2: np.min, 3: np.max}
OPNAMES = {0: 'None', 1: 'np.sum', 2: 'np.min', 3: 'np.max'}
TRANSLATOR = os.path.join(common.VERIF, 'tools', 'py2coq_fitfun.py')
GEN = os.path.join(common.COQ, 'Gen', 'fitfun.v')


# ----------------------------------------------------------------------------
# translator / build
# ----------------------------------------------------------------------------
TRANSLATOR2 = os.path.join(common.VERIF, 'tools', 'py2coq_fitpack.py')
GEN2 = os.path.join(common.COQ, 'Gen', 'fitpack.v')
ROUTE_T = [(TRANSLATOR, GEN, 'Gen/fitfun.v', 'tools/py2coq_fitfun.py (a scalar model function left the translatable subset)'),
           (TRANSLATOR2, GEN2, 'Gen/fitpack.v', 'tools/py2coq_fitpack.py (vect_from_params / vect_to_params / FitFunctions.__init__ / '
                                                'get_residual left the translatable subset)')]


def regenerate_one(chk, translator, gen, label):
    """re-run one translator on the current source; returns (ok, text-or-log)"""
    rc, out = common.sh([sys.executable, translator, '--repo', common.REPO, '--stdout'], timeout=60)
    if rc != 0:
        return False, out
    with common.Lock(os.path.join(common.COQ, '.build.lock')):
        old = open(gen).read() if os.path.exists(gen) else None
        if old != out:
            os.makedirs(os.path.dirname(gen), exist_ok=True)
            tmp = gen + '.tmp%d' % os.getpid()
            with open(tmp, 'w') as f:
                f.write(out)
            os.replace(tmp, gen)
            chk.tally('%s rewritten (source differs from last run)' % label)
        else:
            chk.tally('%s unchanged' % label)
    return True, out


def regenerate(chk):
    """both translators; returns (ok, {gen path: text}, [(what, log)] of the failed ones)"""
    texts, failed = {}, []
    for translator, gen, label, what in ROUTE_T:
        ok, out = regenerate_one(chk, translator, gen, label)
        if ok:
            texts[gen] = out
        else:
            failed.append(('translation ' + what, out))
    return not failed, texts, failed


def ensure_packcheck(chk):
    """Model/PackCheck.vo is needed by the correspondence even when a calculus proof is broken"""
    def fresh(v):
        vo = os.path.join(common.COQ, v + 'o')
        return os.path.exists(vo) and os.path.getmtime(vo) >= os.path.getmtime(os.path.join(common.COQ, v))
    if fresh('Model/Pack.v') and fresh('Model/PackCheck.v'):
        return True
    with common.Lock(os.path.join(common.COQ, '.build.lock')):
        for v in ('Model/Pack.v', 'Model/PackCheck.v'):
            rc, out = common.sh('timeout 120 coqc -Q . TP %s' % v, timeout=150, cwd=common.COQ)
            if rc != 0:
                chk.proof_broken(v, out)
                return False
    return True


def build(chk):
    ok, texts, failed = regenerate(chk)
    if not ok:
        for what, log in failed:
            chk.proof_broken(what, log)
        chk.build = dict(obligations=0, discharged=0, assumptions=[], files=[], theorems=[])
        return False
    for attempt in range(3):
        b = chk.coq()
        if all(open(g).read() == t for g, t in texts.items()):
            break
        # another run (different TRACKPY_REPO) rewrote a generated file in between: redo
        chk.violations = [v for v in chk.violations if not v[0].startswith('proof:')]
        ok, texts, failed = regenerate(chk)
    for g, t in sorted(texts.items()):
        chk.notes.append('Gen/%s sha1 %s generated from %s' % (os.path.basename(g), hashlib.sha1(t.encode()).hexdigest()[:12], common.REPO))
    return bool(b['ok'])


# ----------------------------------------------------------------------------
# packing: generators
# ----------------------------------------------------------------------------
def random_partition(rng, n):
    idx = list(range(n))
    rng.shuffle(idx)
    k = rng.randint(1, max(1, n))
    groups = [[] for _ in range(k)]
    for j, i in enumerate(idx):
        groups[j % k if j < k else rng.randrange(k)].append(i)
    return [g for g in groups if g]


def gen_groups(rng, n, modes, malformed):
    """groups argument: list (per mode-3) of lists of index lists, or None"""
    maxmode = max(modes)
    if rng.random() < (0.15 if maxmode >= 3 else 0.4):
        return None
    ng = max(1, maxmode - 2)
    if malformed and rng.random() < 0.3 and ng > 0:
        ng = rng.randint(0, ng)           # missing groups -> ValueError
    gs = []
    for _ in range(ng):
        if n == 0:
            gt = []
        else:
            gt = random_partition(rng, n)
        if malformed and gt:
            r = rng.random()
            if r < 0.2:
                gt[rng.randrange(len(gt))] = []                                  # empty group
            elif r < 0.4:
                gt[rng.randrange(len(gt))].append(n + rng.randint(0, 2))          # out of range
            elif r < 0.6:
                gt.append([rng.randrange(n)])                                     # overlapping
            elif r < 0.7:
                gt.pop(rng.randrange(len(gt)))                                    # not covering
        gs.append(gt)
    return gs


def consistent_params(rng, n, modes, groups):
    """integer-valued params consistent with the modes (columns)"""
    cols = []
    for m in modes:
        if m in (0, 1):
            cols.append([rng.randint(-9, 9) for _ in range(n)])
        elif m == 2 or groups is None or m - 3 >= len(groups):
            v = rng.randint(-9, 9)
            cols.append([v] * n)
        else:
            c = [rng.randint(-9, 9) for _ in range(n)]
            for g in groups[m - 3]:
                v = rng.randint(-9, 9)
                for j in g:
                    if 0 <= j < n:
                        c[j] = v
            cols.append(c)
    return cols


def arbitrary_params(rng, n, modes):
    return [[rng.randint(-9, 9) for _ in range(n)] for _ in modes]


def packed_len(n, modes, groups):
    L = 0
    for m in modes:
        if m == 0:
            continue
        elif m == 1:
            L += n
        elif m == 2 or groups is None:
            L += 1
        elif m - 3 < len(groups):
            L += len(groups[m - 3])
    return L


def cgroups(groups):
    if groups is None:
        return '(None : groups_t)'
    return '(Some %s : groups_t)' % clist([clist([clist([cnat(j) for j in g]) for g in gt]) for gt in groups])


def ccols(cols):
    return '(%s : list (list Z))' % clist(['(%s : list Z)' % clist([cZ(v) for v in c]) for c in cols])


def to_arr(cols, n):
    a = np.zeros((n, len(cols)), dtype=np.float64)
    for i, c in enumerate(cols):
        a[:, i] = c
    return a


def as_int_list(a):
    a = np.asarray(a, dtype=np.float64)
    if not np.all(np.isfinite(a)) or not np.all(a == np.round(a)):
        return None
    return [int(v) for v in a.ravel()]


def run_pack(case):
    from trackpy.refine import least_squares as ls
    p = to_arr(case['cols'], case['n'])
    try:
        v = ls.vect_from_params(p, list(case['modes']), case['groups'], OPS[case['op']])
        v = np.asarray(v, dtype=np.float64)
        if v.ndim != 1:
            return ('bad', 'result is not 1-d')
        return ('ok', v)
    except Exception as e:
        return ('raise', repr(e))


def run_unpack(case):
    from trackpy.refine import least_squares as ls
    p = to_arr(case['cols'], case['n'])
    p_before = p.copy()
    try:
        r = ls.vect_to_params(np.array(case['vect'], dtype=np.float64), p, list(case['modes']), case['groups'])
        r = np.asarray(r, dtype=np.float64)
    except Exception as e:
        return ('raise', repr(e)), True
    return ('ok', r), bool(np.array_equal(p, p_before))


def pack_term(case, res):
    exp = '(None : option (list Z))'
    if res[0] == 'ok':
        exp = '(Some %s : option (list Z))' % clist([cZ(x) for x in as_int_list(res[1])])
    return '(%s, %s, %s, %s, %s)' % (cN(case['op']), cgroups(case['groups']), '(%s : list nat)' % clist([cnat(m) for m in case['modes']]),
                                     ccols(case['cols']), exp)


def unpack_term(case, res):
    exp = '(None : option (list (list Z)))'
    if res[0] == 'ok':
        r = res[1]
        exp = '(Some %s : option (list (list Z)))' % ccols([[int(v) for v in r[:, i]] for i in range(r.shape[1])])
    return '(%s, %s, %s, %s, %s, %s)' % (cgroups(case['groups']), cnat(case['n']), '(%s : list nat)' % clist([cnat(m) for m in case['modes']]),
                                         '(%s : list Z)' % clist([cZ(v) for v in case['vect']]), ccols(case['cols']), exp)


def mode_vectors(rng, tier):
    out = []
    full = 3 if tier == 'quick' else 5
    for k in range(1, full + 1):
        out += [list(t) for t in itertools.product(range(4), repeat=k)]
    if tier == 'quick':
        for k in (4, 5):
            out += [[rng.randrange(4) for _ in range(k)] for _ in range(60)]
    # custom group modes 4, 5 (groups[1], groups[2])
    for _ in range(40 if tier == 'quick' else 300):
        k = rng.randint(1, 5)
        out.append([rng.choice([0, 1, 2, 3, 4, 5]) for _ in range(k)])
    return out


def gen_pack_cases(rng, tier):
    cases = []
    reps = 2 if tier == 'quick' else 4
    for modes in mode_vectors(rng, tier):
        for _ in range(reps):
            malformed = rng.random() < 0.2
            n = rng.choice([0, 1, 1, 2, 3, 3, 4, 5, 6]) if malformed else rng.randint(1, 6)
            groups = gen_groups(rng, n, modes, malformed)
            op = rng.choice([0, 0, 1, 2, 3])
            consistent = rng.random() < 0.6
            cols = consistent_params(rng, n, modes, groups) if consistent else arbitrary_params(rng, n, modes)
            L = packed_len(n, modes, groups)
            r = rng.random()
            if malformed and r < 0.3:
                L = max(0, L - rng.randint(1, 2))
            elif malformed and r < 0.5:
                L += rng.randint(1, 2)
            vect = [rng.randint(-20, 20) for _ in range(L)]
            cases.append(dict(n=n, modes=modes, groups=groups, op=op, cols=cols, vect=vect, malformed=malformed,
                              consistent=consistent))
    return cases


def well_formed(case):
    """groups exist for every used mode, are non-empty, in range, pairwise disjoint"""
    n, groups = case['n'], case['groups']
    if len(case['vect']) != packed_len(n, case['modes'], groups):
        return False, False
    for m in case['modes']:
        if m >= 2 and (m == 2 or groups is None):
            if n == 0:
                return False, False
    cover = True
    if groups is not None:
        for m in set(case['modes']):
            if m >= 3:
                if m - 3 >= len(groups):
                    return False, False
                gt = groups[m - 3]
                flat = [j for g in gt for j in g]
                if any(len(g) == 0 for g in gt) or any(j >= n for j in flat) or len(set(flat)) != len(flat):
                    return False, False
                if set(flat) != set(range(n)):
                    cover = False
    return True, cover


def roundtrip_monitor(chk, case, rng):
    """both round trips on the implementation's own outputs (floats)"""
    from trackpy.refine import least_squares as ls
    wf, cover = well_formed(case)
    if not wf:
        return
    n, modes, groups = case['n'], list(case['modes']), case['groups']
    scale = lambda c: [v * 0.37 + 0.011 * (v % 3) for v in c]
    # pack(unpack v) = v, every operation that returns the common value
    v = np.array([x * 0.73 + 0.1 for x in case['vect']], dtype=np.float64)
    p0 = to_arr([scale(c) for c in case['cols']], n)
    try:
        P = ls.vect_to_params(v, p0, modes, groups)
        for opc in (0, 2, 3):
            v2 = np.asarray(ls.vect_from_params(P, modes, groups, OPS[opc]), dtype=np.float64)
            if v2.shape != v.shape or not np.array_equal(v2, v):
                chk.violation('packing: vect_from_params(vect_to_params(v)) != v',
                              'pack(unpack(v)) != v (operation=%s): v=%s got %s' % (OPNAMES[opc], v.tolist(), v2.tolist()),
                              dict(kind='roundtrip', which='pack_unpack', case=jcase(case)))
                break
        const = [i for i, m in enumerate(modes) if m == 0]
        if const and not np.array_equal(P[:, const], p0[:, const]):
            chk.violation('packing: vect_to_params changed a constant column', 'constant column modified',
                          dict(kind='roundtrip', which='const', case=jcase(case)))
        chk.tally('monitor pack(unpack v)=v')
    except Exception as e:
        chk.violation('packing: round trip raised on well-formed input', 'pack(unpack(v)) raised %r' % e,
                      dict(kind='roundtrip', which='pack_unpack', case=jcase(case)))
    # unpack(pack p) = p for consistent p and covering groups
    if case['consistent'] and cover:
        p = to_arr([scale(c) for c in case['cols']], n)
        other = p.copy()
        for i, m in enumerate(modes):
            if m != 0:
                other[:, i] = -123.25
        try:
            for opc in (0, 2, 3):
                vv = ls.vect_from_params(p, modes, groups, OPS[opc])
                q = ls.vect_to_params(vv, other, modes, groups)
                if q.shape != p.shape or not np.array_equal(q, p):
                    chk.violation('packing: vect_to_params(vect_from_params(p)) != p',
                                  'unpack(pack(p)) != p (operation=%s)' % OPNAMES[opc],
                                  dict(kind='roundtrip', which='unpack_pack', case=jcase(case)))
                    break
            chk.tally('monitor unpack(pack p)=p')
        except Exception as e:
            chk.violation('packing: round trip raised on well-formed input', 'unpack(pack(p)) raised %r' % e,
                          dict(kind='roundtrip', which='unpack_pack', case=jcase(case)))


def jcase(case):
    return dict(n=case['n'], modes=list(case['modes']), groups=case['groups'], op=case['op'], cols=case['cols'],
                vect=case['vect'], malformed=case.get('malformed', False), consistent=case.get('consistent', False))


def packing_phase(chk, cases):
    pterms, pcases, uterms, ucases = [], [], [], []
    for case in cases:
        res = run_pack(case)
        if res[0] == 'bad' or (res[0] == 'ok' and as_int_list(res[1]) is None):
            chk.violation('packing: vect_from_params returned a non-integer / malformed vector on integer input',
                          'vect_from_params output malformed: %r' % (res[1],), dict(kind='pack', case=jcase(case)))
        else:
            pterms.append(pack_term(case, res)); pcases.append((case, res))
        ures, untouched = run_unpack(case)
        if not untouched:
            chk.violation('packing: vect_to_params modified its params argument in place',
                          'params argument modified in place', dict(kind='unpack', case=jcase(case)))
        if ures[0] == 'ok' and (ures[1].shape != (case['n'], len(case['modes'])) or as_int_list(ures[1]) is None):
            chk.violation('packing: vect_to_params returned a wrong shape', 'shape %s' % (ures[1].shape,),
                          dict(kind='unpack', case=jcase(case)))
        else:
            uterms.append(unpack_term(case, ures)); ucases.append((case, ures))
        chk.tally('pack raises' if res[0] == 'raise' else 'pack returns')
        chk.tally('unpack raises' if ures[0] == 'raise' else 'unpack returns')
        chk.tally('groups=None' if case['groups'] is None else 'groups given')
        if case['malformed']:
            chk.tally('malformed stream')
        roundtrip_monitor(chk, case, chk.rng)
    pres = common.coq_eval_lists(chk.work, IMPORTS, 'check_pack', pterms, tag='pack')
    ures_ = common.coq_eval_lists(chk.work, IMPORTS, 'check_unpack', uterms, tag='unpack')
    for (case, res), code in zip(pcases, pres):
        chk.count(('pack', jcase(case)), len(case['modes']) >= 2 and any(m >= 2 for m in case['modes']))
        if code != 0:
            chk.violation('packing: vect_from_params: ' + PACK_CODES.get(code, str(code)),
                          'vect_from_params(modes=%s, groups=%s, operation=%s): %s; implementation: %s' % (
                              case['modes'], case['groups'], OPNAMES[case['op']], PACK_CODES.get(code), describe(res)),
                          dict(kind='pack', code=code, case=jcase(case)))
    for (case, res), code in zip(ucases, ures_):
        chk.count(('unpack', jcase(case)), len(case['modes']) >= 2 and any(m >= 2 for m in case['modes']))
        if code != 0:
            chk.violation('packing: vect_to_params: ' + UNPACK_CODES.get(code, str(code)),
                          'vect_to_params(modes=%s, groups=%s, vect=%s): %s; implementation: %s' % (
                              case['modes'], case['groups'], case['vect'], UNPACK_CODES.get(code), describe(res)),
                          dict(kind='unpack', code=code, case=jcase(case)))


def describe(res):
    if res[0] == 'ok':
        return 'returned %s' % np.asarray(res[1]).tolist()
    return 'raised %s' % res[1]


PACK_CORPUS = [
    # cluster background, var signal, global y, const size; clusters {0,2},{1}
    dict(n=3, modes=[3, 1, 2, 0], groups=[[[0, 2], [1]]], op=0, cols=[[7, 9, 7], [1, 2, 3], [5, 5, 5], [4, 6, 8]],
         vect=[7, 9, 1, 2, 3, 5], malformed=False, consistent=True),
    # groups=None: cluster mode treated as global
    dict(n=2, modes=[3, 1, 1, 0], groups=None, op=1, cols=[[2, 2], [1, 5], [3, 4], [9, 9]], vect=[4, 1, 5, 3, 4],
         malformed=False, consistent=True),
    # np.sum over groups (what jacobian() uses), unordered groups
    dict(n=4, modes=[3, 3, 2], groups=[[[3, 0], [2, 1]]], op=1, cols=[[1, 2, 3, 4], [5, 6, 7, 8], [1, 1, 1, 1]],
         vect=[1, 2, 3, 4, 5], malformed=False, consistent=False),
    # custom mode 4 uses groups[1]
    dict(n=3, modes=[4, 3], groups=[[[0], [1, 2]], [[0, 1, 2]]], op=0, cols=[[4, 4, 4], [1, 2, 2]], vect=[4, 1, 2],
         malformed=False, consistent=True),
    # missing groups for mode 4
    dict(n=2, modes=[4, 1], groups=[[[0, 1]]], op=0, cols=[[1, 1], [2, 3]], vect=[1, 2, 3], malformed=True, consistent=True),
    # short vector: numpy broadcasts a length-1 slice in mode 1
    dict(n=3, modes=[0, 1], groups=None, op=0, cols=[[1, 2, 3], [4, 5, 6]], vect=[7], malformed=True, consistent=True),
    dict(n=3, modes=[1, 2], groups=None, op=0, cols=[[1, 2, 3], [4, 4, 4]], vect=[7, 8, 9], malformed=True, consistent=True),
]


# ----------------------------------------------------------------------------
# gradient: scalar functions
# ----------------------------------------------------------------------------
GEOMS = {('iso', 2): ('r2_isotropic_2d', 'dr2_isotropic_2d', 3), ('iso', 3): ('r2_isotropic_3d', 'dr2_isotropic_3d', 4),
         ('aniso', 2): ('r2_anisotropic_2d', 'dr2_anisotropic_2d', 4), ('aniso', 3): ('r2_anisotropic_3d', 'dr2_anisotropic_3d', 6)}


def fd_close(an, fd, scale, rtol=2e-6):
    return abs(an - fd) <= rtol * (abs(an) + abs(fd) + scale)


def check_scalar_functions(chk, nprng, n):
    from trackpy.refine import least_squares as ls
    for (kind, ndim), (fn, dfn, nslice) in GEOMS.items():
        f, df = getattr(ls, fn), getattr(ls, dfn)
        fsafe = getattr(ls, fn + '_safe')
        for _ in range(n):
            npix = 6
            mesh = nprng.uniform(-6, 6, (ndim, npix))
            p = np.concatenate([nprng.uniform(0.5, 5, 2), nprng.uniform(-3, 3, ndim), nprng.uniform(0.8, 4, nslice - ndim),
                                nprng.uniform(0.1, 1, 1)])
            an = np.asarray(df(mesh.copy(), p.copy()), dtype=float)
            rec = dict(kind='fun-deriv', function=dfn, mesh=mesh.tolist(), p=p.tolist())
            chk.count(('dr2', dfn, p.tolist()), True)
            if an.shape != (nslice, npix):
                chk.violation('gradient: %s has the wrong shape' % dfn, '%s returned shape %s' % (dfn, an.shape), rec)
                continue
            base = np.asarray(f(mesh.copy(), p.copy()), dtype=float)
            for k in range(nslice):
                h = 1e-5
                pp, pm = p.copy(), p.copy()
                pp[2 + k] += h; pm[2 + k] -= h
                fd = (np.asarray(f(mesh.copy(), pp)) - np.asarray(f(mesh.copy(), pm))) / (2 * h)
                bad = [j for j in range(npix) if not fd_close(an[k, j], fd[j], abs(base[j]))]
                if bad:
                    j = bad[0]
                    chk.violation('gradient: %s row %d is not d %s / d p[%d]' % (dfn, k, fn, 2 + k),
                                  '%s row %d = %.10g but central difference of %s wrt p[%d] = %.10g at pixel %s, p=%s' % (
                                      dfn, k, an[k, j], fn, 2 + k, fd[j], mesh[:, j].tolist(), p.tolist()),
                                  dict(rec, row=k, pixel=j))
                    break
            # the _safe variant: same values where not NaN, NaN exactly where the unscaled distance < 1
            s = np.asarray(fsafe(mesh.copy(), p.copy()), dtype=float)
            d2 = ((mesh - p[2:2 + ndim, None]) ** 2).sum(0)
            if abs(d2 - 1).min() > 1e-9:
                if not np.array_equal(np.isnan(s), d2 < 1) or not np.allclose(s[~np.isnan(s)], base[~np.isnan(s)], rtol=1e-12, atol=0):
                    chk.violation('gradient: %s_safe disagrees with %s away from the centre' % (fn, fn),
                                  '%s_safe=%s, %s=%s, dist2=%s' % (fn, s.tolist(), fn, base.tolist(), d2.tolist()),
                                  dict(rec, function=fn + '_safe'))
    for name, nextra in (('gauss', 0), ('ring', 1)):
        fun, dfun = getattr(ls, name + '_fun'), getattr(ls, name + '_dfun')
        for _ in range(n):
            ndim = int(nprng.integers(2, 4))
            r2 = nprng.uniform(0.05 if name == 'gauss' else 0.3, 6, 6)
            p = nprng.uniform(0.15, 0.9, nextra)
            rec = dict(kind='fun-deriv', function=name + '_dfun', r2=r2.tolist(), p=p.tolist(), ndim=ndim)
            chk.count((name + '_dfun', r2.tolist(), p.tolist(), ndim), True)
            model, deriv = dfun(r2.copy(), p.copy(), ndim)
            model = np.asarray(model, dtype=float)
            base = np.asarray(fun(r2.copy(), p.copy(), ndim), dtype=float)
            if len(deriv) != nextra + 1:
                chk.violation('gradient: %s_dfun returns the wrong number of derivatives' % name, 'len(deriv)=%d' % len(deriv), rec)
                continue
            if not np.allclose(model, base, rtol=1e-13, atol=0):
                chk.violation('gradient: %s_dfun[0] differs from %s_fun' % (name, name), 'model %s vs %s' % (model.tolist(), base.tolist()), rec)
                continue
            h = 1e-6
            fds = [(np.asarray(fun(r2 + h, p.copy(), ndim)) - np.asarray(fun(r2 - h, p.copy(), ndim))) / (2 * h)]
            for k in range(nextra):
                pp, pm = p.copy(), p.copy()
                pp[k] += h; pm[k] -= h
                fds.append((np.asarray(fun(r2.copy(), pp, ndim)) - np.asarray(fun(r2.copy(), pm, ndim))) / (2 * h))
            for k, fd in enumerate(fds):
                an = np.asarray(deriv[k], dtype=float)
                bad = [j for j in range(len(r2)) if not fd_close(an[j], fd[j], abs(base[j]) + 1e-9, rtol=2e-5)]
                if bad:
                    j = bad[0]
                    wrt = 'r2' if k == 0 else 'p[%d]' % (k - 1)
                    chk.violation('gradient: %s_dfun derivative %d is not d %s_fun / d %s' % (name, k, name, wrt),
                                  '%s_dfun deriv[%d]=%.10g but central difference wrt %s = %.10g at r2=%.6g p=%s ndim=%d' % (
                                      name, k, an[j], wrt, fd[j], r2[j], p.tolist(), ndim), dict(rec, row=k, pixel=j))
                    break


# ----------------------------------------------------------------------------
# gradient: residual / jacobian closures
# ----------------------------------------------------------------------------
MODES = ['const', 'var', 'global', 'cluster']


def gen_problem(rng, tier):
    fit = rng.choice(['gauss', 'ring'])
    ndim = rng.choice([2, 2, 3])
    iso = rng.random() < 0.5
    ncl = rng.choice([1, 1, 2, 3])
    sizes = [rng.choice([1, 1, 2, 3]) for _ in range(ncl)]
    pm = dict(signal=rng.choice(MODES), background=rng.choice(['const', 'global', 'cluster', 'cluster', 'var']))
    if rng.random() < 0.6:
        pm['pos'] = rng.choice(MODES)
    else:
        for c in ['z', 'y', 'x'][-ndim:]:
            if rng.random() < 0.7:
                pm[c] = rng.choice(MODES)
    if iso or rng.random() < 0.5:
        pm['size'] = rng.choice(MODES)
    else:
        for c in ['z', 'y', 'x'][-ndim:]:
            pm['size_' + c] = rng.choice(MODES)
    if fit == 'ring':
        pm['thickness'] = rng.choice(MODES)
    radius = [rng.choice([3, 4, 5]) for _ in range(ndim)] if not iso else [rng.choice([3, 4, 5])] * ndim
    if ndim == 3:
        radius = [min(r, 4) for r in radius]
    use_groups = ncl > 1 or rng.random() < 0.6
    cfg = dict(fit=fit, ndim=ndim, iso=iso, cluster_sizes=sizes, param_mode=pm, radius=radius, use_groups=use_groups,
               norm=rng.choice([1.0, 1.0, 7.5, 1e-3]), seed=rng.randrange(1 << 30))
    if pm['background'] == 'const':
        cfg['bg_style'] = rng.choice(BG_STYLES)
    return cfg


BG_STYLES = ['independent', 'wide', 'first differs', 'last differs', 'one differs', 'equal']


def const_background(nprng, style, col, groups0):
    """values of a constant (mode 'const') background column, per feature.
    equal: one value per cluster; independent: every feature its own value in [0.5, 5); wide: its own value in
    [0, 25) (as large as the signal / the image noise); first / last / one differs: the features of a cluster share
    one value except its first / last / one random member (tells 'first row', 'last row', 'mean', 'min', 'max' of
    the cluster's column apart)."""
    col = np.array(col, dtype=float)
    if style == 'independent':
        return col
    if style == 'wide':
        return nprng.uniform(0, 25, len(col))
    if style == 'equal':                 # no draws: replay files written before the styles existed stay reproducible
        for g in groups0:
            col[g] = col[g[0]]
        return col
    for g in groups0:
        base = col[g[0]]
        delta = nprng.uniform(0.8, 6.0)
        other = base - delta if (nprng.random() < 0.5 and base - delta >= 0) else base + delta
        col[g] = base
        if len(g) >= 2:
            if style == 'first differs':
                col[g[0]] = other
            elif style == 'last differs':
                col[g[-1]] = other
            elif style == 'one differs':
                col[g[int(nprng.integers(0, len(g)))]] = other
    return col


def gen_problem_const_bg(rng, tier):
    """family 'constant background differing inside a cluster': background held constant (param_mode
    background='const', never the default), at least one cluster of >= 2 overlapping features, and the per-feature
    constant values differ inside it; everything else (model, geometry, other modes, grouping, norm) as in gen_problem
    but with at least one fitted non-background parameter so that the vector is not empty."""
    cfg = gen_problem(rng, tier)
    pm = cfg['param_mode']
    pm['background'] = 'const'
    sizes = cfg['cluster_sizes']
    if max(sizes) < 2:
        sizes[rng.randrange(len(sizes))] = rng.choice([2, 2, 3, 4])
    coords = ['z', 'y', 'x'][-cfg['ndim']:]
    pos_fitted = pm['pos'] != 'const' if 'pos' in pm else any(pm.get(c, 'var') != 'const' for c in coords)
    other_fitted = any(v != 'const' for k, v in pm.items() if k not in ['background', 'pos'] + coords)
    if not (pos_fitted or other_fitted):
        pm['signal'] = rng.choice(MODES[1:])        # empty optimisation vector: nothing to differentiate
    cfg['bg_style'] = rng.choice(BG_STYLES[:5])
    return cfg


def build_problem(cfg):
    """deterministic from cfg: image, coords, params consistent with the modes"""
    import warnings
    from trackpy.refine import least_squares as ls
    nprng = np.random.default_rng(cfg['seed'])
    ndim, iso, fit = cfg['ndim'], cfg['iso'], cfg['fit']
    with warnings.catch_warnings():
        warnings.simplefilter('ignore')
        ff = ls.FitFunctions(fit, ndim, iso, dict(cfg['param_mode']))
    radius = tuple(cfg['radius'])
    ncl = len(cfg['cluster_sizes'])
    shape = tuple(int(2 * r + 8) for r in radius)
    shape = (shape[0] * ncl,) + shape[1:]
    image = nprng.uniform(0, 20, shape)
    coords, groups0 = [], []
    for c, sz in enumerate(cfg['cluster_sizes']):
        base = np.array([radius[0] + 4 + c * (2 * radius[0] + 8)] + [radius[d] + 4 for d in range(1, ndim)], dtype=float)
        idx = []
        for k in range(sz):
            off = nprng.uniform(-1, 1, ndim) * np.array(radius) * (0.0 if k == 0 else 0.6)
            pos = base + off + nprng.uniform(-0.45, 0.45, ndim)
            idx.append(len(coords)); coords.append(pos)
        groups0.append(idx)
    coords = np.array(coords)
    n = len(coords)
    # ring model drops pixels closer than 1 px to a centre: keep every pixel away from that boundary
    if fit == 'ring':
        for _ in range(50):
            grid = np.indices(shape).reshape(ndim, -1).T
            ok = True
            for i in range(n):
                d2 = ((grid - coords[i]) ** 2).sum(1)
                if np.abs(d2 - 1).min() < 2e-3:
                    coords[i] += nprng.uniform(-0.05, 0.05, ndim); ok = False
            if ok:
                break
    sub = [ls.prepare_subimage(coords[g], image, radius) for g in groups0]
    images, meshes, masks = [s[0] for s in sub], [s[1] for s in sub], [s[2] for s in sub]
    groups = [groups0] if cfg['use_groups'] else None
    modes = ff.modes
    params = np.zeros((n, len(ff.params)))
    for j, name in enumerate(ff.params):
        if name == 'background':
            col = nprng.uniform(0.5, 5, n)
        elif name == 'signal':
            col = nprng.uniform(5, 30, n)
        elif name in ff.pos_columns:
            col = coords[:, ff.pos_columns.index(name)].copy()
        elif name.startswith('size'):
            col = nprng.uniform(1.2, 2.8, n)
        else:
            col = nprng.uniform(0.25, 0.6, n)      # thickness
        m = modes[j]
        if name in ff.pos_columns:
            pass       # positions keep their per-feature values: (global/cluster positions are admissible only if equal)
        if m == 2 or (m == 3 and groups is None):
            if name in ff.pos_columns:
                col[:] = col.mean()
            else:
                col[:] = col[0]
        elif m == 3:
            for g in groups0:
                col[g] = col[g].mean() if name in ff.pos_columns else col[g[0]]
        if name == 'background' and m == 0:
            # a constant background is a per-feature column like every other constant (e.g. taken from a previous
            # locate / estimate): inside one cluster the values may differ.  'equal' is the old behaviour.
            col = const_background(nprng, cfg.get('bg_style', 'equal'), col, groups0)
        params[:, j] = col
    return ff, images, meshes, masks, params, groups, groups0


def check_gradient(chk, cfg, label='generated'):
    from trackpy.refine import least_squares as ls
    try:
        ff, images, meshes, masks, params, groups, groups0 = build_problem(cfg)
    except Exception as e:
        chk.tally('gradient: problem construction failed (%s)' % type(e).__name__)
        return
    ndim = cfg['ndim']
    rec = dict(kind='gradient', cfg=cfg)
    try:
        _check_gradient(chk, cfg, ff, images, meshes, masks, params, groups, groups0, rec)
    except Exception as e:
        chk.violation('gradient: residual / jacobian / packing raised on an admissible parameter vector',
                      'evaluating residual/jacobian raised %r for %s %dD modes=%s' % (e, cfg['fit'], ndim, dict(zip(ff.params, ff.modes))), rec)


def _check_gradient(chk, cfg, ff, images, meshes, masks, params, groups, groups0, rec):
    from trackpy.refine import least_squares as ls
    ndim = cfg['ndim']
    if cfg['fit'] == 'ring':
        bad = False
        for g, mesh, mk in zip(groups0, meshes, masks):
            for i, m in zip(g, mk):
                d2 = ((mesh[:, m] - params[i, 2:2 + ndim][:, None]) ** 2).sum(0)
                if d2.size and np.abs(d2 - 1).min() < 1e-3:
                    bad = True
        if bad:
            chk.tally('gradient: skipped, a pixel sits on the r=1 cut of the ring model (degenerate for differences)')
            return
    residual, jacobian = ff.get_residual(images, meshes, masks, params, groups, cfg['norm'])
    if jacobian is None:
        chk.violation('gradient: get_residual returned no jacobian for %s' % cfg['fit'], 'has_jacobian False', rec)
        return
    vect = np.asarray(ls.vect_from_params(params, ff.modes, groups), dtype=float)
    chk.count(('gradient', json.dumps(cfg, sort_keys=True)), len(vect) >= 3)
    chk.tally('gradient %s %dD %s' % (cfg['fit'], ndim, 'iso' if cfg['iso'] else 'aniso'))
    chk.tally('gradient clusters=%d' % len(groups0))
    if ff.modes[0] == 0:
        bgcol = params[:, 0]
        differs = any(len(g) >= 2 and np.ptp(bgcol[g]) > 0 for g in groups0)
        chk.tally('gradient constant background: %s' % ('values differ inside a cluster (style %s)' % cfg.get('bg_style', 'equal')
                                                        if differs else 'equal inside every cluster / only isolated features'))
    for name, m in zip(ff.params, ff.modes):
        chk.tally('gradient mode %s=%s' % ('pos' if name in ff.pos_columns else name.split('_')[0], MODES[m]))
    if len(vect) == 0:
        return
    # unpack(pack) sanity on the admissible point (monitor)
    back = ls.vect_to_params(vect, params, ff.modes, groups)
    if not np.array_equal(back, params):
        chk.violation('packing: vect_to_params(vect_from_params(p)) != p', 'round trip differs inside get_residual setup', rec)
        return
    r0 = float(residual(vect.copy()))
    jac = np.asarray(jacobian(vect.copy()), dtype=float)
    if jac.shape != vect.shape:
        chk.violation('gradient: jacobian has the wrong length', 'jacobian shape %s, vector shape %s' % (jac.shape, vect.shape), rec)
        return
    h = 1e-5
    fd = np.zeros_like(vect)
    for k in range(len(vect)):
        vp, vm = vect.copy(), vect.copy()
        vp[k] += h; vm[k] -= h
        fd[k] = (float(residual(vp)) - float(residual(vm))) / (2 * h)
    scale = max(np.abs(jac).max(), np.abs(fd).max())
    tol = 2e-6 * scale + 200 * 2.2e-16 * abs(r0) / h
    err = np.abs(jac - fd)
    if not np.all(np.isfinite(jac)) or err.max() > tol:
        k = int(np.nanargmax(err)) if np.all(np.isfinite(err)) else 0
        # which parameter does component k belong to?
        owner = component_owner(ff, params.shape[0], groups, k)
        chk.violation('gradient: jacobian differs from the derivative of residual (%s, %s)' % (cfg['fit'], owner),
                      'jacobian[%d]=%.10g but central difference of residual = %.10g (tol %.3g); component = %s; %s %dD %s modes=%s' % (
                          k, jac[k], fd[k], tol, owner, cfg['fit'], ndim, 'iso' if cfg['iso'] else 'aniso',
                          dict(zip(ff.params, ff.modes))),
                      dict(rec, vect=vect.tolist(), jacobian=jac.tolist(), central_difference=fd.tolist(), component=k))
    if len(chk.coverage['samples']) < 4:
        chk.sample(dict(kind='gradient', cfg=cfg, n_vector=len(vect), max_abs_err=float(err.max()), tol=float(tol)))


def component_owner(ff, n, groups, k):
    cur = 0
    for name, m in zip(ff.params, ff.modes):
        if m == 0:
            continue
        ln = n if m == 1 else (1 if (m == 2 or groups is None) else len(groups[m - 3]))
        if cur <= k < cur + ln:
            role = 'pos' if name in ff.pos_columns else name.split('_')[0]
            return '%s:%s' % (role, MODES[m] if m < 4 else m)
        cur += ln
    return '?'


GRAD_CORPUS = [
    dict(fit='gauss', ndim=2, iso=True, cluster_sizes=[1], param_mode=dict(signal='var', background='cluster', pos='var', size='var'),
         radius=[4, 4], use_groups=False, norm=1.0, seed=11),
    dict(fit='gauss', ndim=2, iso=True, cluster_sizes=[2, 3], param_mode=dict(signal='var', background='cluster', pos='var', size='global'),
         radius=[4, 4], use_groups=True, norm=1.0, seed=12),
    dict(fit='gauss', ndim=2, iso=False, cluster_sizes=[3], param_mode=dict(signal='cluster', background='global', pos='var', size_y='var', size_x='cluster'),
         radius=[3, 5], use_groups=True, norm=7.5, seed=13),
    dict(fit='ring', ndim=2, iso=True, cluster_sizes=[2], param_mode=dict(signal='var', background='cluster', pos='var', size='var', thickness='var'),
         radius=[5, 5], use_groups=True, norm=1.0, seed=14),
    dict(fit='ring', ndim=3, iso=False, cluster_sizes=[1, 2], param_mode=dict(signal='global', background='cluster', pos='var', size='cluster', thickness='global'),
         radius=[3, 4, 4], use_groups=True, norm=1e-3, seed=15),
    dict(fit='gauss', ndim=3, iso=True, cluster_sizes=[2], param_mode=dict(signal='var', background='var', z='const', y='var', x='var', size='var'),
         radius=[3, 4, 4], use_groups=True, norm=1.0, seed=16),
    dict(fit='gauss', ndim=3, iso=False, cluster_sizes=[3, 1], param_mode=dict(signal='var', background='cluster', pos='var', size='var'),
         radius=[3, 4, 3], use_groups=True, norm=1.0, seed=17),
    dict(fit='ring', ndim=2, iso=False, cluster_sizes=[3], param_mode=dict(signal='var', background='cluster', pos='var', size='var', thickness='cluster'),
         radius=[4, 5], use_groups=False, norm=1.0, seed=18),
    # constant background whose per-feature values differ inside a cluster (background='const' is never the default)
    dict(fit='gauss', ndim=2, iso=True, cluster_sizes=[2], param_mode=dict(signal='var', background='const', pos='var', size='var'),
         radius=[4, 4], use_groups=True, norm=1.0, seed=19, bg_style='independent'),
    dict(fit='gauss', ndim=2, iso=False, cluster_sizes=[1, 3], param_mode=dict(signal='cluster', background='const', pos='var', size='global'),
         radius=[3, 5], use_groups=True, norm=7.5, seed=20, bg_style='last differs'),
    dict(fit='ring', ndim=2, iso=True, cluster_sizes=[3], param_mode=dict(signal='var', background='const', pos='const', size='var', thickness='var'),
         radius=[5, 5], use_groups=False, norm=1.0, seed=21, bg_style='first differs'),
    dict(fit='ring', ndim=3, iso=False, cluster_sizes=[2, 2], param_mode=dict(signal='global', background='const', pos='var', size='cluster', thickness='const'),
         radius=[3, 4, 4], use_groups=True, norm=1e-3, seed=22, bg_style='wide'),
    dict(fit='gauss', ndim=3, iso=True, cluster_sizes=[4], param_mode=dict(signal='const', background='const', size='var'),
         radius=[3, 3, 3], use_groups=True, norm=1.0, seed=23, bg_style='one differs'),
]


# ----------------------------------------------------------------------------
# gradient: evaluation protocols (one pair of closures, many evaluations)
# ----------------------------------------------------------------------------
# The property speaks about the vector the closures are GIVEN.  Everything above evaluates a pair of closures on fresh
# copies, one point after the other.  Here one pair of closures is driven through a generated multi-step sequence the
# way optimisers / hand-written difference loops drive an objective: the vector lives in a work array that is updated
# in place (overwritten, or one component stepped), is a row of a 2-d array, a strided view, a fresh array, or is
# evaluated again unchanged; residual and jacobian are called in a generated order; a twin pair of closures made by
# the SAME FitFunctions object from different data is called in between; the array jacobian() returned is scribbled
# on.  Every single call must (a) leave the vector it was given untouched and (b) return what a single evaluation of
# brand-new closures (new FitFunctions, copies of the data) returns for a fresh copy of that vector.  At the end the
# in-place central-difference loop x[i] = p[i] +- h is run on the work array and compared with jacobian(x).
PRESENTATIONS = ['overwrite', 'overwrite', 'step-one', 'step-one', 'again', 'fresh', 'row-view', 'strided']
PRESENT_TEXT = {'overwrite': 'work array overwritten in place (x[:] = v)', 'step-one': 'one component of the current array stepped in place',
                'again': 'unchanged array evaluated again', 'fresh': 'fresh array', 'row-view': 'row of a 2-d work array rewritten in place',
                'strided': 'strided view rewritten in place'}
CALLS = ['r', 'j', 'rj', 'jr', 'rjr', 'jrj', 'rr', 'jj']
CALLS_TWIN = ['rJ', 'jR', 'rRj', 'jJr', 'RrJj', 'Jr', 'Rj']
PROTOCOL_RTOL = 1e-12


def gen_protocol(rng, tier):
    """family 'evaluation protocol': a problem as in gen_problem (with a non-empty optimisation vector) plus a sequence
    of 3-7 steps; each step = how the next vector is presented x which closures are called in which order."""
    cfg = gen_problem(rng, tier)
    pm = cfg['param_mode']
    if all(v == 'const' for v in pm.values()):
        pm['signal'] = rng.choice(MODES[1:])
    twin = rng.random() < 0.35
    steps = [dict(present='overwrite', calls=rng.choice(CALLS))]
    for _ in range(rng.randint(2, 6)):
        steps.append(dict(present=rng.choice(PRESENTATIONS), calls=rng.choice(CALLS_TWIN if twin and rng.random() < 0.6 else CALLS)))
    if not any(s['present'] in ('overwrite', 'step-one', 'row-view', 'strided') for s in steps[1:]):
        steps.append(dict(present=rng.choice(['overwrite', 'step-one']), calls=rng.choice(CALLS)))
    cfg['protocol'] = dict(seed=rng.randrange(1 << 30), steps=steps, twin=twin, scribble=rng.random() < 0.5,
                           fd=rng.random() < 0.5, rel=rng.choice([0.03, 0.01, 0.003]))
    return cfg


class ClosurePair:
    """closures under test + the data to build brand-new reference closures from"""
    def __init__(self, ls, cfg, ff, images, meshes, masks, params, groups):
        self.ls, self.cfg, self.ff = ls, cfg, ff
        self.data = ([np.array(a) for a in images], [np.array(a) for a in meshes], [np.array(a) for a in masks], np.array(params),
                     json.loads(json.dumps(groups)))
        self.residual, self.jacobian = ff.get_residual(images, meshes, masks, params, groups, cfg['norm'])
        self.held = (images, meshes, masks, params)
        self.cache = {}

    def reference(self, kind, point):
        """single evaluation of new closures (new FitFunctions object, copies of the data) at a fresh copy of point"""
        import warnings
        key = (kind, point.tobytes())
        if key not in self.cache:
            with warnings.catch_warnings():
                warnings.simplefilter('ignore')
                ff2 = self.ls.FitFunctions(self.cfg['fit'], self.cfg['ndim'], self.cfg['iso'], dict(self.cfg['param_mode']))
            im, me, mk, pa, gr = self.data
            r, j = ff2.get_residual([a.copy() for a in im], [a.copy() for a in me], [a.copy() for a in mk], pa.copy(),
                                    json.loads(json.dumps(gr)), self.cfg['norm'])
            v = np.array(point, dtype=float)
            self.cache[key] = float(r(v)) if kind == 'r' else np.array(j(v), dtype=float)
        return self.cache[key]

    def data_untouched(self):
        return all(len(a) == len(b) and all(np.array_equal(x, y, equal_nan=True) for x, y in zip(a, b))
                   for a, b in zip(self.held[:3], self.data[:3])) and np.array_equal(self.held[3], self.data[3])


def same_value(a, b):
    a, b = np.atleast_1d(np.asarray(a, dtype=float)), np.atleast_1d(np.asarray(b, dtype=float))
    if a.shape != b.shape or not np.array_equal(np.isnan(a), np.isnan(b)):
        return False
    scale = float(np.nanmax(np.abs(b))) if np.any(~np.isnan(b)) else 0.0
    return bool(np.allclose(a, b, rtol=PROTOCOL_RTOL, atol=PROTOCOL_RTOL * scale, equal_nan=True))


def ring_degenerate(cfg, ff, params, groups0, meshes, masks, margin=1e-3):
    """a masked pixel within margin of the r = 1 cut of the ring model at these parameters"""
    if cfg['fit'] != 'ring':
        return False
    ndim = cfg['ndim']
    for g, mesh, mk in zip(groups0, meshes, masks):
        for i, m in zip(g, mk):
            d2 = ((mesh[:, m] - params[i, 2:2 + ndim][:, None]) ** 2).sum(0)
            if d2.size and np.abs(d2 - 1).min() < margin:
                return True
    return False


def check_protocol(chk, cfg):
    from trackpy.refine import least_squares as ls
    try:
        ff, images, meshes, masks, params, groups, groups0 = build_problem(cfg)
    except Exception as e:
        chk.tally('protocol: problem construction failed (%s)' % type(e).__name__)
        return
    rec = dict(kind='protocol', cfg=cfg)
    try:
        _check_protocol(chk, cfg, ls, ff, images, meshes, masks, params, groups, groups0, rec)
    except Exception as e:
        chk.violation('evaluation protocol: residual / jacobian raised in a call sequence on admissible vectors',
                      'a call of the sequence raised %r for %s %dD modes=%s' % (e, cfg['fit'], cfg['ndim'], dict(zip(ff.params, ff.modes))), rec)


def _check_protocol(chk, cfg, ls, ff, images, meshes, masks, params, groups, groups0, rec):
    proto = cfg['protocol']
    ndim = cfg['ndim']
    vect0 = np.asarray(ls.vect_from_params(params, ff.modes, groups), dtype=float)
    nv = len(vect0)
    chk.count(('protocol', json.dumps(cfg, sort_keys=True)), nv >= 3)
    if nv == 0:
        chk.tally('protocol: empty optimisation vector')
        return
    main = ClosurePair(ls, cfg, ff, images, meshes, masks, params, groups)
    if main.jacobian is None:
        chk.violation('gradient: get_residual returned no jacobian for %s' % cfg['fit'], 'has_jacobian False', rec)
        return
    pairs = {'r': (main, 'r'), 'j': (main, 'j')}
    if proto['twin']:
        # second pair of closures from the SAME FitFunctions object: other image values, other constants
        const = [j for j, m in enumerate(ff.modes) if m == 0 and ff.params[j] not in ff.pos_columns]
        params_t = params.copy()
        params_t[:, const] = params_t[:, const] * 1.07 + 0.013
        twin = ClosurePair(ls, cfg, ff, [im * 0.5 + 3.0 for im in images], [m.copy() for m in meshes], [m.copy() for m in masks],
                           params_t, json.loads(json.dumps(groups)))
        pairs.update({'R': (twin, 'r'), 'J': (twin, 'j')})
        chk.tally('protocol: twin closures of the same FitFunctions object interleaved')
    nprng = np.random.default_rng(proto['seed'])
    rel = proto['rel']

    def new_point():
        d = nprng.uniform(0.15, 1.0, nv) * nprng.choice([-1.0, 1.0], nv) * rel
        return vect0 * (1 + d) + np.where(np.abs(vect0) < 0.5, d, 0.0)

    work = np.empty(nv)
    grid = np.zeros((3, nv))
    wide = np.zeros(2 * nv + 1)
    arr, history = None, []
    failed = [False]

    def call(letter, arr, where):
        pair, kind = pairs[letter]
        before = np.array(arr, dtype=float)
        out = pair.residual(arr) if kind == 'r' else pair.jacobian(arr)
        name = 'residual' if kind == 'r' else 'jacobian'
        who = name if letter.islower() else name + ' of the twin closures'
        history.append('%s@%s' % (letter, where))
        chk.tally('protocol call: %s' % name)
        if not np.array_equal(arr, before):
            failed[0] = True
            chk.violation('evaluation protocol: %s modified the vector it was given' % name,
                          '%s changed its argument from %s to %s' % (who, before.tolist(), np.asarray(arr).tolist()),
                          dict(rec, calls_so_far=list(history)))
            return None
        got = float(out) if kind == 'r' else np.array(out, dtype=float)
        want = pair.reference(kind, before)
        if kind == 'j' and proto['scribble']:
            try:
                np.asarray(out)[...] = -7.25        # what an optimiser may do with the gradient it was handed
            except (ValueError, TypeError):
                pass
        if not same_value(got, want):
            failed[0] = True
            k = int(np.nanargmax(np.abs(np.atleast_1d(got) - np.atleast_1d(want)))) if np.shape(got) == np.shape(want) else 0
            chk.violation('evaluation protocol: %s(vect) differs from a single evaluation of new closures at the same vector (%s)' % (
                              name, PRESENT_TEXT.get(where, where)),
                          '%s(x) = %.12g but new closures give %.12g at the same x (component %d; x = %s; x presented as: %s; calls so far '
                          '[closure+presentation]: %s); %s %dD %s modes=%s' % (
                              who, np.atleast_1d(got)[k], np.atleast_1d(want)[k], k, before.tolist(), PRESENT_TEXT.get(where, where),
                              ' '.join(history), cfg['fit'], ndim, 'iso' if cfg['iso'] else 'aniso', dict(zip(ff.params, ff.modes))),
                          dict(rec, x=before.tolist(), got=np.atleast_1d(got).tolist(), expected=np.atleast_1d(want).tolist(),
                               calls_so_far=list(history)))
            return None
        return got

    for step in proto['steps']:
        pres = step['present']
        if arr is None:
            pres = 'overwrite'
        if pres == 'overwrite':
            work[:] = new_point(); arr = work
        elif pres == 'step-one':          # whatever array currently holds the vector
            i = int(nprng.integers(0, nv))
            arr[i] += (abs(arr[i]) + 0.5) * rel * (1 if nprng.random() < 0.5 else -1) * nprng.uniform(0.2, 1.0)
        elif pres == 'fresh':
            arr = new_point()
        elif pres == 'row-view':
            arr = grid[1]; arr[:] = new_point()
        elif pres == 'strided':
            arr = wide[1::2]; arr[:] = new_point()
        # 'again': arr stays as it is
        chk.tally('protocol step: ' + PRESENT_TEXT[pres])
        for letter in step['calls']:
            if letter not in pairs:
                letter = letter.lower()
            call(letter, arr, pres)
            if failed[0]:
                return
    # the hand-written central-difference loop on the work array, in place
    if proto['fd']:
        x = work
        if arr is not work:
            x[:] = np.asarray(arr)
        point = x.copy()
        pnow = ls.vect_to_params(point, params, ff.modes, groups)
        analytic = call('j', x, 'difference loop: base point')
        if failed[0]:
            return
        h = 1e-5
        numeric = np.zeros(nv)
        r0 = main.reference('r', point)
        for i in range(nv):
            x[i] = point[i] + h
            fp = call('r', x, 'difference loop: x[i] = p[i] + h in place')
            if failed[0]:
                return
            x[i] = point[i] - h
            fm = call('r', x, 'difference loop: x[i] = p[i] - h in place')
            if failed[0]:
                return
            x[i] = point[i]
            numeric[i] = (fp - fm) / (2 * h)
        chk.tally('protocol: in-place central-difference loop on the work array')
        if ring_degenerate(cfg, ff, pnow, groups0, meshes, masks):
            chk.tally('protocol: difference loop not compared with jacobian, a pixel sits on the r=1 cut of the ring model')
        else:
            scale = max(np.abs(analytic).max(), np.abs(numeric).max())
            tol = 2e-6 * scale + 200 * 2.2e-16 * abs(r0) / h
            err = np.abs(analytic - numeric)
            if not np.all(np.isfinite(analytic)) or err.max() > tol:
                k = int(np.nanargmax(err)) if np.all(np.isfinite(err)) else 0
                owner = component_owner(ff, params.shape[0], groups, k)
                chk.violation('gradient: jacobian differs from the derivative of residual (%s, %s)' % (cfg['fit'], owner),
                              'jacobian(x)[%d]=%.10g but the in-place central difference of residual at x = %.10g (tol %.3g); component = %s; '
                              'x = %s (a stepped, not mode-consistent start point); %s %dD %s modes=%s' % (
                                  k, analytic[k], numeric[k], tol, owner, point.tolist(), cfg['fit'], ndim, 'iso' if cfg['iso'] else 'aniso',
                                  dict(zip(ff.params, ff.modes))),
                              dict(rec, vect=point.tolist(), jacobian=analytic.tolist(), central_difference=numeric.tolist(), component=k))
                return
    for pair in set(p for p, _ in pairs.values()):
        if not pair.data_untouched():
            chk.violation('evaluation protocol: the closures modified the sub-images / meshes / masks / constant parameters they were built from',
                          'images, meshes, masks or params_const differ after the call sequence %s' % ' '.join(history), rec)
            return
    if sum(1 for s in chk.coverage['samples'] if s.get('kind') == 'protocol') < 1:
        chk.sample(dict(kind='protocol', cfg=cfg, n_vector=nv, calls=len(history)), maxn=6)


PROTOCOL_CORPUS = [
    # an optimiser's work array: jacobian and residual at x, x updated in place, both again
    dict(fit='gauss', ndim=2, iso=True, cluster_sizes=[1], param_mode=dict(signal='var', background='cluster', pos='var', size='var'),
         radius=[4, 4], use_groups=False, norm=1.0, seed=31,
         protocol=dict(seed=1, twin=False, scribble=False, fd=True, rel=0.02,
                       steps=[dict(present='overwrite', calls='jr'), dict(present='overwrite', calls='jr'), dict(present='step-one', calls='r'),
                              dict(present='step-one', calls='j'), dict(present='again', calls='rj')])),
    # 3-D anisotropic dimer, size shared in the cluster; views and fresh arrays mixed
    dict(fit='gauss', ndim=3, iso=False, cluster_sizes=[2], param_mode=dict(signal='var', background='cluster', pos='var', size='cluster'),
         radius=[3, 4, 4], use_groups=True, norm=1.0, seed=32,
         protocol=dict(seed=2, twin=False, scribble=True, fd=True, rel=0.015,
                       steps=[dict(present='overwrite', calls='r'), dict(present='row-view', calls='jr'), dict(present='row-view', calls='rj'),
                              dict(present='fresh', calls='j'), dict(present='strided', calls='rj'), dict(present='strided', calls='jr')])),
    # two clusters of rings, global signal and thickness, twin closures of the same FitFunctions object in between
    dict(fit='ring', ndim=2, iso=True, cluster_sizes=[1, 1], param_mode=dict(signal='global', background='cluster', pos='var', size='var', thickness='global'),
         radius=[5, 5], use_groups=True, norm=1.0, seed=33,
         protocol=dict(seed=3, twin=True, scribble=True, fd=True, rel=0.01,
                       steps=[dict(present='overwrite', calls='rJ'), dict(present='step-one', calls='jR'), dict(present='overwrite', calls='RrJj'),
                              dict(present='again', calls='Jr')])),
    # constants in the vector's complement; only one fitted parameter
    dict(fit='gauss', ndim=2, iso=False, cluster_sizes=[3], param_mode=dict(signal='const', background='const', pos='const', size_y='global', size_x='const'),
         radius=[3, 5], use_groups=True, norm=7.5, seed=34, bg_style='independent',
         protocol=dict(seed=4, twin=True, scribble=False, fd=True, rel=0.03,
                       steps=[dict(present='overwrite', calls='j'), dict(present='step-one', calls='j'), dict(present='step-one', calls='rRr')])),
]


# ----------------------------------------------------------------------------
def run(chk):
    common.quiet_trackpy()
    built = build(chk)
    ensure_packcheck(chk)
    rng = chk.rng
    nprng = np.random.default_rng(rng.randrange(1 << 30))
    # --- packing
    cases = [dict(c) for c in PACK_CORPUS] + gen_pack_cases(rng, chk.tier)
    packing_phase(chk, cases)
    chk.sample(dict(kind='pack', case=jcase(cases[0])))
    # --- gradient
    check_scalar_functions(chk, nprng, 25 if chk.tier == 'quick' else 300)
    for cfg in GRAD_CORPUS:
        check_gradient(chk, dict(cfg), 'corpus')
    ng = 220 if chk.tier == 'quick' else 3000
    if not built:
        ng *= 2      # proof/translation broken: search harder for the concrete failing vector
    for _ in range(ng):
        check_gradient(chk, gen_problem(rng, chk.tier))
    for _ in range(ng // 3):
        chk.tally('gradient family: constant background differing inside a cluster (generated)')
        check_gradient(chk, gen_problem_const_bg(rng, chk.tier), 'const-bg')
    for cfg in PROTOCOL_CORPUS:
        check_protocol(chk, json.loads(json.dumps(cfg)))
    for _ in range(ng // 3):
        chk.tally('gradient family: evaluation protocol (generated call sequences on one pair of closures)')
        check_protocol(chk, gen_protocol(rng, chk.tier))
    chk.coverage['rule'] = (
        "packing: corpus + every mode vector over {const,var,global,cluster} for n_vars<=3 (quick) / <=5 (thorough), sampled 4-5 column vectors and custom "
        "group modes 4/5, x random partitions of 1-6 rows x operation in {None,sum,min,max} x consistent/arbitrary integer arrays; 20% malformed stream "
        "(groups missing/empty/overlapping/out of range/not covering, short/long vectors, zero rows); non-trivial = >=2 columns with a global/group mode. "
        "gradient: corpus + random (model in gauss/ring, 2-D/3-D, iso/anisotropic, 1-3 clusters of 1-3 overlapping features, random mode per parameter, "
        "norm) sub-images cut by prepare_subimage from a random image; constant (mode const) columns, the background included, carry per-feature "
        "values; family 'constant background differing inside a cluster' (1/3 of the random stream again, + 5 corpus entries): background='const', "
        ">= 1 cluster of 2-4 overlapping features, the features' constant background values drawn in the styles independent [0.5,5) / wide [0,25) / "
        "all equal but the first / the last / one random member of each cluster (distinguishes first-row, last-row, mean, min, max readings of the "
        "cluster's column by the two closures), at least one fitted non-background parameter, groups given or None; in the general stream a const "
        "background takes one of these styles or 'equal' uniformly (tallied as 'gradient constant background: ...'); jacobian vs central differences (h=1e-5) of residual in every component; "
        "non-trivial = optimisation vector with >= 3 components; plus each d-function vs central differences of its function at random points. "
        "family 'evaluation protocol' (1/3 of the random stream again, + 4 corpus entries): ONE pair of closures from get_residual is driven through a "
        "generated sequence of 3-7 steps; each step presents the next vector (start vector with every component moved by 0.05-3%) as: the same work "
        "array overwritten in place / one component of the current array stepped in place / the unchanged array again / a fresh array / a row of a 2-d "
        "array rewritten in place / a strided view rewritten in place, and calls residual and jacobian in a generated order (r, j, rj, jr, rjr, jrj, "
        "rr, jj); in 35% of the cases a twin pair of closures built by the SAME FitFunctions object from other image values and constants is called "
        "in between on the same array; in 50% the array returned by jacobian is overwritten by the caller; every call must leave its argument "
        "untouched and return (rel. 1e-12) what a single evaluation of brand-new closures (new FitFunctions, copies of the data) returns for a fresh "
        "copy of that vector, i.e. the closures are functions of the VALUE of the vector they are given, not of the array object or the call "
        "history; in 50% the sequence ends with the hand-written central-difference loop x[i] = p[i] +- h (h=1e-5) on the work array in place, "
        "every residual of the loop compared as above and the loop's quotient compared with jacobian(x) at that stepped (not mode-consistent) "
        "point (skipped + tallied if a pixel is within 1e-3 of the ring cut there); finally images / meshes / masks / params_const must be "
        "unmodified; tallied as 'protocol step: ...', 'protocol call: ...'. "
        "distinct by content hash")
    chk.assumptions += [
        "Gen/fitpack.v is produced by tools/py2coq_fitpack.py (trusted translator, fail-closed) over the vocabulary Model/PyFitpack.v: numpy / dict "
        "operations are named primitives with the meaning of Model/Pack.v / Model/Jacobian2.v (arrays as column lists, np.nansum as a sum over the "
        "given live pixels, masked stores pointwise, IndexError of the closures' row accesses not modelled); Python's `assert min(modes) >= 0` makes "
        "an empty mode list an error, so generated = model is stated for modes <> []",
        "Gen/fitfun.v is produced by tools/py2coq_fitfun.py (trusted translator, fail-closed); safe_exp is modelled as exp (underflow cut-off at "
        "exp(-36) and NaN propagation not modelled)",
        "stdlib real-number axioms under the calculus theorems: ClassicalDedekindReals.sig_forall_dec, ClassicalDedekindReals.sig_not_dec, "
        "FunctionalExtensionality.functional_extensionality_dep, Classical_Prop.classic",
        "np.nansum is modelled as a sum over the pixels whose diff is not NaN; the set of NaN pixels (ring model, r<1) is assumed locally constant "
        "(cases with a pixel within 1e-3 of the cut are skipped and counted)",
        "the assembly of per-pixel rows into result[indices, 1:] / result[indices, 0] (sum exchange, division by n_cluster), the affine dependence "
        "of vect_to_params on the vector and the final composition are theorems (C15_gradient_exact, _gauss, _ring, C15_unpack_natural, "
        "C15_jacobian_sum_exchange) about Model/Jacobian2.v; that model of the residual/jacobian closures is over R, hence not executed: its "
        "agreement with get_residual is by reading plus the jacobian-vs-central-differences monitor; hypotheses of the theorem that the harness "
        "relies on: clusters = groups[0] partition the rows, background mode in {const, global, cluster} (or a custom mode whose groups contain "
        "the clusters), sizes/thickness non-zero, masked pixels at r2 > 0 for ring; disc / inv_series have no dfun (has_jacobian False)",
        "float rounding: gradient compared with central differences within 2e-6 relative + rounding floor; packing compared exactly (copies only)",
        "params with zero columns are outside the domain (Python asserts on min(modes))",
    ]


def replay(chk, path):
    common.quiet_trackpy()
    built = build(chk)
    ensure_packcheck(chk)
    r = json.load(open(path))['replay']
    kind = r.get('kind')
    if kind in ('pack', 'unpack', 'roundtrip'):
        case = r['case']
        packing_phase(chk, [case])
        print('replay: packing case re-run; implementation pack:', describe(run_pack(case)), '| unpack:', describe(run_unpack(case)[0]))
    elif kind == 'gradient':
        check_gradient(chk, r['cfg'], 'replay')
        print('replay: gradient configuration re-run')
    elif kind == 'protocol':
        check_protocol(chk, r['cfg'])
        print('replay: call sequence on one pair of closures re-run')
    elif kind == 'fun-deriv':
        nprng = np.random.default_rng(0)
        check_scalar_functions(chk, nprng, 200)
        print('replay: scalar derivative functions re-checked on 200 random points each')
    else:
        print('replay: nothing executable in this replay file (proof/translation breakage): see its log field; searching numerically')
        nprng = np.random.default_rng(0)
        check_scalar_functions(chk, nprng, 200)
        for cfg in GRAD_CORPUS:
            check_gradient(chk, dict(cfg), 'corpus')
        for cfg in PROTOCOL_CORPUS:
            check_protocol(chk, json.loads(json.dumps(cfg)))
