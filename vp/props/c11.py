"""C11 — a predictor only moves the search origin.

Theorems (Properties/C11.v): for the step-machine model, linking the drifted
movie with the exact-drift predictor equals (label for label) linking the
undrifted movie without predictor; NullPredict is plain linking; labels valid
for any predictor.
Tie: (a) link_iter(predictor=P_v) on the drifted movie: its labels are replayed
by the Coq monitor with the model's pred_drift on the drifted frames (ties the
implementation's use of the predictor - also for remembered particles - to the
model's) AND with no predictor on the undrifted frames (the property itself:
same partition up to cost ties); (b) NullPredict().link_df_iter replayed with no
predictor; (c) random predictors: labels unique per frame; (d) the predictors of trackpy.predict called
directly on Point objects (null_predict, NullPredict().predict, a function under @predictor, DriftPredict.predict
with a given velocity) against the closed forms proved of the generated code.

Route T.  tools/py2coq_predict.py re-translates the CURRENT text of trackpy/predict.py (predictor, null_predict,
NullPredict, _RecentVelocityPredict.__init__ / state, DriftPredict.predict), of HashBase / HashKDTree
(trackpy/linking/subnet.py), points_to_arr / points_from_arr and Linker.update_hash into coq/Gen/predict.v before
the proofs are re-checked; Proofs/PredictGen.v proves the generated functions equal to the model
(C11_generated_*).  A translation failure or a failing re-proof is reported through chk.proof_broken; the
correspondence run still takes place, so that a concrete failing input is searched for.
"""
import os, sys, hashlib
import numpy as np, pandas as pd, json
from fractions import Fraction
import common, linkgen
from common import cnat, cZ, clist
from props import c02

IMPORTS = "From TP Require Import Model.Assign Model.Link Model.LinkCheck Model.Predict."
FUNC_DRIFT = ("fun c => match c with (m, mem, ms, fr, out, v, tags) => "
              "check_run m mem ms (pred_drift v tags) fr out end")
FUNC_PLAIN = c02.FUNC
CODES = c02.CODES

TRANSLATOR = os.path.join(common.VERIF, 'tools', 'py2coq_predict.py')
GEN = os.path.join(common.COQ, 'Gen', 'predict.v')


# ---- route T: translator / build ----------------------------------------------------------
def regenerate(chk):
    """re-run the translator on the current source; returns (ok, text-or-log)"""
    rc, out = common.sh([sys.executable, TRANSLATOR, '--repo', common.REPO, '--stdout'], timeout=60)
    if rc != 0:
        return False, out
    with common.Lock(os.path.join(common.COQ, '.build.lock')):
        old = open(GEN).read() if os.path.exists(GEN) else None
        if old != out:
            os.makedirs(os.path.dirname(GEN), exist_ok=True)
            tmp = GEN + '.tmp%d' % os.getpid()
            with open(tmp, 'w') as f:
                f.write(out)
            os.replace(tmp, GEN)
            chk.tally('Gen/predict.v rewritten (source differs from last run)')
        else:
            chk.tally('Gen/predict.v unchanged')
    return True, out


def ensure_model(chk):
    """the executable model and monitor (Model/LinkCheck.vo, Model/Predict.vo) are needed by the correspondence run
    even when the translation or a proof about the generated functions is broken"""
    def fresh(v):
        vo = os.path.join(common.COQ, v + 'o')
        return os.path.exists(vo) and os.path.getmtime(vo) >= os.path.getmtime(os.path.join(common.COQ, v))
    files = ('Model/Assign.v', 'Model/Link.v', 'Model/LinkCheck.v', 'Model/Predict.v')
    if all(fresh(v) for v in files):
        return True
    with common.Lock(os.path.join(common.COQ, '.build.lock')):
        for v in files:
            if fresh(v):
                continue
            rc, out = common.sh('timeout 300 coqc -Q . TP %s' % v, timeout=330, cwd=common.COQ)
            if rc != 0:
                chk.proof_broken(v, out)
                return False
    return True


def build(chk):
    """translator -> cone of Properties/C11.v; returns True when the executable model is available"""
    ok, text = regenerate(chk)
    if not ok:
        chk.proof_broken('translation tools/py2coq_predict.py (trackpy/predict.py, HashBase / HashKDTree, points_to_arr / points_from_arr or '
                         'Linker.update_hash left the translatable subset)', text)
        chk.build = dict(obligations=0, discharged=0, assumptions=[], files=[], theorems=[])
    else:
        for attempt in range(3):
            b = chk.coq()
            if open(GEN).read() == text:
                break
            # another run (different TRACKPY_REPO) rewrote the generated file in between: redo
            chk.violations = [v for v in chk.violations if not v[0].startswith('proof:')]
            regenerate(chk)
        chk.notes.append('Gen/predict.v sha1 %s generated from %s' % (hashlib.sha1(text.encode()).hexdigest()[:12], common.REPO))
        if not b['ok']:
            # say which statement about the generated functions no longer checks
            with common.Lock(os.path.join(common.COQ, '.build.lock')):
                rc, out = common.sh('timeout 600 make Proofs/PredictGen.vo 2>&1 | tail -25', timeout=630, cwd=common.COQ)
            chk.notes.append('make Proofs/PredictGen.vo (generated functions = model): ' + out[-2500:])
    return ensure_model(chk)


# ---- (d) the predictors of trackpy.predict called directly ------------------------------------
def direct_case(rng):
    ndim = rng.choice([1, 2, 3])
    n = rng.randint(1, 6)
    return dict(ndim=ndim, v=[rng.randint(-50, 50) for _ in range(ndim)], t1=rng.randint(-5, 40),
                pts=[(rng.randint(-5, 30), [rng.randint(-100, 100) for _ in range(ndim)]) for _ in range(n)])


def direct_check(d):
    """returns a list of (what, got, want) mismatches; integer data, so float arithmetic is exact"""
    from trackpy import predict as tpred
    from trackpy.linking.utils import Point
    Point.reset_counter()
    v = np.array(d['v'], dtype=float)
    pts = [Point(t, np.array(p, dtype=float)) for t, p in d['pts']]
    stay = [list(map(float, p)) for _, p in d['pts']]
    moved = [[float(x + vv * (d['t1'] - t)) for x, vv in zip(p, d['v'])] for t, p in d['pts']]
    bad = []

    def cmp(what, got, want):
        try:
            got = [list(map(float, np.asarray(g).ravel())) for g in list(got)]
        except Exception as e:
            got = 'raised %r' % e
        if got != want:
            bad.append((what, got, want))
    try:
        cmp('null_predict', tpred.null_predict(d['t1'], pts), stay)
        cmp('NullPredict().predict', tpred.NullPredict().predict(d['t1'], pts), stay)

        @tpred.predictor
        def P(t1, particle):
            return particle.pos + v * (t1 - particle.t)
        cmp('@predictor exact-drift function', P(d['t1'], pts), moved)
        dp = tpred.DriftPredict()
        dp.vel = v
        cmp('DriftPredict.predict with vel = v', dp.predict(d['t1'], pts), moved)
        if [list(map(float, p.pos)) for p in pts] != stay or [p.t for p in pts] != [t for t, _ in d['pts']]:
            bad.append(('a predictor changed the particles it was given', [list(map(float, p.pos)) for p in pts], stay))
    except Exception as e:
        bad.append(('a predictor raised', repr(e), None))
    return bad


def gen(rng, tier):
    q = rng.random() < 0.4
    fr = linkgen.gen_movie(rng, quarter=q, nframes=rng.randint(3, 8))
    ndim = fr[0].shape[1]
    # blank frames matter (remembered particles are then the only sources)
    for k in range(1, len(fr)):
        if rng.random() < 0.15:
            fr[k] = np.empty((0, ndim))
    intf = []
    if rng.random() < 0.3:
        # frames delivered with whole-pixel coordinates in an INTEGER array (detections from a peak finder without sub-pixel
        # refinement) between float frames: a remembered float particle then sits in one hash with integer points
        for k in range(1, len(fr)):
            if len(fr[k]) and rng.random() < 0.5:
                r = np.round(fr[k])
                if len({tuple(x) for x in r.tolist()}) == len(r):
                    fr[k] = r; intf.append(k)
    far = False
    if rng.random() < 0.2:
        # stage-referenced coordinates: the whole movie sits near (131072, 98304, ...) while drift and search_range keep
        # their pixel scale (a per-frame displacement of ~1e-5 of the coordinate value still moves the search origin)
        off = np.array([rng.choice([131072., 98304., 262144., 1048576., 2097152., 1048576.]) for _ in range(ndim)])
        fr = [f + off if len(f) else f for f in fr]
        far = True
    sr = linkgen.gen_range(rng, ndim, quarter=q, aniso=(ndim > 1 and rng.random() < 0.3))
    mem = rng.choice([0, 1, 1, 2, 3])
    big = rng.random() < 0.5
    v = [rng.randint(-1000, 1000) if big else rng.randint(-6, 6) for _ in range(ndim)]
    if far:
        v = [rng.choice([-1, 1]) * rng.choice([2, 3, 4, 5, 6]) for _ in range(ndim)]     # drift of the order of the search range
    elif rng.random() < 0.15:
        # drift of ~10^5 px per frame: accumulated coordinates reach 10^6 (still exact: quarter pixels need 22 + 2 bits);
        # whether a pair is within search_range must not depend on where the predictor has moved the search origin
        v = [rng.choice([-1, 1]) * rng.choice([65536, 131072, 98304, 262144]) for _ in range(ndim)]
    t0 = rng.choice([0, 0, 3, -2, 10])
    tags, t = [], t0
    for _ in fr:
        tags.append(t); t += 1 if rng.random() < 0.7 else rng.randint(2, 3)
    return dict(frames=fr, sr=sr, memory=mem, max_size=linkgen.LIMIT, strategy=rng.choice(['recursive', 'nonrecursive', 'numba']),
                ndim=ndim, v=v, tags=tags, int_frames=intf, tag_type=rng.choice(['int', 'int', 'float', 'int32', 'float']))


def drifted(c):
    return [f + np.array(c['v'], dtype=float) * t if len(f) else f for f, t in zip(c['frames'], c['tags'])]


def typed_tags(c):
    """the frame numbers as the caller's iterator delivers them: Python ints, or whole numbers stored as floats (a frame column
    upcast by pandas), or numpy integers - the same numbers"""
    k = c.get('tag_type', 'int')
    if k == 'float':
        return [np.float64(t) for t in c['tags']]
    if k == 'int32':
        return [np.int32(t) for t in c['tags']]
    return list(c['tags'])


def typed(c, frames):
    """the frames as they are handed to trackpy: those listed in int_frames as int64 arrays (their values are whole)"""
    ints = set(c.get('int_frames') or [])
    return [f.astype(np.int64) if (k in ints and len(f) and np.array_equal(f, np.round(f))) else f for k, f in enumerate(frames)]


def partition(labs_per_frame):
    groups = {}
    for t, labs in enumerate(labs_per_frame):
        for j, lb in enumerate(labs):
            groups.setdefault(lb, []).append((t, j))
    return sorted(sorted(g) for g in groups.values())


def jsonable(c, out=None):
    d = c02.jsonable(c, out)
    d['v'] = c['v']; d['tags'] = c['tags']; d['int_frames'] = list(c.get('int_frames') or []); d['tag_type'] = c.get('tag_type', 'int')
    return d


def lockstep(cases):
    """advance several link_iter generators (each with its own exact-drift predictor) alternately: what one job
    does between the steps of another must not matter (the predictor only moves the search origin of ITS job)"""
    import trackpy as tp
    from trackpy.predict import predictor
    from trackpy.linking.utils import SubnetOversizeException
    gens, outs = [], []
    for c in cases:
        v = np.array(c['v'], dtype=float)

        @predictor
        def P(t1, particle, v=v):
            return particle.pos + v * (t1 - particle.t)
        it = zip(c['tags'], [f.copy() for f in drifted(c)])
        gens.append(tp.link_iter(it, linkgen.sr_float(c['sr']), memory=c['memory'], link_strategy=c['strategy'], predictor=P))
        outs.append([])
    alive = [True] * len(cases)
    while any(alive):
        for k, g in enumerate(gens):
            if not alive[k]:
                continue
            try:
                t, ids = next(g)
                outs[k].append([int(i) for i in ids])
            except StopIteration:
                alive[k] = False
            except SubnetOversizeException:
                outs[k].append(None); alive[k] = False
    return outs


def run(chk):
    with linkgen.size_limit(linkgen.LIMIT):
        return _run(chk)


def _run(chk):
    import trackpy as tp
    from trackpy.predict import predictor, NullPredict
    common.quiet_trackpy()
    build(chk)
    n = 120 if chk.tier == 'quick' else 4000
    # (d) the predictors themselves
    for k in range(n):
        d = direct_case(chk.rng)
        bad = direct_check(d)
        chk.count(('direct', d), len(d['pts']) >= 2 and any(d['v']))
        chk.tally('predictor called directly on Points')
        for what, got, want in bad[:1]:
            chk.violation('predictor called directly: %s' % what,
                          '%s on %d particles at t1=%d gives %s, the closed form proved of the generated code gives %s' % (what, len(d['pts']), d['t1'], got, want),
                          dict(kind='direct', case=d))
    t_drift, t_plain, metas = [], [], []
    t_null, m_null = [], []
    t_pp, m_pp = [], []
    for k in range(n):
        c = gen(chk.rng, chk.tier)
        if linkgen.max_inrange(c['frames'], c['sr'], c['memory']) > 8:
            chk.tally('skipped: neighbour cap binding'); continue
        c02.safe_strategy(c)
        v = np.array(c['v'], dtype=float)

        @predictor
        def P(t1, particle, v=v):
            return particle.pos + v * (t1 - particle.t)
        dfr = drifted(c)
        out_d = linkgen.run_link_iter(typed(c, dfr), c['sr'], memory=c['memory'], link_strategy=c['strategy'], predictor=P, enumerate_t=typed_tags(c))
        out_p = linkgen.run_link_iter(typed(c, c['frames']), c['sr'], memory=c['memory'], link_strategy=c['strategy'], enumerate_t=typed_tags(c))
        if c.get('int_frames'):
            chk.tally('movie with integer-typed frames between float frames')
        chk.tally('frame numbers delivered as ' + c.get('tag_type', 'int'))
        if any(o is None for o in out_d + out_p):
            chk.tally('oversize (skipped)'); continue
        w, R2 = linkgen.metric_of(c['sr'], c['ndim'], 4)
        head = "%s, %s, %s" % (linkgen.cmetric(w, R2), cnat(c['memory']), cnat(c['max_size']))
        t_drift.append("(%s, %s, %s, %s, %s)" % (head, linkgen.cframes(dfr, 4), linkgen.cobs(out_d),
                                                   clist([cZ(4 * x) for x in c['v']]), clist([cZ(t) for t in c['tags']])))
        t_plain.append("(%s, %s, %s)" % (head, linkgen.cframes(c['frames'], 4), linkgen.cobs(out_d)))
        same = partition(out_d) == partition(out_p)
        if not same:
            # the two sides of the property differ: each is judged on its own (a tie leaves both optimal)
            t_pp.append("(%s, %s, %s)" % (head, linkgen.cframes(c['frames'], 4), linkgen.cobs(out_p))); m_pp.append((c, out_d, out_p))
        metas.append((c, out_d, out_p, same))
        chk.tally('memory=%d' % c['memory']); chk.tally('partition equal to plain run' if same else 'partition differs from plain run (tie expected)')
        if any(len(f) == 0 for f in c['frames'][1:]):
            chk.tally('movie with blank frame')
        # (b) NullPredict through link_df_iter
        if k % 3 == 0:
            cols = ['x', 'y', 'z'][:c['ndim']][::-1]
            dfs = [pd.DataFrame({**{cc: f[:, i] for i, cc in enumerate(cols)}, 'frame': t}) for f, t in zip(typed(c, c['frames']), c['tags'])]
            try:
                from trackpy.linking.utils import SubnetOversizeException
                labs = []
                try:
                    for o in NullPredict().link_df_iter(dfs, linkgen.sr_float(c['sr']), memory=c['memory'], pos_columns=cols, link_strategy=c['strategy']):
                        labs.append([int(x) for x in o['particle'].values])
                except SubnetOversizeException:
                    # a legitimate outcome: an equal-cost tie resolved differently in an earlier step leads to another history, in
                    # which a group may exceed the (lowered) size limit.  The monitor decides from the labels handed out so far
                    # whether the raise is justified at this step (as for every link_iter run)
                    labs.append(None)
                    chk.tally('NullPredict run raised SubnetOversizeException (judged by the monitor)')
                t_null.append("(%s, %s, %s)" % (head, linkgen.cframes(c['frames'], 4), linkgen.cobs(labs)))
                m_null.append((c, labs))
            except Exception as e:
                chk.violation('NullPredict.link_df_iter raised', 'NullPredict().link_df_iter raised %r' % e, dict(kind='null', case=jsonable(c)))
        # (c) arbitrary predictor: labels stay unique
        if k % 4 == 0:
            jit = [int(chk.rng.randint(-3, 3)) for _ in range(c['ndim'])]

            @predictor
            def Pj(t1, particle, jit=np.array(jit, dtype=float)):
                return particle.pos + jit * ((particle.t + t1) % 3 - 1)
            out_j = linkgen.run_link_iter(c['frames'], c['sr'], memory=c['memory'], link_strategy=c['strategy'], predictor=Pj, enumerate_t=typed_tags(c))
            for t, labs in enumerate(out_j):
                if labs is not None and (len(set(labs)) != len(labs) or len(labs) != len(c['frames'][t]) or any(l < 0 for l in labs)):
                    chk.violation('arbitrary predictor: invalid labels', 'labels not unique / complete in frame %d with a jitter predictor' % t,
                                  dict(kind='jitter', case=jsonable(c, out_j), jitter=jit))
    # two jobs in lockstep (a large movie with memory and a small one started alongside)
    for k in range(n // 4):
        a = gen(chk.rng, chk.tier); a['memory'] = chk.rng.choice([1, 2, 3])
        b = gen(chk.rng, chk.tier)
        b['frames'] = [f[:chk.rng.randint(1, 3)] for f in b['frames']]
        if any(linkgen.max_inrange(c['frames'], c['sr'], c['memory']) > 8 for c in (a, b)):
            continue
        c02.safe_strategy(a); c02.safe_strategy(b)
        outs = lockstep([a, b])
        for c, out_d in zip((a, b), outs):
            if any(o is None for o in out_d):
                continue
            w, R2 = linkgen.metric_of(c['sr'], c['ndim'], 4)
            head = "%s, %s, %s" % (linkgen.cmetric(w, R2), cnat(c['memory']), cnat(c['max_size']))
            t_drift.append("(%s, %s, %s, %s, %s)" % (head, linkgen.cframes(drifted(c), 4), linkgen.cobs(out_d),
                                                       clist([cZ(4 * x) for x in c['v']]), clist([cZ(t) for t in c['tags']])))
            t_plain.append("(%s, %s, %s)" % (head, linkgen.cframes(c['frames'], 4), linkgen.cobs(out_d)))
            metas.append((c, out_d, out_d, True))
            chk.tally('job advanced in lockstep with another predictor job')
    rd = common.coq_eval_lists(chk.work, IMPORTS, FUNC_DRIFT, t_drift, tag='drift')
    rp = common.coq_eval_lists(chk.work, IMPORTS, FUNC_PLAIN, t_plain, tag='plain')
    for (c, out_d, out_p, same), a, b in zip(metas, rd, rp):
        chk.count(('drift', jsonable(c, out_d)), sum(len(f) for f in c['frames']) >= 6 and any(c['v']))
        if a != 0:
            chk.violation('predictor run vs model: %s' % CODES.get(a, a),
                          'link_iter with drift predictor v=%s: labels are not an optimal linking of the predicted positions: %s' % (c['v'], CODES.get(a, a)),
                          dict(kind='drift-model', code=a, case=jsonable(c, out_d)))
        if b != 0:
            chk.violation('drifted+predictor vs undrifted plain: %s' % CODES.get(b, b),
                          'partition of the drifted movie linked with the exact predictor is not a (tie-equivalent) linking of the undrifted movie: %s' % CODES.get(b, b),
                          dict(kind='drift-plain', code=b, case=jsonable(c, out_d), plain_labels=out_p))
    rpp = common.coq_eval_lists(chk.work, IMPORTS, FUNC_PLAIN, t_pp, tag='plainside')
    for (c, out_d, out_p), r in zip(m_pp, rpp):
        if r != 0:
            chk.violation('plain run of the undrifted movie: %s' % CODES.get(r, r),
                          'the partition of the undrifted movie linked without predictor differs from the predictor run on the drifted movie, and it is not a tie: '
                          'the plain labels are not an optimal linking (%s)' % CODES.get(r, r),
                          dict(kind='plain-side', code=r, case=jsonable(c, out_p), predictor_labels=out_d))
    rn = common.coq_eval_lists(chk.work, IMPORTS, FUNC_PLAIN, t_null, tag='null')
    for (c, labs), r in zip(m_null, rn):
        chk.count(('null', jsonable(c, labs)), True)
        if r != 0:
            chk.violation('NullPredict: %s' % CODES.get(r, r), 'NullPredict().link_df_iter differs from plain linking: %s' % CODES.get(r, r),
                          dict(kind='null', code=r, case=jsonable(c, labs)))
    if metas:
        chk.sample(jsonable(metas[0][0], metas[0][1]))
    chk.coverage['rule'] = ("lattice movies (blank frames, vanishing particles) + uniform integer drift v*t (|v| up to 1000 px/frame), frame numbering with offsets and gaps, "
                            "memory 0-3, strategies recursive/nonrecursive/numba; non-trivial = >= 6 features and v != 0; "
                            "direct predictor calls: 1-6 particles, integer positions / times / velocity, non-trivial = >= 2 particles and v != 0")
    chk.assumptions += ["as C02 (KD-tree exact, lattice inputs)", "the drift predictor is a user function decorated with trackpy.predict.predictor (DriftPredict's own velocity estimation is not exercised; DriftPredict.predict is, with a given velocity)",
                        "route T: tools/py2coq_predict.py (fail-closed; subset, conventions and list of primitives in its docstring) and the vocabulary Model/PyPredict.v are trusted: "
                        "heap of Point objects, value semantics for hash objects under the alias rule, a linking function as a one-frame-per-step state machine that is handed the "
                        "predictor at each step, self.hash_cls = HashKDTree, single-particle predictor functions total and not mutating their particle; "
                        "Subnets.compute's two reads (dest_hash.coords_mapped, source_hash.tree) are transcribed by hand in Model/Predict2.gen_level; "
                        "Linker.apply_links / Subnets.compute are not translated here (C01 / C02 cover them by correspondence)"]


def replay(chk, path):
    with linkgen.size_limit(linkgen.LIMIT):
        return _replay(chk, path)


def _replay(chk, path):
    from trackpy.predict import predictor
    common.quiet_trackpy()
    build(chk)
    r = json.load(open(path))['replay']
    if r.get('kind') == 'direct':
        bad = direct_check(r['case'])
        chk.count(('replay', r['case']), True)
        print('replay: direct predictor calls, mismatches:', bad)
        for what, got, want in bad[:1]:
            chk.violation('predictor called directly: %s' % what, '%s gives %s, expected %s' % (what, got, want), dict(kind='direct', case=r['case']))
        return
    if r.get('kind') == 'proof-or-correspondence-broken':
        print('replay: translation / proof obligation', r.get('theorem_or_file'), '-> still broken' if chk.violations else '-> checks now')
        return
    cj = r['case']
    frames = linkgen.frames_from_json(cj['frames'])
    ndim = len(cj['v'])
    frames = [f.reshape(len(f), ndim) for f in frames]
    c = dict(frames=frames, sr=(tuple(Fraction(x) for x in cj['search_range']) if isinstance(cj['search_range'], list) else Fraction(cj['search_range'])), memory=cj['memory'], max_size=cj['max_size'], strategy=cj['link_strategy'],
             ndim=ndim, v=cj['v'], tags=cj['tags'], int_frames=cj.get('int_frames') or [], tag_type=cj.get('tag_type', 'int'))
    v = np.array(c['v'], dtype=float)
    if r.get('kind') == 'plain-side':
        out_p = linkgen.run_link_iter(typed(c, c['frames']), c['sr'], memory=c['memory'], link_strategy=c['strategy'], enumerate_t=typed_tags(c))
        w, R2 = linkgen.metric_of(c['sr'], ndim, 4)
        head = "%s, %s, %s" % (linkgen.cmetric(w, R2), cnat(c['memory']), cnat(c['max_size']))
        b = common.coq_eval_lists(chk.work, IMPORTS, FUNC_PLAIN, ["(%s, %s, %s)" % (head, linkgen.cframes(c['frames'], 4), linkgen.cobs(out_p))])[0]
        chk.count(('replay', cj), True)
        print('replay: labels of the plain run on the undrifted movie', out_p, 'monitor code', b, CODES.get(b))
        if b != 0:
            chk.violation('plain run of the undrifted movie: %s' % CODES.get(b, b), CODES.get(b, b), dict(kind='plain-side', code=b, case=jsonable(c, out_p)))
        return

    @predictor
    def P(t1, particle):
        return particle.pos + v * (t1 - particle.t)
    dfr = typed(c, drifted(c))
    out_d = linkgen.run_link_iter(dfr, c['sr'], memory=c['memory'], link_strategy=c['strategy'], predictor=P, enumerate_t=typed_tags(c))
    w, R2 = linkgen.metric_of(c['sr'], ndim, 4)
    head = "%s, %s, %s" % (linkgen.cmetric(w, R2), cnat(c['memory']), cnat(c['max_size']))
    b = common.coq_eval_lists(chk.work, IMPORTS, FUNC_PLAIN, ["(%s, %s, %s)" % (head, linkgen.cframes(c['frames'], 4), linkgen.cobs(out_d))])[0]
    chk.count(('replay', cj), True)
    print('replay: labels with predictor on drifted movie', out_d, 'monitor (vs undrifted plain) code', b, CODES.get(b))
    if b != 0:
        chk.violation('drifted+predictor vs undrifted plain: %s' % CODES.get(b, b), CODES.get(b, b), dict(kind='drift-plain', code=b, case=jsonable(c, out_d)))
