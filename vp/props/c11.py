"""C11 — a predictor only moves the search origin.

Theorems (Properties/C11.v): for the step-machine model, linking the drifted
movie with the exact-drift predictor equals (label for label) linking the
undrifted movie without predictor; NullPredict is plain linking; labels valid
for any predictor.
Tie: (a) link_iter(predictor=P_v) on the drifted movie: its labels are replayed
by the Coq monitor with the model's pred_drift on the drifted frames (ties the
implementation's use of the predictor - also for remembered particles - to the
model's) AND with no predictor on the undrifted frames (the property itself:
same partition up to cost ties); (b) NullPredict().link_df_iter replayed with no
predictor; (c) random predictors: labels unique per frame.
"""
import numpy as np, pandas as pd, json
from fractions import Fraction
import common, linkgen
from common import cnat, cZ, clist
from props import c02

IMPORTS = "From TP Require Import Model.Assign Model.Link Model.LinkCheck Model.Predict."
FUNC_DRIFT = ("fun c => match c with (m, mem, ms, fr, out, v, tags) => "
              "check_run m mem ms (pred_drift v tags) fr out end")
FUNC_PLAIN = c02.FUNC
CODES = c02.CODES


def gen(rng, tier):
    q = rng.random() < 0.4
    fr = linkgen.gen_movie(rng, quarter=q, nframes=rng.randint(3, 8))
    ndim = fr[0].shape[1]
    # blank frames matter (remembered particles are then the only sources)
    for k in range(1, len(fr)):
        if rng.random() < 0.15:
            fr[k] = np.empty((0, ndim))
    sr = linkgen.gen_range(rng, ndim, quarter=q, aniso=(ndim > 1 and rng.random() < 0.3))
    mem = rng.choice([0, 1, 1, 2, 3])
    big = rng.random() < 0.5
    v = [rng.randint(-1000, 1000) if big else rng.randint(-6, 6) for _ in range(ndim)]
    t0 = rng.choice([0, 0, 3, -2, 10])
    tags, t = [], t0
    for _ in fr:
        tags.append(t); t += 1 if rng.random() < 0.7 else rng.randint(2, 3)
    return dict(frames=fr, sr=sr, memory=mem, max_size=linkgen.LIMIT, strategy=rng.choice(['recursive', 'nonrecursive', 'numba']),
                ndim=ndim, v=v, tags=tags)


def drifted(c):
    return [f + np.array(c['v'], dtype=float) * t if len(f) else f for f, t in zip(c['frames'], c['tags'])]


def partition(labs_per_frame):
    groups = {}
    for t, labs in enumerate(labs_per_frame):
        for j, lb in enumerate(labs):
            groups.setdefault(lb, []).append((t, j))
    return sorted(sorted(g) for g in groups.values())


def jsonable(c, out=None):
    d = c02.jsonable(c, out)
    d['v'] = c['v']; d['tags'] = c['tags']
    return d


def lockstep(cases):
    """advance several link_iter generators (each with its own exact-drift predictor) alternately: what one job
    does between the steps of another must not matter (the predictor only moves the search origin of ITS job)"""
    import trackpy as tp
    from trackpy.predict import predictor
    from trackpy.linking.utils import SubnetOversizeException
    gens, outs = [], []
    for c in cases:
        v = np.array(c['v'], dtype=float)

        @predictor
        def P(t1, particle, v=v):
            return particle.pos + v * (t1 - particle.t)
        it = zip(c['tags'], [f.copy() for f in drifted(c)])
        gens.append(tp.link_iter(it, linkgen.sr_float(c['sr']), memory=c['memory'], link_strategy=c['strategy'], predictor=P))
        outs.append([])
    alive = [True] * len(cases)
    while any(alive):
        for k, g in enumerate(gens):
            if not alive[k]:
                continue
            try:
                t, ids = next(g)
                outs[k].append([int(i) for i in ids])
            except StopIteration:
                alive[k] = False
            except SubnetOversizeException:
                outs[k].append(None); alive[k] = False
    return outs


def run(chk):
    with linkgen.size_limit(linkgen.LIMIT):
        return _run(chk)


def _run(chk):
    import trackpy as tp
    from trackpy.predict import predictor, NullPredict
    common.quiet_trackpy()
    chk.coq()
    n = 120 if chk.tier == 'quick' else 4000
    t_drift, t_plain, metas = [], [], []
    t_null, m_null = [], []
    for k in range(n):
        c = gen(chk.rng, chk.tier)
        if linkgen.max_inrange(c['frames'], c['sr'], c['memory']) > 8:
            chk.tally('skipped: neighbour cap binding'); continue
        c02.safe_strategy(c)
        v = np.array(c['v'], dtype=float)

        @predictor
        def P(t1, particle, v=v):
            return particle.pos + v * (t1 - particle.t)
        dfr = drifted(c)
        out_d = linkgen.run_link_iter(dfr, c['sr'], memory=c['memory'], link_strategy=c['strategy'], predictor=P, enumerate_t=c['tags'])
        out_p = linkgen.run_link_iter(c['frames'], c['sr'], memory=c['memory'], link_strategy=c['strategy'], enumerate_t=c['tags'])
        if any(o is None for o in out_d + out_p):
            chk.tally('oversize (skipped)'); continue
        w, R2 = linkgen.metric_of(c['sr'], c['ndim'], 4)
        head = "%s, %s, %s" % (linkgen.cmetric(w, R2), cnat(c['memory']), cnat(c['max_size']))
        t_drift.append("(%s, %s, %s, %s, %s)" % (head, linkgen.cframes(dfr, 4), linkgen.cobs(out_d),
                                                   clist([cZ(4 * x) for x in c['v']]), clist([cZ(t) for t in c['tags']])))
        t_plain.append("(%s, %s, %s)" % (head, linkgen.cframes(c['frames'], 4), linkgen.cobs(out_d)))
        same = partition(out_d) == partition(out_p)
        metas.append((c, out_d, out_p, same))
        chk.tally('memory=%d' % c['memory']); chk.tally('partition equal to plain run' if same else 'partition differs from plain run (tie expected)')
        if any(len(f) == 0 for f in c['frames'][1:]):
            chk.tally('movie with blank frame')
        # (b) NullPredict through link_df_iter
        if k % 3 == 0:
            cols = ['x', 'y', 'z'][:c['ndim']][::-1]
            dfs = [pd.DataFrame({**{cc: f[:, i] for i, cc in enumerate(cols)}, 'frame': t}) for f, t in zip(c['frames'], c['tags'])]
            try:
                outs = list(NullPredict().link_df_iter(dfs, linkgen.sr_float(c['sr']), memory=c['memory'], pos_columns=cols, link_strategy=c['strategy']))
                labs = [[int(x) for x in o['particle'].values] for o in outs]
                t_null.append("(%s, %s, %s)" % (head, linkgen.cframes(c['frames'], 4), linkgen.cobs(labs)))
                m_null.append((c, labs))
            except Exception as e:
                chk.violation('NullPredict.link_df_iter raised', 'NullPredict().link_df_iter raised %r' % e, dict(kind='null', case=jsonable(c)))
        # (c) arbitrary predictor: labels stay unique
        if k % 4 == 0:
            jit = [int(chk.rng.randint(-3, 3)) for _ in range(c['ndim'])]

            @predictor
            def Pj(t1, particle, jit=np.array(jit, dtype=float)):
                return particle.pos + jit * ((particle.t + t1) % 3 - 1)
            out_j = linkgen.run_link_iter(c['frames'], c['sr'], memory=c['memory'], link_strategy=c['strategy'], predictor=Pj, enumerate_t=c['tags'])
            for t, labs in enumerate(out_j):
                if labs is not None and (len(set(labs)) != len(labs) or len(labs) != len(c['frames'][t]) or any(l < 0 for l in labs)):
                    chk.violation('arbitrary predictor: invalid labels', 'labels not unique / complete in frame %d with a jitter predictor' % t,
                                  dict(kind='jitter', case=jsonable(c, out_j), jitter=jit))
    # two jobs in lockstep (a large movie with memory and a small one started alongside)
    for k in range(n // 4):
        a = gen(chk.rng, chk.tier); a['memory'] = chk.rng.choice([1, 2, 3])
        b = gen(chk.rng, chk.tier)
        b['frames'] = [f[:chk.rng.randint(1, 3)] for f in b['frames']]
        if any(linkgen.max_inrange(c['frames'], c['sr'], c['memory']) > 8 for c in (a, b)):
            continue
        c02.safe_strategy(a); c02.safe_strategy(b)
        outs = lockstep([a, b])
        for c, out_d in zip((a, b), outs):
            if any(o is None for o in out_d):
                continue
            w, R2 = linkgen.metric_of(c['sr'], c['ndim'], 4)
            head = "%s, %s, %s" % (linkgen.cmetric(w, R2), cnat(c['memory']), cnat(c['max_size']))
            t_drift.append("(%s, %s, %s, %s, %s)" % (head, linkgen.cframes(drifted(c), 4), linkgen.cobs(out_d),
                                                       clist([cZ(4 * x) for x in c['v']]), clist([cZ(t) for t in c['tags']])))
            t_plain.append("(%s, %s, %s)" % (head, linkgen.cframes(c['frames'], 4), linkgen.cobs(out_d)))
            metas.append((c, out_d, out_d, True))
            chk.tally('job advanced in lockstep with another predictor job')
    rd = common.coq_eval_lists(chk.work, IMPORTS, FUNC_DRIFT, t_drift, tag='drift')
    rp = common.coq_eval_lists(chk.work, IMPORTS, FUNC_PLAIN, t_plain, tag='plain')
    for (c, out_d, out_p, same), a, b in zip(metas, rd, rp):
        chk.count(('drift', jsonable(c, out_d)), sum(len(f) for f in c['frames']) >= 6 and any(c['v']))
        if a != 0:
            chk.violation('predictor run vs model: %s' % CODES.get(a, a),
                          'link_iter with drift predictor v=%s: labels are not an optimal linking of the predicted positions: %s' % (c['v'], CODES.get(a, a)),
                          dict(kind='drift-model', code=a, case=jsonable(c, out_d)))
        if b != 0:
            chk.violation('drifted+predictor vs undrifted plain: %s' % CODES.get(b, b),
                          'partition of the drifted movie linked with the exact predictor is not a (tie-equivalent) linking of the undrifted movie: %s' % CODES.get(b, b),
                          dict(kind='drift-plain', code=b, case=jsonable(c, out_d), plain_labels=out_p))
    rn = common.coq_eval_lists(chk.work, IMPORTS, FUNC_PLAIN, t_null, tag='null')
    for (c, labs), r in zip(m_null, rn):
        chk.count(('null', jsonable(c, labs)), True)
        if r != 0:
            chk.violation('NullPredict: %s' % CODES.get(r, r), 'NullPredict().link_df_iter differs from plain linking: %s' % CODES.get(r, r),
                          dict(kind='null', code=r, case=jsonable(c, labs)))
    if metas:
        chk.sample(jsonable(metas[0][0], metas[0][1]))
    chk.coverage['rule'] = ("lattice movies (blank frames, vanishing particles) + uniform integer drift v*t (|v| up to 1000 px/frame), frame numbering with offsets and gaps, "
                            "memory 0-3, strategies recursive/nonrecursive/numba; non-trivial = >= 6 features and v != 0")
    chk.assumptions += ["as C02 (KD-tree exact, lattice inputs)", "the drift predictor is a user function decorated with trackpy.predict.predictor (DriftPredict's own velocity estimation is not exercised)"]


def replay(chk, path):
    with linkgen.size_limit(linkgen.LIMIT):
        return _replay(chk, path)


def _replay(chk, path):
    from trackpy.predict import predictor
    common.quiet_trackpy()
    chk.coq()
    r = json.load(open(path))['replay']
    cj = r['case']
    frames = [np.array(f, dtype=float).reshape(len(f), -1) for f in cj['frames']]
    ndim = len(cj['v'])
    frames = [f.reshape(len(f), ndim) for f in frames]
    c = dict(frames=frames, sr=(tuple(Fraction(x) for x in cj['search_range']) if isinstance(cj['search_range'], list) else Fraction(cj['search_range'])), memory=cj['memory'], max_size=cj['max_size'], strategy=cj['link_strategy'],
             ndim=ndim, v=cj['v'], tags=cj['tags'])
    v = np.array(c['v'], dtype=float)

    @predictor
    def P(t1, particle):
        return particle.pos + v * (t1 - particle.t)
    dfr = drifted(c)
    out_d = linkgen.run_link_iter(dfr, c['sr'], memory=c['memory'], link_strategy=c['strategy'], predictor=P, enumerate_t=c['tags'])
    w, R2 = linkgen.metric_of(c['sr'], ndim, 4)
    head = "%s, %s, %s" % (linkgen.cmetric(w, R2), cnat(c['memory']), cnat(c['max_size']))
    b = common.coq_eval_lists(chk.work, IMPORTS, FUNC_PLAIN, ["(%s, %s, %s)" % (head, linkgen.cframes(c['frames'], 4), linkgen.cobs(out_d))])[0]
    chk.count(('replay', cj), True)
    print('replay: labels with predictor on drifted movie', out_d, 'monitor (vs undrifted plain) code', b, CODES.get(b))
    if b != 0:
        chk.violation('drifted+predictor vs undrifted plain: %s' % CODES.get(b, b), CODES.get(b, b), dict(kind='drift-plain', code=b, case=jsonable(c, out_d)))
