"""C17 -- msd / imsd / emsd compute the defined statistic, gaps and units included.

Tie (route C): trackpy.motion.msd / imsd / emsd are run on generated tables
(integer and dyadic positions, every kind of gap pattern, shuffled rows, odd
indexes, start frame != 0, mpp, fps, max_lagtime below / at / above the span,
particles of different lengths; position columns stored as float64 or -- the
"integer-stored" family -- as int8 ... uint64 columns whose squares / negative
displacements are not representable in the storage dtype: the statistic is a
function of the VALUES of the coordinates, not of the dtype they are stored in).  The observed output is embedded in a Coq term
and compared inside Coq
  (a) with the executable model Model/MSD.v (same algorithm as the Python:
      stable sort, span+1 == len dispatcher, S1/S2 path, reindex + shifted
      difference + nanmean path, masked N-weighted ensemble mean), and
  (b) with the declarative statistic Model/MSDSpec.v (mean over all pairs of
      observations n frames apart; N-weighted mean over contributing particles)
      -- the monitor: it does not share any algorithm with the implementation.
Structure (row count, lag index, NaN pattern, raised or not) is compared
exactly, float values within an a-priori bound (see tol()).
Python-side monitors: order independence (shuffled copy gives bit-identical
index and NaN pattern, values within tolerance), caller's table unchanged,
emsd(detail=False) equals the msd column of emsd(detail=True).

Tie (route T).  tools/py2coq_msd.py re-translates the CURRENT text of
trackpy/motion.py (msd, _msd_N, _msd_iter, _msd_gaps, _msd_fft, imsd, emsd) into
coq/Gen/msd.v on every run, before the Coq build; Proofs/MSDGen.v proves the
generated functions equal to Model/MSD.v for all inputs (msd, _msd_N, _msd_gaps,
_msd_fft, imsd, emsd(detail=True)) and Properties/C17.v restates the C17 theorems
for them (C17_gen_*).  A source that leaves the translatable subset, or whose translation
no longer satisfies those proofs, is reported through chk.proof_broken; the
correspondence run still takes place, so a concrete failing input is searched
for as well.  (c) When the generated file compiles, the generated functions are
also executed on the generated cases and compared exactly with the model
(all of the ensembles, a sample of the single trajectories): redundant while the
proofs hold, it yields a concrete input when a changed source breaks them.
"""
import json, os, sys, hashlib, math
import numpy as np
import pandas as pd
from fractions import Fraction
import common
from common import cnat, cZ, cQ, clist, copt, cbool

IMPORTS = "From TP Require Import Model.MSD Model.MSDSpec Model.MSDCheck."
CODES = {0: 'ok', 1: 'implementation raised, model returns a table', 2: 'model raises, implementation returned a table',
         3: 'number of rows / lag index differ from the model', 4: 'lagt is not lag/fps',
         5: 'NaN pattern of msd differs from the model', 6: 'msd value differs from the model',
         7: '<x^2> column differs from the model', 8: '<x> column differs from the model', 9: 'N column differs from the model',
         10: 'value is not the mean over all pairs n frames apart of the squared displacement',
         11: 'NaN iff no pair n frames apart is violated', 12: 'lag index is not 1..min(max_lagtime, span)',
         13: 'particle columns differ', 14: 'emsd is not the N-weighted mean over the contributing particles',
         15: 'ensemble N is not the sum of the weights of the contributing particles'}
AX = ['x', 'y', 'z']

TRANSLATOR = os.path.join(common.VERIF, 'tools', 'py2coq_msd.py')
GEN = os.path.join(common.COQ, 'Gen', 'msd.v')
IMPORTS_GEN = "From Coq Require Import Qcanon.\nFrom TP Require Import Model.MSD Model.MSDSpec Model.MSDCheck Model.PyMsd Model.MSDGen Gen.msd."
GEN_CODES = {1: 'generated code (translated from the current source) raises where the model returns a table, or the other way round',
             2: 'generated emsd (translated from the current source) returns another table than the model',
             3: 'generated imsd (translated from the current source) returns another table than the model',
             4: 'generated msd (translated from the current source) returns another table than the model'}
STATE = {'gen_ok': False}


# --------------------------------------------------------------------------
# route T: translator / build
# --------------------------------------------------------------------------
def regenerate(chk):
    """re-run the translator on the current source; returns (ok, text-or-log)"""
    rc, out = common.sh([sys.executable, TRANSLATOR, '--repo', common.REPO, '--stdout'], timeout=60)
    if rc != 0:
        return False, out
    with common.Lock(os.path.join(common.COQ, '.build.lock')):
        old = open(GEN).read() if os.path.exists(GEN) else None
        if old != out:
            os.makedirs(os.path.dirname(GEN), exist_ok=True)
            tmp = GEN + '.tmp%d' % os.getpid()
            with open(tmp, 'w') as f:
                f.write(out)
            os.replace(tmp, GEN)
            chk.tally('Gen/msd.v rewritten (source differs from last run)')
        else:
            chk.tally('Gen/msd.v unchanged')
    return True, out


def ensure(chk, files, report=True):
    """compile the given files (in order) when their .vo is missing or stale; the executable model is needed by the
    correspondence run even when the translation or a proof about the generated functions is broken"""
    def fresh(v):
        vo = os.path.join(common.COQ, v + 'o')
        return os.path.exists(vo) and os.path.getmtime(vo) >= os.path.getmtime(os.path.join(common.COQ, v))
    if all(fresh(v) for v in files):
        return True
    with common.Lock(os.path.join(common.COQ, '.build.lock')):
        for v in files:
            if fresh(v):
                continue
            rc, out = common.sh('timeout 300 coqc -Q . TP %s' % v, timeout=330, cwd=common.COQ)
            if rc != 0:
                if report:
                    chk.proof_broken(v, out)
                return False
    return True


def build(chk):
    """translator -> cone of Properties/C17.v; returns True when the executable model is available"""
    ok, text = regenerate(chk)
    STATE['gen_ok'] = False
    if not ok:
        chk.proof_broken('translation tools/py2coq_msd.py (msd / _msd_N / _msd_iter / _msd_gaps / _msd_fft / imsd / emsd of trackpy/motion.py '
                         'left the translatable subset)', text)
        chk.build = dict(obligations=0, discharged=0, assumptions=[], files=[], theorems=[])
    else:
        for attempt in range(3):
            b = chk.coq()
            if open(GEN).read() == text:
                break
            # another run (different TRACKPY_REPO) rewrote the generated file in between: redo
            chk.violations = [v for v in chk.violations if not v[0].startswith('proof:')]
            regenerate(chk)
        chk.notes.append('Gen/msd.v sha1 %s generated from %s' % (hashlib.sha1(text.encode()).hexdigest()[:12], common.REPO))
        if not b['ok']:
            with common.Lock(os.path.join(common.COQ, '.build.lock')):
                rc, out = common.sh('timeout 600 make Proofs/MSDGen.vo 2>&1 | tail -25', timeout=630, cwd=common.COQ)
            chk.notes.append('make Proofs/MSDGen.vo (generated functions = model): ' + out[-2500:])
    have_model = ensure(chk, ('Model/MSD.v', 'Model/MSDSpec.v', 'Model/MSDCheck.v'))
    if ok and have_model:
        # the generated code itself is executable when it type-checks, whether or not the proofs about it still hold
        STATE['gen_ok'] = ensure(chk, ('Model/PyMsd.v', 'Gen/msd.v', 'Model/MSDGen.v'), report=False) and open(GEN).read() == text
    return have_model



# --------------------------------------------------------------------------
# generators
# --------------------------------------------------------------------------
def gen_frames(rng, tier, kind=None):
    big = 40 if tier == 'thorough' else 24
    kind = kind or rng.choice(['contig', 'contig', 'gaps', 'gaps', 'gaps', 'sparse', 'two', 'single', 'onegap', 'endgap'])
    start = rng.choice([0, 0, 1, 3, 17, -4, 1000])
    if kind == 'contig':
        n = rng.randint(2, big)
        fr = list(range(start, start + n))
    elif kind == 'gaps':
        n = rng.randint(3, big)
        fr = [start + i for i in range(n) if rng.random() < rng.choice([0.5, 0.7, 0.9])]
    elif kind == 'sparse':
        n = rng.randint(4, big)
        fr = [start + i for i in range(n) if rng.random() < 0.25]
    elif kind == 'two':
        fr = [start, start + rng.randint(1, 9)]
    elif kind == 'single':
        fr = [start]
    elif kind == 'onegap':
        n = rng.randint(3, big)
        g = rng.randint(1, n - 2)
        fr = [start + i for i in range(n) if i != g]
    else:  # endgap: contiguous block then one far frame
        n = rng.randint(2, 10)
        fr = list(range(start, start + n)) + [start + n + rng.randint(1, 6)]
    if not fr:
        fr = [start]
    return kind, fr


def gen_positions(rng, n, ndim):
    style = rng.choice(['walk', 'walk', 'ballistic', 'offset', 'quarter', 'const', 'big'])
    pos = []
    cur = [rng.randint(-20, 20) for _ in range(ndim)]
    vel = [rng.randint(-3, 3) for _ in range(ndim)]
    for i in range(n):
        if style == 'walk':
            cur = [c + rng.randint(-4, 4) for c in cur]
        elif style == 'ballistic':
            cur = [c + v for c, v in zip(cur, vel)]
        elif style == 'offset':
            cur = [500 + rng.randint(-6, 6) for _ in cur]
        elif style == 'quarter':
            cur = [c + rng.randint(-8, 8) / 4.0 for c in cur]
        elif style == 'big':
            cur = [rng.randint(-1000, 1000) for _ in cur]
        pos.append([float(c) for c in cur])
    return style, pos


def gen_params(rng, span):
    # microns per pixel - or metres per pixel (1e-7), or any other unit: the result scales with mpp squared, whatever its size
    mpp = rng.choice([1.0, 1.0, 0.5, 0.25, 2.0, 1.5, 0.1, 100 / 285., 1e-7, 2.0 ** -23, 1e-9, 1.6e-7, 3.0e4])
    fps = rng.choice([1.0, 1.0, 2.0, 24.0, 0.5, 30.0, 7.0])
    ml = rng.choice([100, 100, 1, 2, 3, 5, max(span, 1), max(span - 1, 1), span + 1, span + 2])
    return mpp, fps, ml


def order_rows(rng, rows):
    how = rng.choice(['sorted', 'shuffled', 'shuffled', 'reversed'])
    rows = list(rows)
    if how == 'shuffled':
        rng.shuffle(rows)
    elif how == 'reversed':
        rows.reverse()
    return how, rows


def gen_msd_case(rng, tier, kind=None):
    ndim = rng.choice([1, 2, 2, 3])
    kind, fr = gen_frames(rng, tier, kind)
    style, pos = gen_positions(rng, len(fr), ndim)
    rows = [(f, p) for f, p in zip(fr, pos)]
    dup = False
    if rng.random() < 0.06 and len(rows) >= 2:      # malformed: a frame observed twice
        j = rng.randrange(len(rows))
        if rng.random() < 0.5 or len(rows) < 3:
            rows.append((rows[j][0], [p + 1.0 for p in rows[j][1]]))
        else:                                      # keep len == span + 1: drop another interior row
            k = rng.choice([i for i in range(1, len(rows) - 1)] or [0])
            if k != j and 0 < k < len(rows) - 1:
                rows[k] = (rows[j][0], [p + 1.0 for p in rows[k][1]])
        dup = len(set(f for f, _ in rows)) != len(rows)
    how, rows = order_rows(rng, rows)
    span = max(f for f, _ in rows) - min(f for f, _ in rows)
    mpp, fps, ml = gen_params(rng, span)
    index = rng.choice(['default', 'default', 'shuffled', 'offset'])
    return dict(kind='msd', rows=rows, ndim=ndim, mpp=mpp, fps=fps, max_lagtime=ml, index=index,
                tags=[kind, style, how] + (['duplicate frame'] if dup else []))


def gen_ens_case(rng, tier, fn):
    ndim = rng.choice([1, 2, 2, 3])
    npart = rng.randint(1, 5 if tier == 'quick' else 7)
    ids = rng.sample([0, 1, 2, 3, 5, 8, 13, 40, -1], npart)
    rows = []
    maxspan = 0
    kinds = []
    start0 = rng.choice([0, 0, 2, 11])
    for pid in ids:
        k, fr = gen_frames(rng, 'quick')
        off = rng.choice([0, 0, 0, 1, 2, 5])
        fr = [f - fr[0] + start0 + off for f in fr][:16]
        if len(fr) == 1 and rng.random() < 0.7:
            fr = fr + [fr[0] + 1 + rng.randint(0, 2)]
        _, pos = gen_positions(rng, len(fr), ndim)
        rows += [(pid, f, p) for f, p in zip(fr, pos)]
        maxspan = max(maxspan, max(fr) - min(fr))
        kinds.append(k)
    rng.shuffle(rows) if rng.random() < 0.6 else None
    mpp, fps, ml = gen_params(rng, maxspan)
    index = rng.choice(['default', 'default', 'shuffled', 'frame-named'])
    return dict(kind=fn, rows=rows, ndim=ndim, mpp=mpp, fps=fps, max_lagtime=ml, index=index, tags=sorted(set(kinds)))


# --------------------------------------------------------------------------
# integer-stored positions (pixel-lattice coordinates, integer nanometres, columns downcast to save memory)
# --------------------------------------------------------------------------
INT_DTYPES = ['int8', 'uint8', 'int16', 'uint16', 'int32', 'uint32', 'int64', 'uint64']
INT_CAP = 2 ** 40      # 64-bit columns: |coordinate| <= 2^40, exactly representable as float64 (and in the json replay file)


def int_range(dt):
    ii = np.iinfo(dt)
    return max(int(ii.min), -INT_CAP), min(int(ii.max), INT_CAP)


def sq_limit(dt):
    """largest v whose square is representable in dtype dt"""
    return math.isqrt(int(np.iinfo(dt).max))


def gen_int_column(rng, n, dt):
    """n integer coordinates representable in dt; level = where they sit relative to sqrt(max of dt) and to the ends of the range"""
    lo, hi = int_range(dt)
    thr = sq_limit(dt)
    signed = lo < 0
    level = rng.choice(['small', 'edge', 'edge', 'field', 'field', 'field', 'top', 'bottom' if signed else 'zero'])
    if level == 'small':          # every square representable (unsigned: negative displacements still are not)
        base, step = rng.randint(-(thr // 2) if signed else 0, thr // 2), rng.choice([1, 2, 4])
    elif level == 'edge':         # straddling sqrt(max): some squares representable, some not
        base, step = thr + rng.randint(-3, 3), rng.choice([1, 2, 4])
    elif level == 'field':        # ordinary coordinates (a few hundred pixels in int16, tens of thousands of nm in int32, ...)
        base, step = rng.randint(thr + 1, min(hi, 40 * thr)), rng.choice([1, 4, 9, max(1, thr // 8)])
    elif level == 'top':
        base, step = hi - rng.randint(0, 50), rng.choice([1, 4, 9])
    elif level == 'bottom':       # signed: most negative values, the minimum itself included
        base, step = lo + rng.randint(0, 50), rng.choice([1, 4, 9])
    else:                         # unsigned: at the origin
        base, step = rng.randint(0, 5), rng.choice([1, 3])
    if signed and level in ('edge', 'field') and rng.random() < 0.3:
        base = -base
    style = rng.choice(['walk', 'walk', 'jump', 'ballistic', 'const'])
    vel = rng.randint(-step, step)
    cur, out = base, []
    for i in range(n):
        if style == 'walk':
            cur += rng.randint(-step, step)
        elif style == 'jump':
            cur = base + rng.randint(-3 * step, 3 * step)
        elif style == 'ballistic':
            cur += vel
        cur = min(hi, max(lo, cur))
        out.append(cur)
    return level, out


def gen_int_dtypes(rng, ndim):
    if rng.random() < 0.15:
        # single-precision storage (a downcast table, a float32 file): whole-pixel values (exact in float32), generated like an
        # int16 / int32 column; the statistic is a function of the VALUES, computed in double precision
        return ['float32'] * ndim
    if ndim > 1 and rng.random() < 0.2:      # columns of different integer dtypes: .values takes their common dtype
        return [rng.choice(INT_DTYPES) for _ in range(ndim)]
    return [rng.choice(['int8', 'uint8', 'int16', 'int16', 'uint16', 'uint16', 'int32', 'int32', 'uint32', 'int64', 'uint64'])] * ndim


def gen_int_positions(rng, n, dtypes):
    levels, cols = [], []
    for dt in dtypes:
        if dt == 'float32':
            lv, col = gen_int_column(rng, n, rng.choice(['int16', 'int16', 'int32']))
            col = [min(2 ** 24 - 1, max(-(2 ** 24) + 1, v)) for v in col]      # exactly representable in float32
        else:
            lv, col = gen_int_column(rng, n, dt)
        levels.append(lv)
        cols.append(col)
    return levels, [[float(col[i]) for col in cols] for i in range(n)]


def gen_int_msd_case(rng, tier):
    """single trajectory whose position columns are stored in (narrow) integer dtypes; 2 in 3 gap-free (FFT path)"""
    ndim = rng.choice([1, 2, 2, 3])
    kind, fr = gen_frames(rng, tier, rng.choice(['contig', 'contig', 'contig', 'contig', 'gaps', 'onegap', 'two', 'endgap', 'single']))
    dtypes = gen_int_dtypes(rng, ndim)
    levels, pos = gen_int_positions(rng, len(fr), dtypes)
    how, rows = order_rows(rng, list(zip(fr, pos)))
    span = max(fr) - min(fr)
    mpp, fps, ml = gen_params(rng, span)
    if rng.random() < 0.4:
        mpp = 1          # the Python int 1 ('positions are already in the unit I want'): narrow integer storage times an
        #                  int stays narrow, so the squares must not be taken in the storage dtype (finding F20)
    index = rng.choice(['default', 'default', 'shuffled', 'offset'])
    return dict(kind='msd', rows=rows, ndim=ndim, mpp=mpp, fps=fps, max_lagtime=ml, index=index, dtype=dtypes,
                tags=['integer-stored', kind, how] + sorted(set('level ' + l for l in levels)))


def gen_int_ens_case(rng, tier, fn):
    ndim = rng.choice([1, 2, 2, 3])
    npart = rng.randint(1, 4)
    ids = rng.sample([0, 1, 2, 3, 5, 8, 13, 40, -1], npart)
    dtypes = gen_int_dtypes(rng, ndim)
    rows, maxspan, tags = [], 0, set()
    start0 = rng.choice([0, 0, 2, 11])
    for pid in ids:
        k, fr = gen_frames(rng, 'quick', rng.choice(['contig', 'contig', 'contig', 'gaps', 'onegap', 'two']))
        off = rng.choice([0, 0, 0, 1, 2, 5])
        fr = [f - fr[0] + start0 + off for f in fr][:16]
        levels, pos = gen_int_positions(rng, len(fr), dtypes)
        rows += [(pid, f, p) for f, p in zip(fr, pos)]
        maxspan = max(maxspan, max(fr) - min(fr))
        tags.add(k)
        tags.update('level ' + l for l in levels)
    rng.shuffle(rows) if rng.random() < 0.6 else None
    mpp, fps, ml = gen_params(rng, maxspan)
    if rng.random() < 0.4:
        mpp = 1
    index = rng.choice(['default', 'default', 'shuffled', 'frame-named'])
    return dict(kind=fn, rows=rows, ndim=ndim, mpp=mpp, fps=fps, max_lagtime=ml, index=index, dtype=dtypes,
                tags=['integer-stored'] + sorted(tags))


def int_storage_facts(c):
    """for the tallies: what about this integer-stored table is not representable in the dtype .values gives the position block"""
    common_dt = np.result_type(*[np.dtype(d) for d in c['dtype']])
    facts = ['stored as ' + ('/'.join(sorted(set(c['dtype'])))), 'position block dtype ' + common_dt.name]
    if common_dt.kind not in 'iu':
        return facts
    hi = int(np.iinfo(common_dt).max)
    groups = {}
    for r in c['rows']:
        groups.setdefault(r[0] if c['kind'] != 'msd' else 0, []).append((r[-2], r[-1]))
    sq = neg = fft = False
    for g in groups.values():
        g.sort(key=lambda t: t[0])
        contiguous = len(g) >= 2 and g[-1][0] - g[0][0] + 1 == len(g) and len(set(f for f, _ in g)) == len(g)
        if not contiguous:
            continue
        fft = True
        if any(int(v) * int(v) > hi for _, p in g for v in p):
            sq = True
        if common_dt.kind == 'u' and any(b[1][k] < a[1][k] for a in g for b in g if b[0] > a[0] for k in range(c['ndim'])):
            neg = True
    if fft:
        facts.append('gap-free trajectory present (FFT path)')
    if sq:
        facts.append('gap-free trajectory with a squared coordinate not representable in the position block dtype')
    if neg:
        facts.append('gap-free trajectory in unsigned storage with a negative displacement')
    return facts


def exhaustive_gap_cases(rng, maxlen):
    """every subset of frames 0..maxlen-1 that contains 0 (thorough tier)"""
    out = []
    for L in range(1, maxlen + 1):
        for mask in range(1 << (L - 1)):
            fr = [0] + [i for i in range(1, L) if mask >> (i - 1) & 1]
            if fr[-1] != L - 1 and L > 1:
                continue
            pos = [[float(rng.randint(-9, 9))] for _ in fr]
            out.append(dict(kind='msd', rows=list(zip(fr, pos)), ndim=1, mpp=1.0, fps=1.0, max_lagtime=100,
                            index='default', tags=['exhaustive gap pattern']))
    return out


CORPUS = [
    # F6: shuffled rows (pre-fix: FFT path used row order, gap path first/last row as span)
    dict(kind='msd', rows=[(2, [3.0, 0.0]), (0, [0.0, 0.0]), (3, [6.0, 1.0]), (1, [1.0, 0.0]), (4, [10.0, 1.0])], ndim=2, mpp=1.0, fps=1.0,
         max_lagtime=100, index='default', tags=['corpus F6 contiguous shuffled']),
    dict(kind='msd', rows=[(9, [5.0]), (0, [0.0]), (4, [1.0]), (2, [7.0])], ndim=1, mpp=0.5, fps=2.0,
         max_lagtime=100, index='default', tags=['corpus F6 gapped shuffled']),
    # F7: frames {4, 9}: lags 1-4 must be NaN, lag 5 a value
    dict(kind='msd', rows=[(4, [1.0, 2.0]), (9, [4.0, 6.0])], ndim=2, mpp=1.0, fps=1.0, max_lagtime=100, index='default',
         tags=['corpus F7 frames {4,9}']),
    # F11: emsd weights
    dict(kind='emsd', rows=[(0, f, [float(x)]) for f, x in zip(range(5), [0, 1, 3, 6, 10])] + [(1, f, [float(x)]) for f, x in zip([0, 2, 4], [0, 5, 7])],
         ndim=1, mpp=1.0, fps=1.0, max_lagtime=100, index='default', tags=['corpus F11']),
    dict(kind='imsd', rows=[(0, f, [float(x)]) for f, x in zip(range(5), [0, 1, 3, 6, 10])] + [(1, f, [float(x)]) for f, x in zip([0, 2, 4], [0, 5, 7])],
         ndim=1, mpp=1.0, fps=1.0, max_lagtime=100, index='default', tags=['corpus F11 imsd']),
    # F9: index named like a column
    dict(kind='emsd', rows=[(0, f, [float(f * f), 1.0]) for f in range(4)] + [(3, f, [float(f), 0.0]) for f in (1, 2, 5)],
         ndim=2, mpp=0.5, fps=24.0, max_lagtime=3, index='frame-named', tags=['corpus F9 frame-named index']),
    # max_lagtime boundary: exactly span, span - 1
    dict(kind='msd', rows=[(f, [float(f * f)]) for f in range(6)], ndim=1, mpp=1.0, fps=1.0, max_lagtime=5, index='default', tags=['corpus max_lagtime == span']),
    dict(kind='msd', rows=[(f, [float(f * f)]) for f in range(6)], ndim=1, mpp=1.0, fps=1.0, max_lagtime=4, index='default', tags=['corpus max_lagtime == span-1']),
    dict(kind='msd', rows=[(f, [float(f * f)]) for f in (0, 1, 2, 4, 5)], ndim=1, mpp=1.0, fps=1.0, max_lagtime=5, index='default', tags=['corpus gapped max_lagtime == span']),
    # single observation, two observations
    dict(kind='msd', rows=[(7, [1.0, 1.0])], ndim=2, mpp=1.0, fps=1.0, max_lagtime=100, index='default', tags=['corpus single row']),
    dict(kind='msd', rows=[(7, [1.0, 1.0]), (8, [2.0, 3.0])], ndim=2, mpp=1.0, fps=1.0, max_lagtime=100, index='default', tags=['corpus two rows']),
    # duplicate frame with span + 1 == len (FFT path taken) and without
    dict(kind='msd', rows=[(0, [0.0]), (0, [1.0]), (2, [5.0])], ndim=1, mpp=1.0, fps=1.0, max_lagtime=100, index='default', tags=['corpus duplicate frame, span+1 == len']),
    dict(kind='msd', rows=[(0, [0.0]), (0, [1.0]), (3, [5.0])], ndim=1, mpp=1.0, fps=1.0, max_lagtime=100, index='default', tags=['corpus duplicate frame, gap path']),
    # particles of very different lengths, one with a single lag
    dict(kind='emsd', rows=[(5, f, [float(f % 3), float(f)]) for f in range(10)] + [(2, 3, [0.0, 0.0]), (2, 4, [1.0, 1.0])] + [(9, f, [float(-f), 2.0]) for f in (0, 3, 6, 9)],
         ndim=2, mpp=0.25, fps=2.0, max_lagtime=100, index='default', tags=['corpus mixed lengths']),
    # integer-stored positions: the value of the statistic must not depend on the storage dtype of the position columns
    dict(kind='msd', rows=[(7 + i, [float(x), float(y)]) for i, (x, y) in enumerate(zip([500, 503, 501, 506, 509, 504, 511], [300, 299, 305, 304, 310, 312, 309]))],
         ndim=2, mpp=0.5, fps=4.0, max_lagtime=100, index='default', dtype=['int16', 'int16'], tags=['corpus integer-stored int16 pixel walk']),
    dict(kind='msd', rows=[(i, [float(x), float(y)]) for i, (x, y) in enumerate(zip([500, 503, 501, 506, 509, 504, 511], [300, 299, 305, 304, 310, 312, 309]))],
         ndim=2, mpp=100 / 285., fps=24.0, max_lagtime=3, index='default', dtype=['uint16', 'uint16'], tags=['corpus integer-stored uint16 pixel walk']),
    dict(kind='msd', rows=[(3 + i, [float(x), float(y)]) for i, (x, y) in enumerate(zip([60000, 60310, 59950, 60120, 60555, 60400], [52000, 51800, 52250, 52100, 51700, 51950]))],
         ndim=2, mpp=0.5, fps=1.0, max_lagtime=100, index='default', dtype=['int32', 'int32'], tags=['corpus integer-stored int32 nanometre walk']),
    dict(kind='msd', rows=[(i, [float(x), float(y)]) for i, (x, y) in enumerate(zip([500, 503, 501, 506, 509], [300, 299, 305, 304, 310]))], ndim=2, mpp=1, fps=1.0,
         max_lagtime=100, index='default', dtype=['int16', 'int16'], tags=['corpus F20 int16 positions, integer mpp']),
    dict(kind='msd', rows=[(i, [float(x)]) for i, x in enumerate([5, 3, 9, 2, 2, 7])], ndim=1, mpp=1.0, fps=1.0, max_lagtime=100, index='default', dtype=['uint8'],
         tags=['corpus integer-stored uint8 small, negative displacements']),
    dict(kind='msd', rows=[(i, [float(x), float(y)]) for i, (x, y) in enumerate(zip([-128, -120, -127, -100, -128], [127, 126, 120, 127, 90]))],
         ndim=2, mpp=2.0, fps=1.0, max_lagtime=100, index='default', dtype=['int8', 'int8'], tags=['corpus integer-stored int8 at the ends of the range']),
    dict(kind='msd', rows=[(i, [float(x)]) for i, x in enumerate([2 ** 33, 2 ** 33 + 40, 2 ** 33 - 7, 2 ** 33 + 90, 2 ** 33 + 61])], ndim=1, mpp=0.25, fps=1.0, max_lagtime=100,
         index='default', dtype=['int64'], tags=['corpus integer-stored int64 beyond 2^31.5']),
    dict(kind='msd', rows=[(i, [float(x), float(y)]) for i, (x, y) in enumerate(zip([500, 503, 501, 506, 509], [70000, 70010, 69990, 70020, 70015]))],
         ndim=2, mpp=0.5, fps=1.0, max_lagtime=100, index='default', dtype=['int16', 'int32'], tags=['corpus integer-stored mixed int16/int32 columns']),
    dict(kind='msd', rows=[(f, [float(x), float(y)]) for f, x, y in [(0, 500, 300), (1, 503, 299), (2, 501, 305), (4, 506, 304), (5, 509, 310), (9, 504, 312)]],
         ndim=2, mpp=0.5, fps=4.0, max_lagtime=100, index='default', dtype=['uint16', 'uint16'], tags=['corpus integer-stored uint16 with gaps']),
    dict(kind='emsd', rows=[(0, 3 + f, [400.0 + 3 * f * (-1) ** f, 350.0 + f]) for f in range(8)] + [(1, f, [437.0 - 2 * f, 361.0 + 5 * (f % 3)]) for f in range(5)]
         + [(2, f, [474.0 + f, 372.0 - f]) for f in (5, 6, 8, 9, 13)],
         ndim=2, mpp=0.5, fps=4.0, max_lagtime=30, index='default', dtype=['uint16', 'uint16'], tags=['corpus integer-stored uint16 ensemble']),
    dict(kind='imsd', rows=[(0, 3 + f, [52000.0 + 390 * f * (-1) ** f, 45500.0 + 130 * f]) for f in range(8)] + [(1, f, [56810.0 - 260 * f, 46930.0 + 650 * (f % 3)]) for f in range(5)],
         ndim=2, mpp=0.5, fps=4.0, max_lagtime=30, index='default', dtype=['int32', 'int32'], tags=['corpus integer-stored int32 ensemble']),
]


# --------------------------------------------------------------------------
# running the implementation
# --------------------------------------------------------------------------
def make_df(c, rng_index_seed=0):
    cols = AX[:c['ndim']]
    if c['kind'] == 'msd':
        d = {'frame': np.array([r[0] for r in c['rows']], dtype=np.int64)}
        P = [r[1] for r in c['rows']]
    else:
        d = {'particle': np.array([r[0] for r in c['rows']], dtype=np.int64),
             'frame': np.array([r[1] for r in c['rows']], dtype=np.int64)}
        P = [r[2] for r in c['rows']]
    for k, a in enumerate(cols):
        if c.get('dtype'):      # integer-stored family: the same values, stored in an integer column
            d[a] = np.array([int(p[k]) for p in P], dtype=c['dtype'][k])
            assert [float(v) for v in d[a]] == [p[k] for p in P], 'coordinate not representable in ' + c['dtype'][k]
        else:
            d[a] = np.array([p[k] for p in P], dtype=float)
    df = pd.DataFrame(d)
    n = len(df)
    if c['index'] == 'shuffled':
        idx = np.arange(n)[::-1].copy()
        if n > 2:
            idx[[0, n // 2]] = idx[[n // 2, 0]]
        df.index = idx
    elif c['index'] == 'offset':
        df.index = np.arange(n) * 3 + 100
    elif c['index'] == 'frame-named':
        df.index = pd.Index(df['frame'].values, name='frame')
    return df, cols


def f2o(x):
    x = float(x)
    return None if np.isnan(x) else x


def run_impl(c):
    """returns ('raise', repr) or ('ok', canonical output) ; also python-side monitor messages"""
    import trackpy as tp
    df, cols = make_df(c)
    before = df.copy()
    msgs = []
    try:
        if c['kind'] == 'msd':
            r = tp.msd(df, c['mpp'], c['fps'], c['max_lagtime'], detail=True, pos_columns=cols)
            out = []
            for lag, row in zip(r.index.values, r.itertuples(index=False)):
                rd = dict(zip(r.columns, row))
                out.append(dict(lag=int(lag), lagt=float(rd['lagt']), disp=[f2o(rd['<%s>' % a]) for a in cols],
                                sq=[f2o(rd['<%s^2>' % a]) for a in cols], msd=f2o(rd['msd']), N=float(rd['N'])))
            r2 = tp.msd(df, c['mpp'], c['fps'], c['max_lagtime'], detail=False, pos_columns=cols)
            if 'N' in r2.columns or not r2['msd'].equals(r['msd']) or r.index.name != 'lagt':
                msgs.append('msd(detail=False) differs from msd(detail=True) in the msd column / index name')
        elif c['kind'] == 'imsd':
            r = tp.imsd(df, c['mpp'], c['fps'], c['max_lagtime'], pos_columns=cols)
            out = dict(pids=[int(p) for p in r.columns],
                       rows=[dict(lagt=float(t), vals=[f2o(v) for v in vals]) for t, vals in zip(r.index.values, r.values)])
        else:
            r = tp.emsd(df, c['mpp'], c['fps'], c['max_lagtime'], detail=True, pos_columns=cols)
            out = [dict(lag=int(lag), lagt=float(lt), msd=f2o(m), N=float(n) if not np.isnan(n) else 0.0)
                   for lag, lt, m, n in zip(r.index.values, r['lagt'].values, r['msd'].values, r['N'].values)]
            s = tp.emsd(df, c['mpp'], c['fps'], c['max_lagtime'], detail=False, pos_columns=cols)
            if not (np.array_equal(s.values, r['msd'].values, equal_nan=True) and np.array_equal(s.index.values, r['lagt'].values)):
                msgs.append('emsd(detail=False) is not the msd column of emsd(detail=True) indexed by lagt')
    except Exception as e:
        return 'raise', repr(e)[:200], msgs
    if not df.equals(before) or list(df.index) != list(before.index) or df.index.name != before.index.name:
        msgs.append("caller's table was modified")
    return 'ok', out, msgs


def unit(c):
    """the power of two nearest to mpp when mpp is far from 1 (a length unit like metres per pixel), else 1.  Every quantity msd
    reports is homogeneous in mpp (displacements ~ mpp, squared displacements ~ mpp^2, N and the lag columns not at all), and
    scaling by a power of two is exact in binary floating point: the comparison with the model is made in the unit u = unit(c)
    (model run with mpp/u, reported displacements divided by u, squared ones by u^2), where the a-priori rounding bound of tol()
    applies unchanged.  Without this, values of 1e-14 (mpp = 1e-7) would be compared with an absolute slack of 2^-34."""
    m = float(c['mpp'])
    if m <= 0 or (2.0 ** -4 <= m <= 2.0 ** 4):
        return Fraction(1)
    k = int(round(math.log2(m)))
    return Fraction(2) ** k


def tol(c):
    """a-priori float bound: the FFT path forms S1 - 2*S2 from sums of n squared
    coordinates (magnitude n*(mpp*max|x|)^2), each float operation contributes
    <= 2^-53 relative, O(n + log n) operations per entry -> error <= ~ n * scale * 2^-50;
    we allow scale * 2^-34 (x 2^16 headroom), scale = max(1, n * (mpp*max|x|)^2), with mpp expressed in the unit of unit(c).
    The comparison in Coq is |impl - exact| <= tol * (1 + |exact|)."""
    P = [r[-1] for r in c['rows']]
    m = max([abs(v) for p in P for v in p] + [1.0]) * float(Fraction(c['mpp']) / unit(c))
    scale = max(1.0, len(P) * m * m)
    return Fraction(int(scale) + 1, 2 ** 34)


def crow(f, p):
    return "(%s, %s)" % (cZ(f), clist([cQ(v) for v in p]))


def is_valid(c):
    if c['kind'] == 'msd':
        fr = [r[0] for r in c['rows']]
        return len(fr) > 0 and len(set(fr)) == len(fr)
    seen = set()
    for pid, f, _ in c['rows']:
        if (pid, f) in seen:
            return False
        seen.add((pid, f))
    return len(c['rows']) > 0


def case_term(c, status, out):
    u = unit(c)                                                   # power of two: the divisions below are exact
    ex = lambda v: Fraction(*float(v).as_integer_ratio())
    o1 = lambda v: copt(v, lambda w: cQ(ex(w) / u))               # displacements, in units of u
    o2 = lambda v: copt(v, lambda w: cQ(ex(w) / (u * u)))         # squared displacements
    head = "%s %s" % (cQ(tol(c)), cbool(is_valid(c)))
    tail = "%s %s %s %s" % (cQ(Fraction(c['mpp']) / u), cQ(c['fps']), cnat(min(c['max_lagtime'], 4000)), cnat(c['ndim']))
    if c['kind'] == 'msd':
        traj = clist([crow(f, p) for f, p in c['rows']])
        o = "None" if status == 'raise' else "(Some %s)" % clist(
            ["(%s, %s, %s, %s, %s, %s)" % (cZ(r['lag']), cQ(r['lagt']), clist([o1(v) for v in r['disp']]), clist([o2(v) for v in r['sq']]),
                                         o2(r['msd']), cQ(r['N'])) for r in out])
        return "check_msd %s %s %s %s" % (head, traj, tail, o)
    traj = clist(["(%s, %s)" % (cZ(pid), crow(f, p)) for pid, f, p in c['rows']])
    if c['kind'] == 'imsd':
        o = "None" if status == 'raise' else "(Some (%s, %s))" % (
            clist([cZ(p) for p in out['pids']]), clist(["(%s, %s)" % (cQ(r['lagt']), clist([o2(v) for v in r['vals']])) for r in out['rows']]))
        return "check_imsd %s %s %s %s" % (head, traj, tail, o)
    o = "None" if status == 'raise' else "(Some %s)" % clist(
        ["(%s, %s, %s, %s)" % (cZ(r['lag']), cQ(r['lagt']), o2(r['msd']), cQ(r['N'])) for r in out])
    return "check_emsd %s %s %s %s" % (head, traj, tail, o)


FUNC = "fun c : N => c"


def gen_term(c):
    """the generated function (Gen/msd.v) next to the model on the same input: exact comparison inside Coq"""
    args = "(Q2Qc %s) (Q2Qc %s)" % (cQ(c['mpp']), cQ(c['fps']))
    ml = cnat(min(c['max_lagtime'], 4000))
    pc = "(Some (seq 0 %s))" % cnat(c['ndim'])
    if c['kind'] == 'msd':
        traj = "(map to_row %s)" % clist([crow(f, p) for f, p in c['rows']])
        return ("cmp_gen_msd (seq 0 %s) true (py_msd %s %s (Z.of_nat %s) true %s) (msd %s %s %s %s)"
                % (cnat(c['ndim']), traj, args, ml, pc, traj, args, ml, cnat(c['ndim'])))
    traj = "(map to_prow %s)" % clist(["(%s, %s)" % (cZ(pid), crow(f, p)) for pid, f, p in c['rows']])
    if c['kind'] == 'imsd':
        return ("cmp_gen_imsd (py_imsd %s %s (Z.of_nat %s) LMsd %s) (imsd %s %s %s %s)"
                % (traj, args, ml, pc, traj, args, ml, cnat(c['ndim'])))
    return ("cmp_gen_emsd (py_emsd %s %s (Z.of_nat %s) true %s) (emsd %s %s %s %s)"
            % (traj, args, ml, pc, traj, args, ml, cnat(c['ndim'])))


def nontrivial(c):
    """non-trivial: at least 3 observations of some particle and at least 2 lags requested"""
    if c['kind'] == 'msd':
        return len(c['rows']) >= 3 and c['max_lagtime'] >= 2
    return len(c['rows']) >= 4 and c['max_lagtime'] >= 2


def close_py(a, b, t, u2=1.0):
    """u2: the square of unit(c) - values are compared in that unit (exact rescaling)"""
    if a is None or b is None:
        return a is None and b is None
    a, b = a / u2, b / u2
    return abs(a - b) <= float(t) * (1 + abs(b)) * 4


def order_monitor(c, status, out, rng):
    """permute the rows (and re-index): the result must be the same table"""
    c2 = dict(c)
    rows = list(c['rows'])
    rng.shuffle(rows)
    c2['rows'] = rows
    c2['index'] = 'default'
    s2, o2, _ = run_impl(c2)
    if s2 != status:
        return 'row order changes whether the call raises'
    if status == 'raise':
        return None
    t = tol(c)
    u2 = float(unit(c) ** 2)
    if c['kind'] == 'imsd':
        if out['pids'] != o2['pids'] or len(out['rows']) != len(o2['rows']):
            return 'row order changes the shape of the result'
        for a, b in zip(out['rows'], o2['rows']):
            if a['lagt'] != b['lagt'] or not all(close_py(x, y, t, u2) for x, y in zip(a['vals'], b['vals'])):
                return 'row order changes the result'
        return None
    if len(out) != len(o2):
        return 'row order changes the number of lags'
    for a, b in zip(out, o2):
        if a['lag'] != b['lag'] or a['lagt'] != b['lagt'] or not close_py(a['msd'], b['msd'], t, u2):
            return 'row order changes the result'
    return None


def run_cases(chk, cases, tag='cases'):
    terms, kept = [], []
    for c in cases:
        status, out, msgs = run_impl(c)
        jc = dict(c, impl=dict(status=status, out=out))
        for m in msgs:
            chk.violation('%s:%s' % (c['kind'], m), '%s: %s' % (c['kind'], m), jc)
        chk.tally('fn=' + c['kind'])
        for t in c['tags']:
            chk.tally('tag=' + t)
        chk.tally('index=' + c['index'])
        if c.get('dtype'):
            chk.tally('integer-stored: fn=' + c['kind'])
            for f in int_storage_facts(c):
                chk.tally('integer-stored: ' + f)
        if status == 'raise':
            chk.tally('implementation raised')
        elif c['kind'] == 'msd':
            chk.tally('rows with NaN msd', sum(1 for r in out if r['msd'] is None))
            fr = [r[0] for r in c['rows']]
            chk.tally('FFT path (span+1 == len)' if max(fr) - min(fr) + 1 == len(fr) else 'gap path')
        if is_valid(c):
            m = order_monitor(c, status, out, chk.rng)
            if m:
                chk.violation('%s:order:%s' % (c['kind'], m), '%s: %s' % (c['kind'], m), jc)
        terms.append(case_term(c, status, out))
        kept.append(jc)
    import time
    t0 = time.time()
    res = common.coq_eval_lists(chk.work, IMPORTS, FUNC, terms, shard=24, tag=tag)
    chk.coverage['coq_eval_s'] = round(chk.coverage.get('coq_eval_s', 0) + time.time() - t0, 1)
    for jc, r in zip(kept, res):
        chk.count((jc['kind'], jc['rows'], jc['mpp'], jc['fps'], jc['max_lagtime']) + ((tuple(jc['dtype']),) if jc.get('dtype') else ()), nontrivial(jc))
        if r != 0:
            chk.violation('%s:%s' % (jc['kind'], CODES.get(r, r)), '%s(mpp=%s, fps=%s, max_lagtime=%s) on %d rows%s [%s]: %s' % (
                jc['kind'], jc['mpp'], jc['fps'], jc['max_lagtime'], len(jc['rows']),
                ' (position columns stored as %s)' % '/'.join(jc['dtype']) if jc.get('dtype') else '', ','.join(jc['tags']), CODES.get(r, r)), dict(jc, code=r))
    # (c) the generated functions next to the model: every ensemble, a sample of the single trajectories
    if STATE['gen_ok']:
        n_msd = 0
        sel = []
        for jc in kept:
            if jc['kind'] == 'msd':
                n_msd += 1
                if n_msd > 60 and tag != 'replay' and not jc['tags'][0].startswith('corpus'):
                    continue
            if len(jc['rows']) > 60:
                continue
            sel.append(jc)
        t0 = time.time()
        try:
            gres = common.coq_eval_lists(chk.work, IMPORTS_GEN, FUNC, [gen_term(jc) for jc in sel], shard=24, tag=tag + '_gen')
        except RuntimeError as e:
            chk.proof_broken('Gen/msd.v: the generated functions could not be executed', str(e))
            gres = []
        chk.coverage['coq_eval_gen_s'] = round(chk.coverage.get('coq_eval_gen_s', 0) + time.time() - t0, 1)
        for jc, r in zip(sel, gres):
            chk.tally('generated %s executed next to the model' % jc['kind'])
            if r != 0:
                chk.violation('generated %s: %s' % (jc['kind'], GEN_CODES.get(r, r)),
                              'Gen/msd.v py_%s(mpp=%s, fps=%s, max_lagtime=%s) on %d rows [%s]: %s' % (
                                  jc['kind'], jc['mpp'], jc['fps'], jc['max_lagtime'], len(jc['rows']), ','.join(jc['tags']), GEN_CODES.get(r, r)),
                              dict(jc, gen_code=r))
    elif tag != 'replay':
        chk.tally('generated functions not executable (translation / build failed): generated-code comparison skipped')
    return kept


def run(chk):
    common.quiet_trackpy()
    if not build(chk):
        return
    rng = chk.rng
    quick = chk.tier == 'quick'
    cases = [dict(c) for c in CORPUS]
    n_msd, n_ens = (260, 70) if quick else (2500, 500)
    for k in range(n_msd):
        cases.append(gen_msd_case(rng, chk.tier))
    for k in range(n_ens):
        cases.append(gen_ens_case(rng, chk.tier, 'emsd'))
        cases.append(gen_ens_case(rng, chk.tier, 'imsd'))
    # integer-stored family (generated after the others: the float64 cases of a seed stay what they were)
    n_imsd, n_iens = (80, 14) if quick else (800, 150)
    for k in range(n_imsd):
        cases.append(gen_int_msd_case(rng, chk.tier))
    for k in range(n_iens):
        cases.append(gen_int_ens_case(rng, chk.tier, 'emsd'))
        cases.append(gen_int_ens_case(rng, chk.tier, 'imsd'))
    if not quick:
        cases += exhaustive_gap_cases(rng, 8)
        chk.coverage['exhaustive_gap_patterns_up_to_span'] = 8
    kept = run_cases(chk, cases)
    for jc in kept[:2] + [k for k in kept if k['kind'] == 'emsd'][:1] + [k for k in kept if k['kind'] == 'imsd'][:1]:
        chk.sample(jc)
    chk.coverage['rule'] = ("corpus (DESIGN 4 witnesses F6, F7, F11, F9 + boundary cases) first, then generated single trajectories "
                            "(contiguous / random gaps / sparse / two rows / single row / one gap / far last frame; integer, quarter-pixel, large-offset positions; "
                            "1-3 axes; rows sorted, reversed or shuffled; default, permuted, offset or frame-named index; mpp, fps, max_lagtime below/at/above the span; "
                            "6% malformed with a duplicated frame) through msd(detail=True/False), and multi-particle tables through imsd and emsd(detail=True/False); "
                            "integer-stored family (corpus witnesses + generated, tallied as 'integer-stored: ...'): the same kind of tables with the position columns "
                            "stored as int8/uint8/int16/uint16/int32/uint32/int64/uint64 columns (one dtype, or 1 in 5 a different integer dtype per column; 64-bit coordinates "
                            "kept within +-2^40 so that they are exact floats), coordinates placed below / straddling / well above sqrt(max of the dtype), at the top and the "
                            "bottom of the dtype's range and at the origin (walk, jumps, ballistic, constant), 2 in 3 gap-free (FFT path), the rest with gaps, float mpp; "
                            "expected value = the exact statistic of the coordinate VALUES (Coq model + declarative spec), so any intermediate computed in the storage "
                            "dtype (wrapped squares, wrapped unsigned differences) shows as a value difference; "
                            "thorough adds every gap pattern of span <= 8. non-trivial = >= 3 observations (>= 4 for ensembles) and max_lagtime >= 2; distinct by content.")
    chk.assumptions += [
        "np.fft autocorrelation is modelled as the exact sum S2(m) = sum_i r_i r_(i+m) (modelled, not verified); float results are compared with the exact rational value within scale*2^-34, scale = max(1, n*(mpp*max|x|)^2)",
        "pandas primitives by meaning: stable argsort, reindex (raises on duplicate labels), nanmean / groupby.mean skip NaN, sum(skipna=False), groupby('particle') ascending",
        "theorems assume: trajectory non-empty, frames distinct, at least one position column, no NaN coordinates; duplicated-frame inputs are covered by correspondence only",
        "_msd_N (Qian et al.) is taken as the definition of the weight N; not derived",
        "input representation covered: frame / particle columns int64, position columns float64 or (integer-stored family) numpy integer dtypes, "
        "mpp and fps Python floats; not exercised: float32 position columns (computed in float32 by the implementation, a-priori bound would differ), "
        "an integer mpp, narrow integer frame columns, pandas nullable / object dtypes",
        "route T: tools/py2coq_msd.py (trusted, fail-closed; subset, conventions and the list of numpy / pandas primitives in its docstring) and the "
        "vocabulary Model/PyMsd.v (2-D arrays as lists of columns, tables with labelled columns, np.fft.fft/ifft as the exact circular autocorrelation "
        "of the zero-padded signal, reindex / groupby / unstack / where / mul / div by their meaning) are trusted; generated = model is proved for msd, "
        "_msd_N, _msd_gaps, _msd_fft, imsd and emsd(detail=True) (0 < number of position columns; emsd on the columns lagt, msd, N the model has); "
        "emsd(detail=False) is translated but has no model counterpart",
    ]


def replay(chk, path):
    common.quiet_trackpy()
    if not build(chk):
        return
    r = json.load(open(path))['replay']
    if 'rows' not in r:
        print('replay: nothing executable in this replay file (proof/correspondence breakage): see its log field')
        return
    c = dict(kind=r['kind'], ndim=r['ndim'], mpp=r['mpp'], fps=r['fps'], max_lagtime=r['max_lagtime'], index=r['index'], tags=r.get('tags', []))
    if r.get('dtype'):
        c['dtype'] = [str(d) for d in r['dtype']]
    if c['kind'] == 'msd':
        c['rows'] = [(int(f), [float(v) for v in p]) for f, p in r['rows']]
    else:
        c['rows'] = [(int(pid), int(f), [float(v) for v in p]) for pid, f, p in r['rows']]
    kept = run_cases(chk, [c], tag='replay')
    print('replay: implementation output', json.dumps(kept[0]['impl'])[:1500])
