"""C09 -- feature finding does not depend on where / in which axis order / in which
batch the image is processed.

Three harnesses, all on the real implementation (trackpy from $TRACKPY_REPO):

 (T) translation: one content image is pasted at two integer offsets into blank
     canvases (zeros); tp.locate must return the same rows in the same order with
     the position columns moved by exactly the offset difference and every other
     column unchanged (bit-identical: every stage is the same sequence of local
     float operations; `ep` to rounding because the background statistics are
     summed in another order).  Images uint8/uint16/float, 2-D/3-D, preprocess
     on/off, iso/anisotropic diameter, separation, percentile, minmass, maxsize,
     topn, noise/smoothing sizes, max_iterations, engines.  One > 1 Mpx canvas per
     preprocess setting in the quick tier.
 (TP) touching pairs: two symmetric integer blobs on whole-pixel centres whose
     centre-to-centre vector v lies EXACTLY on the separation ellipsoid
     (sum((v_k/separation_k)^2) == 1 as rationals: axis-aligned v = separation_k e_k,
     oblique Pythagorean v such as (6,8)/10, (3,8)/(5,10), (2,4,4)/6, (2,3,6)/7), so that
     where_close's "closer than separation" decision sits on its boundary and may not
     be taken by the rounding of pos/separation: the content is swept over ~10 whole-
     pixel offsets of one canvas (every placement against the first, full table), and
     an integer preprocess=False placement is located in EVERY axis order (3-D: all six).
 (X) transposition: integer image, preprocess=False, every axis order (2-D: .T as
     view and as copy; 3-D: all six permutations) with the per-axis parameters
     permuted alike; tables compared as multisets of rows (row order legitimately
     follows np.where order): position columns permuted, mass/size/signal/raw_mass
     equal exactly, ep to rounding, ecc: known open finding F13.
 (B) batch: tp.batch(frames, processes in {1, 2, 4, 'auto'}) against the
     concatenation of tp.locate(frame) tagged with the frame number (position or
     pims-style frame_no attribute), blank frames, shuffled orders.
 (B2) batch on ndarray-subclass frames whose frame_no differs from their position:
     sub-clip (frames 20..25 of a longer movie), reversed, strided selections with
     processes in {1, 2, 3}: the rows are the full movie's rows of those frames.

Coq side (Properties/C09.v): the discrete pipeline model (C06 maxima + C07
refinement) is run inside Coq on small canvases and compared with
grey_dilation + refine_com_arr (check_pipeline), executed on two placements
(model_moved) and on the transpose (model_transposed); the verified monitor
check_moved / check_transposed re-decides the table relation on locate's own output.
"""
import itertools, json, math, warnings, os, sys, hashlib
import numpy as np
from fractions import Fraction
import common
from common import cZ, cQ, clist, cbool

IMPORTS = ("From TP Require Import Model.Dilation Model.COM Model.COMCheck "
           "Model.Equivariance Model.EquivarianceCheck.")

# route T for the head of locate (tools/py2coq_locatehead.py -> Gen/locatehead.v; Proofs/LocateheadGen.v)
TRANSLATOR_H = os.path.join(common.VERIF, 'tools', 'py2coq_locatehead.py')
GEN_H = os.path.join(common.COQ, 'Gen', 'locatehead.v')
IMPORTS_H = ("From Coq Require Import String.\nFrom TP Require Import Model.PyLocatehead Model.LocateheadCheck.\n"
             "From TP Require Model.PyPreproc.")
HEAD_CODES = {1: 'model and locate: number of rows', 2: 'model and locate: a position', 3: 'model and locate: a mass',
              4: 'locate refused (ValueError), the model did not', 5: 'the model refused or raised, locate did not',
              6: 'locate and the model refuse with different messages',
              11: 'generated locate and model: number of rows', 12: 'generated locate and model: a position',
              13: 'generated locate and model: a mass', 14: 'generated locate raised, the model did not',
              15: 'the model raised, generated locate did not', 16: 'generated locate and the model refuse differently'}

SIG_F13 = 'locate: ecc differs under transposition (cosmask centre weight)'
SIG_F15 = 'locate: where_close tie (equal mass, equal coordinate sum) resolved by row order differs under transposition'
SIG_F16 = 'locate: where_close tie (equal mass, equal coordinate sum) decided by float rounding of the sums differs under translation'
AX = {2: ['y', 'x'], 3: ['z', 'y', 'x']}


# ------------------------------------------------------------------ frames
class Fr(np.ndarray):
    """pims-like frame: ndarray carrying frame_no (survives views and pickling)"""
    def __new__(cls, a, frame_no=None):
        o = np.asarray(a).view(cls)
        o.frame_no = frame_no
        return o

    def __array_finalize__(self, obj):
        self.frame_no = getattr(obj, 'frame_no', None)

    def __reduce__(self):
        r = super().__reduce__()
        return (r[0], r[1], r[2] + (self.frame_no,))

    def __setstate__(self, st):
        self.frame_no = st[-1]
        super().__setstate__(st[:-1])


class FrLossy(np.ndarray):
    """frame whose frame_no is lost when pickled to a worker process"""
    def __new__(cls, a, frame_no=None):
        o = np.asarray(a).view(cls)
        o.frame_no = frame_no
        return o

    def __array_finalize__(self, obj):
        self.frame_no = getattr(obj, 'frame_no', None)


# -------------------------------------------------------------- generators
def stamp(img, centre, amp, sigma, rad, flat=0.0):
    """max-stamp a gaussian blob (optionally flat-topped: plateau maxima)"""
    nd = img.ndim
    rng_ax = [range(max(0, c - rad), min(s, c + rad + 1)) for c, s in zip(centre, img.shape)]
    for p in itertools.product(*rng_ax):
        r2 = sum((a - b) ** 2 for a, b in zip(p, centre))
        v = amp * math.exp(-max(0.0, r2 - flat) / (2.0 * sigma * sigma))
        if v > img[p]:
            img[p] = v


def gen_content(rng, shape, kind, dtype):
    nd = len(shape)
    top = {'uint8': 255, 'uint16': 4000, 'int32': 100000, 'float64': 1.0, 'float32': 1.0}[dtype]
    img = np.zeros(shape, dtype=float)
    nb = rng.randint(1, 6 if nd == 2 else 3)
    rad = 4 if nd == 2 else 2
    if kind in ('blobs', 'mixed', 'plateau', 'ladder'):
        for k in range(nb):
            c = tuple(rng.randint(1, s - 2) for s in shape)
            amp = top * rng.choice([1.0, 0.9, 0.5, 0.3, 0.12])
            if kind == 'ladder':
                amp = top * (0.08 + 0.03 * k)
            stamp(img, c, amp, rng.choice([0.8, 1.0, 1.5, 2.2]), rad,
                  flat=rng.choice([1.0, 2.0, 4.0]) if kind == 'plateau' else 0.0)
    if kind == 'pair':     # two close blobs of similar height: dedupe decides
        c = tuple(rng.randint(min(3, s // 2), max(min(3, s // 2), s - 4)) for s in shape)
        d = tuple(rng.choice([-3, -2, 2, 3]) for _ in shape)
        c2 = tuple(min(s - 2, max(1, a + b)) for a, b, s in zip(c, d, shape))
        amp = top * rng.choice([0.9, 0.5])
        stamp(img, c, amp, 1.0, rad)
        stamp(img, c2, amp * rng.choice([1.0, 1.0, 0.97]), 1.0, rad)
    if kind in ('noise', 'mixed'):
        lv = rng.choice([3, 6, 40])
        nz = np.array([rng.randint(0, lv) for _ in range(int(np.prod(shape)))], dtype=float).reshape(shape)
        img = np.maximum(img, nz * (top * (0.25 if kind == 'noise' else 0.06) / lv))
    if kind == 'levels':   # few grey levels: ties and plateaus everywhere
        lv = rng.choice([2, 3, 5])
        img = np.array([rng.randint(0, lv) for _ in range(int(np.prod(shape)))], dtype=float).reshape(shape) * (top / lv / 2)
    if dtype.startswith('float'):
        return img.astype(dtype)
    return np.floor(img).astype(dtype)


def tup(v, nd):
    return tuple(v) if isinstance(v, (tuple, list)) else (v,) * nd


def gen_params(rng, nd, transposition=False, small=False):
    """locate keyword arguments (diameter included)"""
    dmax = 7 if nd == 3 or small else 9
    if rng.random() < 0.35:
        diameter = tuple(rng.choice(range(3, dmax + 1, 2)) for _ in range(nd))
    else:
        diameter = rng.choice(range(3, dmax + 1, 2))
    p = dict(diameter=diameter)
    r = rng.random()
    if r < 0.3:
        p['separation'] = rng.choice([2, 3, 4.5, 5, 6.5, 8, 10])
    elif r < 0.5:
        p['separation'] = tuple(rng.choice([2, 3.5, 5, 6, 8]) for _ in range(nd))
    p['percentile'] = rng.choice([64, 64, 0, 10, 50, 90, 99])
    if rng.random() < 0.3:
        p['max_iterations'] = rng.choice([1, 2, 3, 0])
    if small:
        p['max_iterations'] = rng.choice([1, 2, 3])
    if rng.random() < 0.2:
        p['characterize'] = False
    if rng.random() < 0.25 and not small:
        p['engine'] = rng.choice(['python', 'numba'])        # 3-D too: the 3-D kernels have their own table set-up
    if transposition:
        p['preprocess'] = False
        # without preprocessing noise_size only enters the reported uncertainty: one number per axis, permuted with the axes
        r = rng.random()
        if r < 0.15:
            p['noise_size'] = rng.choice([0.5, 1.5, 2])
        elif r < 0.4:
            p['noise_size'] = tuple(rng.choice([0.5, 1, 1.5, 2, 3]) for _ in range(nd))
    else:
        p['preprocess'] = rng.random() < 0.55
        if p['preprocess']:
            r = rng.random()
            if r < 0.25:
                p['noise_size'] = rng.choice([0.5, 1.5, 2])
            elif r < 0.4:
                p['noise_size'] = tuple(rng.choice([0.5, 1, 1.5]) for _ in range(nd))
            if rng.random() < 0.3:
                p['smoothing_size'] = rng.choice([5, 7, 9, 11]) if rng.random() < 0.6 else tuple(rng.choice([5, 7, 9]) for _ in range(nd))
            if rng.random() < 0.2:
                p['threshold'] = rng.choice([0.5, 2, 5])
    return p


def axis_values(p, nd):
    d = tup(p['diameter'], nd)
    rad = tuple(int(x) // 2 for x in d)
    sep = tup(p['separation'], nd) if p.get('separation') is not None else tuple(x + 1 for x in d)
    sm = tup(p['smoothing_size'], nd) if p.get('smoothing_size') is not None else d
    ns = tup(p.get('noise_size', 1), nd)
    margin = tuple(max(r, s // 2 - 1, m // 2) for r, s, m in zip(rad, sep, sm))
    return d, rad, sep, sm, ns, margin


def pad_for(p, nd):
    """room the content must keep from the canvas edge so that no stage can see the
    edge: margin + mask radius + one pixel per refinement iteration + filter reach"""
    d, rad, sep, sm, ns, margin = axis_values(p, nd)
    mi = max(1, p.get('max_iterations', 10))
    pre = p.get('preprocess', True)
    return tuple(int(math.ceil(mg)) + r + mi + 3 + ((int(4 * n + 0.5) + s // 2) if pre else 0)
                 for mg, r, s, n in zip(margin, rad, sm, ns))


def place(content, shape, off):
    c = np.zeros(shape, dtype=content.dtype)
    c[tuple(slice(o, o + s) for o, s in zip(off, content.shape))] = content
    return c


def permute_params(p, perm):
    q = dict(p)
    for k in ('diameter', 'separation', 'noise_size', 'smoothing_size'):
        if isinstance(p.get(k), tuple):
            q[k] = tuple(p[k][i] for i in perm)
    return q


# ----------------------------------------------------------- implementation
def run_locate(img, p):
    import trackpy as tp
    kw = dict(p)
    d = kw.pop('diameter')
    with warnings.catch_warnings():
        warnings.simplefilter('ignore')
        try:
            return tp.locate(img, d, **kw)
        except Exception as e:          # compared as an outcome
            return 'EXC:' + type(e).__name__


def candidates(img, p):
    """the table before where_close (the calls locate makes up to refine_com), for explaining ties"""
    import trackpy as tp
    from trackpy.find import grey_dilation
    from trackpy.refine import refine_com
    from trackpy.preprocessing import bandpass, convert_to_int
    nd = img.ndim
    d, rad, sep, sm, ns, margin = axis_values(p, nd)
    is_float = not np.issubdtype(img.dtype, np.integer)
    with warnings.catch_warnings():
        warnings.simplefilter('ignore')
        thr = p.get('threshold')
        if thr is None:
            thr = 1 / 255. if is_float else 1
        image = bandpass(img, ns, sm, thr) if p.get('preprocess', True) else img
        if not p.get('preprocess', True) and np.issubdtype(img.dtype, np.signedinteger):
            image = image.clip(min=0)          # as locate does since fix F18 (negative pixels carry no brightness)
        sf, image = convert_to_int(image, np.uint8 if is_float else img.dtype)
        co = grey_dilation(image, sep, p.get('percentile', 64), margin, precise=False)
        return refine_com(img, image, rad, co, max_iterations=p.get('max_iterations', 10),
                          engine=p.get('engine', 'auto'), characterize=p.get('characterize', True)), sep


def col_kind(c):
    if c in ('x', 'y', 'z'):
        return 'pos'
    if c.startswith('ep'):
        return 'ep'
    if c == 'ecc':
        return 'ecc'
    return 'val'


def diff_columns(A, B, delta, exact_vals, ep=True):
    """A, B: DataFrames with the same columns, rows aligned.  Returns {column: maxdiff}
    for columns that differ beyond what the property allows."""
    bad = {}
    for c in A.columns:
        a = A[c].values.astype(float)
        b = B[c].values.astype(float)
        k = col_kind(c)
        na, nb = np.isnan(a), np.isnan(b)
        if (na != nb).any():
            if k == 'ep' and not ep:
                continue
            bad[c] = float('nan')
            continue
        a, b = a[~na], b[~nb]
        if len(a) == 0:
            continue
        if k == 'pos':
            dd = np.abs(b - a - delta.get(c, 0))
            if dd.max() > 1e-9:
                bad[c] = float(dd.max())
        elif k == 'ep':
            if ep:
                dd = np.abs(a - b) - (1e-9 + 1e-6 * np.abs(a))
                if dd.max() > 0:
                    bad[c] = float(np.abs(a - b).max())
        else:
            if exact_vals:
                if not np.array_equal(a, b):
                    bad[c] = float(np.abs(a - b).max())
            else:
                dd = np.abs(a - b) - 1e-9 * (1e-6 + np.abs(a))
                if dd.max() > 0:
                    bad[c] = float(np.abs(a - b).max())
    return bad


def jparams(p):
    return {k: (list(v) if isinstance(v, tuple) else v) for k, v in p.items()}


def unj(p):
    return {k: (tuple(v) if isinstance(v, list) else v) for k, v in p.items()}


def tied_partner(i, pos, mass, sep):
    """candidate i has a partner of exactly equal mass, closer than separation, whose
    rescaled coordinate sum equals its own up to rounding (1e-9)"""
    rs = pos / np.array(sep, dtype=float)
    sums = rs.sum(1)
    for j in range(len(pos)):
        if j != i and mass[j] == mass[i] and ((rs[j] - rs[i]) ** 2).sum() < 1 - 1e-6 \
                and abs(sums[j] - sums[i]) <= 1e-9 * (1 + abs(sums[i])):
            return True
    return False


def explain_translation_tie(c, A0, B0, delta):
    """True iff the two placements differ ONLY through where_close resolving an exact tie
    (equal mass, equal coordinate sum) differently: verified on the case itself"""
    from trackpy.find import where_close
    nd = A0.ndim
    p = dict(c['params'])           # without minmass / maxsize / topn
    ca, sep = candidates(A0, p)
    cb, _ = candidates(B0, p)
    if len(ca) != len(cb) or len(ca) == 0 or not all(s > 0 for s in sep):
        return False
    dl = np.array([delta[a] for a in AX[nd]], dtype=float)
    pa, pb = ca[AX[nd]].values, cb[AX[nd]].values
    if np.abs(pb - pa - dl).max() > 1e-9 or not np.array_equal(ca['mass'].values, cb['mass'].values):
        return False
    da = set(int(i) for i in where_close(ca[AX[nd]], sep, ca['mass']))
    db = set(int(i) for i in where_close(cb[AX[nd]], sep, cb['mass']))
    D = da ^ db
    if not D:
        return False
    if not all(tied_partner(i, pa, ca['mass'].values, sep) and tied_partner(i, pb, cb['mass'].values, sep) for i in D):
        return False
    A, B = run_locate(A0, p), run_locate(B0, p)
    if isinstance(A, str) or isinstance(B, str) or list(A.columns) != list(B.columns):
        return False
    tied = [pa[i] for i in D]
    is_tied = lambda row: any(np.abs(np.array(row) - t).max() < 1e-6 for t in tied)
    ka = {tuple(np.round(r, 6)): k for k, r in enumerate(A[AX[nd]].values)}
    kb = {tuple(np.round(r - dl, 6)): k for k, r in enumerate(B[AX[nd]].values)}
    for key in set(ka) ^ set(kb):
        if not is_tied(key):
            return False
    common_keys = sorted(set(ka) & set(kb))
    if common_keys:
        A2 = A.iloc[[ka[k] for k in common_keys]].reset_index(drop=True)
        B2 = B.iloc[[kb[k] for k in common_keys]].reset_index(drop=True)
        if diff_columns(A2, B2, delta, exact_vals=True, ep=tuple(c['shape1']) == tuple(c['shape2'])):
            return False
    return True


# -------------------------------------------------------------- translation
def gen_translation(rng, tier, small=False):
    nd = 3 if (rng.random() < 0.15 and not small) else 2
    dtype = rng.choice(['uint8', 'uint8', 'uint8', 'uint16', 'float64', 'float32']) if not small else rng.choice(['uint8', 'uint16'])
    p = gen_params(rng, nd, small=small)
    if small:
        p['preprocess'] = False
        p.pop('engine', None)
        for k in ('noise_size', 'smoothing_size', 'threshold'):
            p.pop(k, None)
    if nd == 3:
        p['max_iterations'] = rng.choice([1, 2, 3])
    if isinstance(p.get('noise_size'), tuple) or p.get('noise_size', 1) >= 3:
        pass
    d, rad, sep, sm, ns, margin = axis_values(p, nd)
    if p.get('preprocess') and any(n >= s for n, s in zip(ns, sm)):
        p.pop('noise_size', None)
    cshape = tuple(rng.randint(6, 12) if (small or nd == 3) else rng.randint(8, 36) for _ in range(nd))
    kind = rng.choice(['blobs', 'blobs', 'mixed', 'plateau', 'ladder', 'noise', 'levels', 'pair'])
    content = gen_content(rng, cshape, kind, dtype)
    pad = pad_for(p, nd)
    slack = 3 if nd == 3 else (4 if small else 12)
    shape1 = tuple(c + 2 * q + rng.randint(1, slack) for c, q in zip(cshape, pad))
    same = rng.random() < 0.7
    shape2 = shape1 if same else tuple(c + 2 * q + rng.randint(1, slack) for c, q in zip(cshape, pad))
    off1 = tuple(rng.randint(q, s - c - q) for q, s, c in zip(pad, shape1, cshape))
    off2 = tuple(rng.randint(q, s - c - q) for q, s, c in zip(pad, shape2, cshape))
    if rng.random() < 0.25:      # extreme placements: content as close to the edges as the premise allows
        off1 = tuple(pad)
        off2 = tuple(s - c - q for q, s, c in zip(pad, shape2, cshape))
    post = dict()
    if rng.random() < 0.3:
        post['minmass'] = rng.choice(['median', 'low'])
    if rng.random() < 0.15 and len(set(d)) == 1:
        post['maxsize'] = rng.choice([1.2, 1.6, 2.5])
    if rng.random() < 0.2:
        post['topn'] = rng.choice([1, 2, 3])
    return dict(kind='translation', content=content, shape1=shape1, shape2=shape2, off1=off1, off2=off2,
                params=p, post=post, gen=kind)


def resolve_post(c, base):
    """minmass/maxsize/topn are drawn relative to the unrestricted result"""
    p = dict(c['params'])
    post = c['post']
    if isinstance(base, str) or len(base) == 0:
        return p
    if 'minmass' in post:
        m = np.sort(base['mass'].values)
        p['minmass'] = float(m[len(m) // 2]) if post['minmass'] == 'median' else float(m[0])
    if 'maxsize' in post and 'size' in base.columns:
        p['maxsize'] = post['maxsize']
    if 'topn' in post:
        p['topn'] = post['topn']
    return p


def eval_translation(chk, c, report=True):
    res = eval_translation_raw(chk, c)
    if res.get('what') and not res['sig'].startswith('locate: exception'):
        nd = c['content'].ndim
        A0 = place(c['content'], c['shape1'], c['off1'])
        B0 = place(c['content'], c['shape2'], c['off2'])
        delta = {a: c['off2'][k] - c['off1'][k] for k, a in enumerate(AX[nd])}
        if explain_translation_tie(c, A0, B0, delta):
            res['what'] = ('content moved by %s: where_close resolves a pair of candidates with equal mass and equal coordinate sum differently '
                           '(float rounding of the sums); every other row agrees.  Originally: %s' % (delta, res['what']))
            res['sig'] = SIG_F16
            res['tie'] = True
    return res


def eval_translation_raw(chk, c):
    nd = c['content'].ndim
    A0 = place(c['content'], c['shape1'], c['off1'])
    B0 = place(c['content'], c['shape2'], c['off2'])
    base = run_locate(A0, c['params'])
    p = resolve_post(c, base)
    c['resolved'] = p
    A = run_locate(A0, p) if p != c['params'] else base
    B = run_locate(B0, p)
    delta = {a: c['off2'][k] - c['off1'][k] for k, a in enumerate(AX[nd])}
    same_canvas = tuple(c['shape1']) == tuple(c['shape2'])
    res = dict(n=0 if isinstance(A, str) else len(A), A=A, B=B, bad=None, what=None)
    res.update(compare_placements(A, B, delta, same_canvas))
    return res


def compare_placements(A, B, delta, same_canvas):
    """the table relation of (T): {} or dict(what, sig[, bad])"""
    res = {}
    if isinstance(A, str) or isinstance(B, str):
        if not (isinstance(A, str) and isinstance(B, str) and A == B):
            res['what'] = 'one placement raises, the other does not (%s / %s)' % (A if isinstance(A, str) else 'table', B if isinstance(B, str) else 'table')
            res['sig'] = 'locate: exception depends on the position of the content'
        return res
    if list(A.columns) != list(B.columns) or len(A) != len(B):
        res['what'] = 'number of features / columns changes with the position of the content (%d vs %d rows)' % (len(A), len(B))
        res['sig'] = 'locate: set of features changes under translation'
        return res
    if len(A) == 0:
        return res
    if list(A.index) != list(B.index):
        res['what'] = 'row labels change with the position of the content'
        res['sig'] = 'locate: row labels change under translation'
        return res
    bad = diff_columns(A, B, delta, exact_vals=True, ep=same_canvas)
    if bad:
        res['bad'] = bad
        kinds = sorted(set(col_kind(k) for k in bad))
        if kinds == ['pos']:
            res['sig'] = 'locate: positions do not move by exactly the offset'
        else:
            res['sig'] = 'locate: column %s changes under translation' % '/'.join(sorted(k.split('_')[0] for k in bad if col_kind(k) != 'pos'))
        res['what'] = 'content moved by %s: columns differ %s' % (delta, bad)
    return res


def j_translation(c):
    return dict(kind='translation', content=c['content'].tolist(), dtype=str(c['content'].dtype), shape1=list(c['shape1']), shape2=list(c['shape2']),
                off1=list(c['off1']), off2=list(c['off2']), params=jparams(c['params']), post=c['post'], gen=c.get('gen'))


def unj_translation(j):
    return dict(kind='translation', content=np.array(j['content'], dtype=j['dtype']), shape1=tuple(j['shape1']), shape2=tuple(j['shape2']),
                off1=tuple(j['off1']), off2=tuple(j['off2']), params=unj(j['params']), post=j.get('post', {}), gen=j.get('gen'))


def corpus_translation():
    out = []
    # F16 witness: two identical blobs, centres differing by (-3,+3): equal mass, equal coordinate sum
    content = np.zeros((25, 35), np.uint8)
    stamp(content, (8, 13), 229.5, 1.0, 4)
    stamp(content, (11, 10), 229.5, 1.0, 4)
    out.append(dict(kind='translation', content=content, shape1=(44, 59), shape2=(44, 59), off1=(10, 10), off2=(8, 14),
                    params=dict(diameter=5, separation=5, percentile=10, max_iterations=1, preprocess=False), post={}, gen='corpus-F16'))
    # one bright, one dim blob close to the percentile threshold, odd offset, canvas changes size
    content = np.zeros((20, 24), np.uint8)
    stamp(content, (6, 7), 240, 1.2, 4)
    stamp(content, (13, 17), 40, 1.2, 4)
    out.append(dict(kind='translation', content=content, shape1=(90, 96), shape2=(101, 93), off1=(33, 34), off2=(40, 31),
                    params=dict(diameter=7, preprocess=True), post={}, gen='corpus-dim'))
    return out


def big_cases(rng):
    """> 1 Mpx canvas: a couple of bright blobs and a ladder of dim blobs around the
    percentile threshold; odd and even offsets"""
    out = []
    for pre in (True, False, False):
        content = np.zeros((640, 420), dtype=np.uint8)
        for k in range(8):
            stamp(content, (30 + 75 * k + rng.randint(0, 9), 30 + rng.randint(0, 9)), rng.randint(150, 250), 2.0, 7)
        # a fine ladder of dim blobs: peak values 3, 4, 5, ... (no noise) so that some peaks sit right at the percentile
        # threshold, which is taken over the non-zero pixels, i.e. mostly over blob flanks
        k = 0
        for gy in range(8):
            for gx in range(6):
                stamp(content, (40 + 75 * gy + rng.randint(0, 5), 90 + 55 * gx + rng.randint(0, 5)), 3 + k, 2.0 + 0.1 * (k % 5), 8)
                k += 1
        p = dict(diameter=rng.choice([7, 9, (7, 9)]), percentile=64, preprocess=pre)
        o1 = (rng.randint(40, 200) | 1, rng.randint(60, 200) & ~1)
        o2 = (o1[0] + 2 * rng.randint(10, 150) + 1, o1[1] + 2 * rng.randint(10, 160) + 1)
        out.append(dict(kind='translation', content=content, shape1=(1200, 1000), shape2=(1200, 1000), off1=o1, off2=o2,
                        params=p, post={}, gen='big'))
    return out


# ----------------------------------------------------------- touching pairs
# (TP) two features whose refined centres are EXACTLY `separation` apart: where_close's decision
# "closer than separation" sits on its boundary.  The rescaled coordinates pos/separation carry
# rounding errors that depend on the absolute coordinates (and, in 3-D, the sum of squares depends on
# the axis order), so a boundary decision taken without slack changes with the placement / axis order.
_BV = {}


def boundary_vectors(sep):
    """integer vectors v with sum((v_k/sep_k)^2) == 1 exactly (rational arithmetic)"""
    sep = tuple(sep)
    if sep not in _BV:
        fs = [Fraction(s) for s in sep]
        _BV[sep] = [v for v in itertools.product(*[range(-int(s), int(s) + 1) for s in sep])
                    if sum(Fraction(a) ** 2 / f ** 2 for a, f in zip(v, fs)) == 1]
    return _BV[sep]


def sym_blob(nd, amp, sigma, ext):
    """point-symmetric (in fact axis-symmetric) integer blob of (2 ext + 1)^nd pixels: its brightness
    centroid is its centre pixel exactly"""
    ax = np.arange(-ext, ext + 1)
    g = np.meshgrid(*([ax] * nd), indexing='ij')
    r2 = sum(x.astype(float) ** 2 for x in g)
    return np.floor(amp * np.exp(-r2 / (2.0 * sigma * sigma)))


TP_SEPS = [3, 5, 6, 7, 9, 10, 11, 12, 13, 14, 15]


def gen_touching(rng, nd, integer_raw=False, want_full=False):
    """content with a touching pair (+ 0-2 distractor blobs far from it) and locate parameters"""
    while True:
        p = {}
        if rng.random() < 0.5:
            p['diameter'] = rng.choice([5, 7, 9, 11, 13] if nd == 2 else [5, 7])
            if rng.random() < 0.5:
                p['separation'] = rng.choice(TP_SEPS if nd == 2 else [3, 5, 6, 7, 9])
        else:
            p['diameter'] = tuple(rng.choice([5, 7, 9, 11] if nd == 2 else [5, 7]) for _ in range(nd))
            if rng.random() < 0.5:
                p['separation'] = tuple(rng.choice([3, 5, 6, 7, 9, 10, 12]) for _ in range(nd))
        p['preprocess'] = False if integer_raw else rng.random() < 0.4
        if rng.random() < 0.4:
            p['percentile'] = rng.choice([0, 30, 50])
        if rng.random() < 0.2:
            p['max_iterations'] = rng.choice([1, 3])
        if rng.random() < 0.15:
            p['characterize'] = False
        d, rad, sep, sm, ns, margin = axis_values(p, nd)
        bv = boundary_vectors(sep)
        oblique = [v for v in bv if sum(1 for a in v if a) >= 2]
        full = [v for v in bv if all(v)]
        if want_full and nd == 3 and not full and rng.random() < 0.9:
            continue                     # axis-order family: mostly separations that admit a v with three non-zero components
        r = rng.random()
        if nd == 3 and full and r < (0.85 if want_full else 0.6):
            v = rng.choice(full)
        elif oblique and r < 0.75:
            v = rng.choice(oblique)
        else:
            v = rng.choice(bv)
        ext = rng.choice([1, 2, 2])
        # neither blob reaches into the other's mask: the centroids stay the centre pixels
        if all(abs(a) < r_ + ext + 1 for a, r_ in zip(v, rad)):
            continue
        break
    dtype = rng.choice(['uint8', 'uint8', 'uint16'])
    top = {'uint8': 255, 'uint16': 4000}[dtype]
    amp = top * rng.choice([0.95, 0.8, 0.5])
    amp2 = amp if rng.random() < 0.65 else amp * rng.choice([0.8, 0.6, 1.15 if amp < 0.85 * top else 0.9])
    sg = rng.choice([0.7, 0.9, 1.2])
    lo = [ext + max(0, -a) for a in v]
    cshape = [2 * ext + 1 + abs(a) for a in v]
    blobs = [(tuple(lo), amp), (tuple(l + a for l, a in zip(lo, v)), amp2)]
    nex = rng.choice([0, 0, 1, 2]) if nd == 2 else rng.choice([0, 0, 1])
    if nex:
        # distractors in a strip appended along one axis, further than separation + both masks from the pair
        k = rng.randrange(nd)
        gap = int(max(sep)) + 2 * max(rad) + 2 * ext + 2
        strip = gap + 2 * ext + 1 + (int(max(sep)) + 2 * max(rad) + 2) * (nex - 1)
        base = cshape[k]
        cshape[k] += strip
        for i in range(nex):
            c = [rng.randint(ext, s - ext - 1) for s in cshape]
            c[k] = base + gap + ext + i * (int(max(sep)) + 2 * max(rad) + 2)
            blobs.append((tuple(c), top * rng.choice([0.9, 0.7, 0.4, 0.3])))
    content = np.zeros(cshape)
    for c, a in blobs:
        sl = tuple(slice(ci - ext, ci + ext + 1) for ci in c)
        content[sl] = np.maximum(content[sl], sym_blob(nd, a, sg, ext))
    return dict(content=content.astype(dtype), params=p, v=tuple(v), sep=tuple(sep), ext=ext, equal=amp == amp2)


def gen_touching_sweep(rng, K):
    nd = 3 if rng.random() < 0.2 else 2
    g = gen_touching(rng, nd)
    pad = pad_for(g['params'], nd)
    span = 40 if nd == 2 else 8
    shape = tuple(c + 2 * q + span for c, q in zip(g['content'].shape, pad))
    offs = []
    while len(offs) < K:
        o = tuple(rng.randint(q, s - c - q) for q, s, c in zip(pad, shape, g['content'].shape))
        if o not in offs:
            offs.append(o)
    return dict(g, kind='touching-sweep', shape=shape, offs=offs)


def eval_touching_sweep(chk, c):
    """every placement against the first; a difference is re-evaluated (and reported) as the ordinary
    two-placement translation case, which is also the replay"""
    nd = c['content'].ndim
    tabs = [run_locate(place(c['content'], c['shape'], o), c['params']) for o in c['offs']]
    n = 0 if isinstance(tabs[0], str) else len(tabs[0])
    for k in range(1, len(tabs)):
        delta = {a: c['offs'][k][i] - c['offs'][0][i] for i, a in enumerate(AX[nd])}
        if compare_placements(tabs[0], tabs[k], delta, True).get('what'):
            c2 = dict(kind='translation', content=c['content'], shape1=c['shape'], shape2=c['shape'], off1=c['offs'][0], off2=c['offs'][k],
                      params=c['params'], post={}, gen='touching v=%s sep=%s' % (list(c['v']), list(c['sep'])))
            r = eval_translation(chk, c2)
            if r.get('what'):
                return n, r, c2
    return n, {}, None


def gen_touching_axes(rng, npl=4):
    """no blank-border premise here (the whole image is transposed, edges included): the pair sits at small
    coordinates, just inside the margin, where the rescaled coordinates of the axes have different binades
    and the order of the sum of squares matters most"""
    nd = 3 if rng.random() < 0.8 else 2
    g = gen_touching(rng, nd, integer_raw=True, want_full=True)
    d, rad, sep, sm, ns, margin = axis_values(g['params'], nd)
    mg = [int(math.ceil(m)) for m in margin]
    ext = g['ext']
    reach = 10 if nd == 3 else 24
    offs = [tuple(rng.randint(max(0, m - ext), m + reach) for m in mg) for _ in range(npl)]
    shape = tuple(max(o[k] for o in offs) + g['content'].shape[k] + mg[k] + rng.randint(0, 3) for k in range(nd))
    return dict(g, kind='touching-axes', shape=shape, offs=offs)


def eval_touching_axes(chk, c):
    """the placed content located in every axis order (preprocess=False, integer image)"""
    nd = c['content'].ndim
    n, known = 0, None
    for o in c['offs']:
        img = place(c['content'], c['shape'], o)
        base = run_locate(img, c['params'])
        n = max(n, 0 if isinstance(base, str) else len(base))
        for perm in itertools.permutations(range(nd)):
            if perm == tuple(range(nd)):
                continue
            cx = dict(kind='transposition', image=img, perm=perm, copy=bool((sum(o) + perm[0]) % 2), params=c['params'], post={},
                      gen='touching v=%s sep=%s' % (list(c['v']), list(c['sep'])))
            r = eval_transposition(chk, cx, base=base)
            chk.tally('touching pair: axis order evaluated (%d-D)' % nd)
            if r.get('sig') in (SIG_F13, SIG_F15):       # open findings (ecc; exact tie): noted, the sweep goes on
                known = known or (r, cx)
            elif r.get('what'):
                return n, r, cx
    return (n,) + (known or ({}, None))


def corpus_touching():
    """fixed members of the family: diameter 9 (separation 10) pair along y swept over 24 offsets along y;
    separation 10 oblique (6, 8); separation (5, 10) oblique (3, 8); 3-D separation 6 with v = (2, 4, 4)"""
    out = []

    def pair(v, ext=2, amp=200, sg=0.9, dtype='uint8'):
        nd = len(v)
        lo = [ext + max(0, -a) for a in v]
        content = np.zeros([2 * ext + 1 + abs(a) for a in v])
        for c in (lo, [l + a for l, a in zip(lo, v)]):
            sl = tuple(slice(ci - ext, ci + ext + 1) for ci in c)
            content[sl] = np.maximum(content[sl], sym_blob(nd, amp, sg, ext))
        return content.astype(dtype)

    for pre in (False, True):
        p = dict(diameter=9, preprocess=pre)
        content = pair((10, 0))
        pad = pad_for(p, 2)
        shape = tuple(c + 2 * q + 26 for c, q in zip(content.shape, pad))
        out.append(dict(kind='touching-sweep', content=content, params=p, v=(10, 0), sep=(10, 10), ext=2, equal=True, shape=shape,
                        offs=[(pad[0] + k, pad[1] + 3) for k in range(25)]))
    for v, p in (((6, 8), dict(diameter=9, preprocess=False)), ((3, -8), dict(diameter=(5, 9), separation=(5, 10), preprocess=False)),
                 ((0, 12), dict(diameter=11, preprocess=False)), ((2, 4, 4), dict(diameter=5, preprocess=False))):
        nd = len(v)
        content = pair(v, ext=2 if nd == 2 else 1, sg=0.9 if nd == 2 else 0.7, dtype='uint16' if v == (0, 12) else 'uint8')
        d, rad, sep, sm, ns, margin = axis_values(p, nd)
        pad = pad_for(p, nd)
        span = 16 if nd == 2 else 6
        shape = tuple(c + 2 * q + span for c, q in zip(content.shape, pad))
        offs = [tuple(q + (k * (i + 1)) % (span + 1) for i, q in enumerate(pad)) for k in range(12 if nd == 2 else 6)]
        out.append(dict(kind='touching-sweep', content=content, params=p, v=v, sep=tuple(sep), ext=2 if nd == 2 else 1, equal=True, shape=shape, offs=offs))
    return out


def corpus_touching_axes():
    """3-D, diameter 5 (separation 6), v = (2, 4, 4) (length exactly 6) at three base positions; separation 7, v = (2, 3, 6)"""
    out = []
    for v, p, bases in (((2, 4, 4), dict(diameter=5, preprocess=False), [(10, 12, 11), (11, 15, 13), (9, 10, 17)]),
                        ((2, 3, 6), dict(diameter=5, separation=7, preprocess=False), [(9, 11, 10), (12, 9, 14)])):
        content = np.zeros([3 + a for a in v])
        for c in ((1, 1, 1), tuple(1 + a for a in v)):
            sl = tuple(slice(ci - 1, ci + 2) for ci in c)
            content[sl] = np.maximum(content[sl], sym_blob(3, 180, 0.7, 1))
        d, rad, sep, sm, ns, margin = axis_values(p, 3)
        out.append(dict(kind='touching-axes', content=content.astype('uint8'), params=p, v=v, sep=tuple(sep), ext=1, equal=True,
                        shape=(26, 30, 34), offs=[tuple(b - 1 for b in base) for base in bases]))
    return out


# ------------------------------------------------------------ transposition
def gen_transposition(rng, tier, small=False):
    nd = 3 if (rng.random() < 0.2 and not small) else 2
    dtype = rng.choice(['uint8', 'uint8', 'uint16', 'int32'])
    p = gen_params(rng, nd, transposition=True, small=small)
    if nd == 3:
        p.pop('engine', None)
    if small:
        p.pop('engine', None)
    shape = tuple(rng.randint(8, 14) for _ in range(nd)) if nd == 3 else \
        ((rng.randint(10, 18), rng.randint(10, 18)) if small else (rng.randint(14, 60), rng.randint(14, 60)))
    kind = rng.choice(['blobs', 'blobs', 'mixed', 'plateau', 'ladder', 'noise', 'levels', 'pair'])
    img = gen_content(rng, shape, kind, dtype)
    if dtype == 'int32' and rng.random() < 0.6:
        # signed frame with a negative, uneven background (dark-frame subtracted camera data): locate clips the image it
        # searches but measures the background noise on the frame as given, so the reported uncertainty is not zero
        lv = rng.choice([2, 5, 30])
        neg = np.array([rng.randint(0, lv) for _ in range(int(np.prod(shape)))], dtype=img.dtype).reshape(shape)
        img = np.where(img == 0, -neg, img).astype(img.dtype)
        kind += '+negative background'
    perm = (1, 0) if nd == 2 else rng.choice([q for q in itertools.permutations(range(3)) if q != (0, 1, 2)])
    post = {}
    if rng.random() < 0.3:
        post['minmass'] = rng.choice(['median', 'low'])
    if rng.random() < 0.2:
        post['topn'] = rng.choice([1, 2, 3])
    return dict(kind='transposition', image=img, perm=tuple(perm), copy=rng.random() < 0.5, params=p, post=post, gen=kind)


def rename_axes(B, perm, nd):
    """B's column for its axis k is A's column for axis perm[k]"""
    ax = AX[nd]
    ren = {}
    for col in B.columns:
        for k, a in enumerate(ax):
            if col == a or col.endswith('_' + a):
                ren[col] = col[:-1] + ax[perm[k]]
    return B.rename(columns=ren)


def explain_tie(c, p, onlyA, onlyB, A_img):
    """True iff every row that one table has and the other lacks is a member of a pair
    of candidates (rows before where_close) closer than separation with exactly equal
    mass and exactly equal rescaled coordinate sum"""
    nd = A_img.ndim
    cand, sep = candidates(A_img, p)
    if len(cand) == 0:
        return False
    pos = cand[AX[nd]].values
    mass = cand['mass'].values
    rs = pos / np.array(sep, dtype=float)
    sums = rs.sum(1)
    for row in list(onlyA) + list(onlyB):
        hit = np.where((np.abs(pos - np.array(row)[None, :]) < 1e-12).all(1))[0]
        if len(hit) == 0:
            return False
        i = hit[0]
        ok = False
        for j in range(len(cand)):
            if j != i and mass[j] == mass[i] and abs(sums[j] - sums[i]) <= 1e-9 * (1 + abs(sums[i])) and ((rs[j] - rs[i]) ** 2).sum() < 1 - 1e-6:
                ok = True
        if not ok:
            return False
    return True


def eval_transposition(chk, c, base=None):
    img = c['image']
    nd = img.ndim
    perm = c['perm']
    imgT = np.transpose(img, perm)
    if c['copy']:
        imgT = np.ascontiguousarray(imgT)
    if base is None:
        base = run_locate(img, c['params'])
    p = dict(c['params'])
    if not isinstance(base, str) and len(base) and len(set(base['mass'].values)) == len(base):
        p = resolve_post(c, base)          # topn / minmass only when no two masses tie (numpy's argsort is not stable)
    c['resolved'] = p
    A = run_locate(img, p) if p != c['params'] else base
    B = run_locate(imgT, permute_params(p, perm))
    res = dict(n=0 if isinstance(A, str) else len(A), A=A, B=B, what=None)
    if isinstance(A, str) or isinstance(B, str):
        if not (isinstance(A, str) and isinstance(B, str) and A == B):
            res['what'] = 'one axis order raises, the other does not (%s / %s)' % (A if isinstance(A, str) else 'table', B if isinstance(B, str) else 'table')
            res['sig'] = 'locate: exception depends on the axis order'
        return res
    B = rename_axes(B, perm, nd)
    if sorted(A.columns) != sorted(B.columns):
        res['what'] = 'columns differ: %s vs %s' % (list(A.columns), list(B.columns))
        res['sig'] = 'locate: columns depend on the axis order'
        return res
    B = B[list(A.columns)]
    pa = [tuple(r) for r in A[AX[nd]].values.tolist()]
    pb = [tuple(r) for r in B[AX[nd]].values.tolist()]
    if sorted(pa) != sorted(pb):
        onlyA = sorted(set(pa) - set(pb))
        onlyB = sorted(set(pb) - set(pa))
        if explain_tie(c, p, onlyA, onlyB, img):
            res['sig'] = SIG_F15
            res['what'] = ('transposed image: where_close keeps the other member of a pair of candidates with equal mass and equal '
                           'coordinate sum (rows only in original %s, only in transposed %s)' % (onlyA[:3], onlyB[:3]))
            res['tie'] = True
        else:
            res['sig'] = 'locate: set of feature positions changes under transposition'
            res['what'] = 'positions only in original %s, only in transposed (mapped back) %s' % (onlyA[:4], onlyB[:4])
        return res
    A = A.sort_values(AX[nd], kind='stable').reset_index(drop=True)
    B = B.sort_values(AX[nd], kind='stable').reset_index(drop=True)
    res['As'], res['Bs'] = A, B
    bad = diff_columns(A, B, {}, exact_vals=False, ep=True)
    if bad:
        res['bad'] = bad
        if set(bad) == {'ecc'}:
            res['sig'] = SIG_F13
            res['what'] = 'locate(img) vs locate(img.T): ecc differs by up to %.3g, every other column agrees' % bad['ecc']
        else:
            cols = sorted(k for k in bad if k != 'ecc')
            res['sig'] = 'locate: column %s changes under transposition' % '/'.join(sorted(set(k.split('_')[0] for k in cols)))
            res['what'] = 'axis order %s: columns differ %s' % (perm, bad)
    return res


def j_transposition(c):
    return dict(kind='transposition', image=c['image'].tolist(), dtype=str(c['image'].dtype), perm=list(c['perm']), copy=bool(c['copy']),
                params=jparams(c['params']), post=c['post'], gen=c.get('gen'))


def unj_transposition(j):
    return dict(kind='transposition', image=np.array(j['image'], dtype=j['dtype']), perm=tuple(j['perm']), copy=j['copy'],
                params=unj(j['params']), post=j.get('post', {}), gen=j.get('gen'))


def corpus_transposition():
    out = []
    # F15 witness: image symmetric under transposition, two mirrored identical blobs within separation
    img = np.zeros((40, 40), np.uint8)
    stamp(img, (18, 21), 200, 1.0, 2)
    stamp(img, (21, 18), 200, 1.0, 2)
    out.append(dict(kind='transposition', image=img, perm=(1, 0), copy=True, params=dict(diameter=5, preprocess=False), post={}, gen='corpus-F15'))
    # F13 witness: slightly asymmetric blob
    img = np.zeros((24, 30), np.uint8)
    stamp(img, (11, 14), 220, 1.3, 4)
    img[11, 16] += 30
    img[9, 14] += 11
    out.append(dict(kind='transposition', image=img, perm=(1, 0), copy=False, params=dict(diameter=7, preprocess=False), post={}, gen='corpus-F13'))
    # non-square mask, feature next to the margin of one axis only
    img = np.zeros((20, 33), np.uint16)
    stamp(img, (3, 16), 900, 1.0, 3)
    stamp(img, (10, 5), 700, 1.2, 3)
    stamp(img, (15, 27), 800, 1.0, 3)
    out.append(dict(kind='transposition', image=img, perm=(1, 0), copy=False, params=dict(diameter=(5, 9), separation=(4, 9), preprocess=False), post={}, gen='corpus-aniso'))
    # even dilation box (asymmetric window) and a plateau
    img = np.zeros((22, 22), np.uint8)
    img[8:11, 9:12] = 90
    img[15, 4] = 90
    img[14, 15] = 60
    out.append(dict(kind='transposition', image=img, perm=(1, 0), copy=True, params=dict(diameter=3, separation=3, percentile=0, preprocess=False), post={}, gen='corpus-plateau'))
    return out


# -------------------------------------------------------------------- batch
def gen_batch(rng, tier, unblurred_float=False):
    nf = rng.randint(3, 8)
    shape = (rng.randint(30, 50), rng.randint(30, 60))
    dtype = 'float64' if unblurred_float else rng.choice(['uint8', 'uint8', 'float64'])
    frames = []
    for k in range(nf):
        r = rng.random()
        if r < 0.2:
            frames.append(np.zeros(shape, dtype=dtype))            # blank frame: no features
        else:
            frames.append(gen_content(rng, shape, rng.choice(['blobs', 'mixed', 'ladder']), dtype))
    p = dict(diameter=rng.choice([3, 5, 7, (5, 7)]), preprocess=rng.random() < 0.7, percentile=rng.choice([64, 30]))
    if rng.random() < 0.3:
        p['topn'] = 2
    if rng.random() < 0.3:
        p['characterize'] = False
    if dtype == 'float64' and (unblurred_float or rng.random() < 0.6):
        p['noise_size'] = 0          # no Gaussian blur: nothing may alias the caller's frames (they are reused across the runs)
        p['preprocess'] = True
    tagging = rng.choice(['none', 'none', 'frame_no', 'lossy', 'partial'])
    nos = rng.sample(range(100), nf)
    order = list(range(nf))
    rng.shuffle(order)
    return dict(kind='batch', frames=frames, params=p, tagging=tagging, nos=nos, order=order)


def wrap_frames(c, order):
    out = []
    for i in order:
        f = c['frames'][i]
        t = c['tagging']
        if t == 'frame_no' or (t == 'partial' and i % 2 == 0):
            out.append(Fr(f, frame_no=c['nos'][i]))
        elif t == 'lossy':
            out.append(FrLossy(f, frame_no=c['nos'][i]))
        else:
            out.append(f)
    return out


def expected_batch(c, order):
    """the property's words: locate on each frame, tagged with its frame number, concatenated"""
    rows, cols = [], None
    for k, i in enumerate(order):
        # same object type as batch hands to locate (an ndarray subclass takes slightly different numpy code paths:
        # float statistics such as ecc can differ in the last bit from locate on the plain array)
        df = run_locate(wrap_frames(c, [i])[0], c['params'])
        if isinstance(df, str):
            return df, None
        if 'frame' in df.columns:
            df = df.drop(columns=['frame'])
        t = c['tagging']
        tagged = t in ('frame_no', 'lossy') or (t == 'partial' and i % 2 == 0)
        no = c['nos'][i] if tagged else k
        if len(df) and cols is None:
            cols = list(df.columns)
        for r in df.values.tolist():
            rows.append(tuple(r) + (no,))
    return rows, cols


def eval_batch(chk, c, procs):
    res = _eval_batch(chk, c, procs, [np.array(f, copy=True) for f in c['frames']])
    return res


def _eval_batch(chk, c, procs, snapshot):
    import trackpy as tp
    res = dict(what=None)
    for order in (list(range(len(c['frames']))), c['order']):
        exp, cols = expected_batch(c, order)
        for pr in procs:
            kw = dict(c['params'])
            d = kw.pop('diameter')
            with warnings.catch_warnings():
                warnings.simplefilter('ignore')
                try:
                    got = tp.batch(wrap_frames(c, order), d, processes=pr, **kw)
                except Exception as e:
                    got = 'EXC:' + type(e).__name__
            chk.tally('batch processes=%s' % pr)
            if isinstance(exp, str) or isinstance(got, str):
                if exp != got:
                    res['what'] = 'batch(processes=%s) -> %s, locate per frame -> %s' % (pr, got if isinstance(got, str) else 'table', exp if isinstance(exp, str) else 'table')
                    res['sig'] = 'batch: outcome differs from locate per frame'
                    res['procs'], res['order'] = pr, order
                    return res
                continue
            if len(exp) == 0:
                if len(got) != 0 or 'frame' not in got.columns:
                    res['what'] = 'batch(processes=%s) on frames without features: %d rows, columns %s' % (pr, len(got), list(got.columns))
                    res['sig'] = 'batch: result for frames without features'
                    res['procs'], res['order'] = pr, order
                    return res
                continue
            gcols = list(got.columns)
            ok = gcols == cols + ['frame'] and len(got) == len(exp) and list(got.index) == list(range(len(exp)))
            if ok:
                g = np.array(got.values.tolist(), dtype=float)
                e = np.array(exp, dtype=float)
                ok = g.shape == e.shape and bool(np.all(np.isclose(g, e, rtol=1e-12, atol=0, equal_nan=True)))
            if not ok:
                what = 'columns' if gcols != cols + ['frame'] else ('row count %d vs %d' % (len(got), len(exp)) if len(got) != len(exp) else
                                                                  ('index' if list(got.index) != list(range(len(exp))) else 'values/frame numbers/order'))
                res['what'] = 'batch(processes=%s, frames in order %s) is not the concatenation of locate per frame tagged with the frame number: %s differ' % (pr, order, what)
                res['sig'] = 'batch: not the tagged concatenation of locate per frame (%s)' % what.split(' ')[0]
                res['procs'], res['order'] = pr, order
                return res
    for k, (f, f0) in enumerate(zip(c['frames'], snapshot)):
        if not np.array_equal(np.asarray(f), f0, equal_nan=True):
            res['what'] = 'locate / batch modified the caller\'s frame %d in place: later runs on the same frames see another image' % k
            res['sig'] = 'batch: input frames modified'
            res['procs'], res['order'] = procs[0], list(range(len(c['frames'])))
            return res
    return res


def j_batch(c):
    return dict(kind='batch', frames=[f.tolist() for f in c['frames']], dtype=str(c['frames'][0].dtype), params=jparams(c['params']),
                tagging=c['tagging'], nos=c['nos'], order=c['order'])


def unj_batch(j):
    return dict(kind='batch', frames=[np.array(f, dtype=j['dtype']) for f in j['frames']], params=unj(j['params']), tagging=j['tagging'],
                nos=j['nos'], order=j['order'])


# ------------------------------------------- batch: frame numbers that are not positions
# Properties/C09.v (17)-(20): every row carries ITS FRAME'S frame_no, read by the parent process;
# a sub-clip / reversed / strided selection of a numbered movie yields exactly the rows
# the full movie yields for those frames, for any number of worker processes.
def clip_selections(n):
    return [('sub-clip', list(range(3, 9))),
            ('reversed', list(range(n - 1, -1, -1))),
            ('strided', list(range(1, n, 3))),
            ('reversed strided sub-clip', list(range(9, 2, -2)))]


def gen_batch_clip(rng, lossy, first=None):
    nf = 12
    shape = (rng.randint(30, 44), rng.randint(30, 50))
    frames = []
    for k in range(nf):
        if rng.random() < 0.15:
            frames.append(np.zeros(shape, dtype='uint8'))
        else:
            frames.append(gen_content(rng, shape, rng.choice(['blobs', 'mixed']), 'uint8'))
    p = dict(diameter=rng.choice([3, 5, (5, 7)]), preprocess=rng.random() < 0.5, percentile=rng.choice([64, 30]))
    if rng.random() < 0.3:
        p['topn'] = 2
    if first is None:
        first = rng.randint(14, 40)      # sub-clip [3:9] of a movie numbered from 17 is frames 20..25
    return dict(kind='batch_clip', frames=frames, params=p, tagging='lossy' if lossy else 'frame_no',
                nos=list(range(first, first + nf)), order=list(range(nf - 1, -1, -1)))


def eval_batch_clip(chk, c, procs):
    import trackpy as tp
    import pandas as pd
    res = dict(what=None)
    kw = dict(c['params'])
    d = kw.pop('diameter')
    n = len(c['frames'])

    def run(sel, pr):
        with warnings.catch_warnings():
            warnings.simplefilter('ignore')
            try:
                return tp.batch(wrap_frames(c, sel), d, processes=pr, **kw)
            except Exception as e:
                return 'EXC:' + type(e).__name__

    full = run(list(range(n)), 1)
    if isinstance(full, str):
        chk.tally('batch clip: locate raises on the full movie (%s), skipped' % full)
        return res
    for name, sel in clip_selections(n):
        nos = [c['nos'][i] for i in sel]
        assert all(no != k for k, no in enumerate(nos))       # frame numbers differ from positions
        parts = [full[full['frame'] == no] for no in nos] if len(full) else []
        nexp = sum(len(q) for q in parts)
        for pr in procs:
            got = run(sel, pr)
            chk.tally('batch clip %s processes=%s' % (name, pr))
            bad = None
            if isinstance(got, str):
                bad = 'raises %s' % got
            elif nexp == 0:
                if len(got) != 0 or 'frame' not in got.columns:
                    bad = '%d rows, columns %s, but the full movie has no feature in these frames' % (len(got), list(got.columns))
            else:
                exp = pd.concat(parts)
                if list(got.columns) != list(exp.columns):
                    bad = 'columns %s vs %s' % (list(got.columns), list(exp.columns))
                elif len(got) != len(exp):
                    bad = 'row count %d vs %d' % (len(got), len(exp))
                elif list(got.index) != list(range(len(exp))):
                    bad = 'index is not 0..n-1'
                elif [int(v) for v in got['frame'].tolist()] != [int(v) for v in exp['frame'].tolist()]:
                    bad = 'frame numbers %s vs %s' % (sorted(set(got['frame'].tolist())), nos)
                else:
                    g = np.array(got.values.tolist(), dtype=float)
                    e = np.array(exp.values.tolist(), dtype=float)
                    if not (g.shape == e.shape and bool(np.all(np.isclose(g, e, rtol=1e-12, atol=0, equal_nan=True)))):
                        bad = 'values / order'
            if bad:
                res['what'] = ('batch(%s of a movie numbered %d..%d, processes=%s) is not the full movie\'s rows of the frames %s: %s'
                               % (name, c['nos'][0], c['nos'][-1], pr, nos, bad))
                res['sig'] = 'batch: selection of numbered frames differs from the full movie (%s)' % bad.split(' ')[0]
                res['procs'], res['clip'] = pr, name
                return res
    return res


# ------------------------------------------------------------ Coq literals
def carr(a):
    if a.ndim == 1:
        return "Node (map Leaf (%s)%%Z)" % clist([str(int(x)) for x in a.tolist()])
    return "Node " + clist([carr(x) for x in a])


def cimage(a):
    return "{| shape := %s; data := %s |}" % (czl(a.shape), carr(a))


def czl(l):
    return "(%s)%%Z" % clist([str(int(x)) if x >= 0 else "(%d)" % int(x) for x in l]) if len(l) else "(@nil Z)"


def cpts(pts):
    if len(pts) == 0:
        return "(@nil (list Z))"
    return clist([czl(p) for p in pts])


def cqopt(x):
    x = float(x)
    return "None" if not np.isfinite(x) else "(Some %s)" % cQ(x)


def clparams(p, nd):
    d, rad, sep, sm, ns, margin = axis_values(p, nd)
    return "(mkLP %s %s %s %s %s %s)" % (clist([cQ(Fraction(s).limit_denominator(1000) if not isinstance(s, int) else s) for s in sep]),
                                         czl([int(math.floor(m)) if m >= 0 else int(m) for m in margin]), czl(rad), cQ(0.6),
                                         cZ(p.get('max_iterations', 10)), cbool(p.get('characterize', True)))


def obs_term(row, nd, iso, ch):
    q = lambda x: cQ(float(x))
    pos = clist([q(x) for x in row[:nd]])
    mass = q(row[nd])
    if ch:
        ns = 1 if iso else nd
        sizes = clist([cqopt(x) for x in row[nd + 1:nd + 1 + ns]])
        signal = q(row[nd + 2 + ns])
        rawm = q(row[nd + 3 + ns])
    else:
        sizes, signal, rawm = "[]", cQ(0), cQ(0)
    return "(%s, %s, %s, %s, %s)" % (pos, mass, sizes, signal, rawm)


PIPE_FUNC = ("fun c => match c with (thr, P, content, sh1, off1, coords, rows) => "
             "check_pipeline thr P (embed sh1 off1 content) coords rows end")
MOVED_FUNC = ("fun c => match c with (thr, P, content, sh1, off1, sh2, off2) => "
              "model_moved thr P content sh1 off1 sh2 off2 end")
TRANS_FUNC = "fun c => match c with (thr, P, im) => model_transposed thr P im end"
MON_MOVED = "fun c => match c with (d, A, B) => check_moved (1 # 1099511627776) (1 # 1048576) d A B end"
MON_TRANS = "fun c => match c with (A, B) => check_transposed (1 # 1099511627776) (1 # 1048576) A B end"
PIPE_CODES = {1: 'maxima differ from the model', 2: 'row count differs from the model', 11: 'refined position differs from the model',
              12: 'mass differs from the model', 13: 'size differs from the model', 14: 'signal differs from the model', 15: 'raw_mass differs from the model'}
MON_CODES = {1: 'number of rows', 2: 'a position is not the old one plus the offset / the permuted one', 3: 'an integer-valued column differs',
             4: 'a float statistic differs beyond rounding'}


def threshold_of(img, percentile):
    nb = img[np.nonzero(img)]
    return None if len(nb) == 0 else float(np.percentile(nb, percentile))


def pipeline_terms(c):
    """small integer translation case -> (check_pipeline term, model_moved term) or None"""
    import trackpy as tp
    from trackpy.find import grey_dilation
    from trackpy.refine.center_of_mass import refine_com_arr
    p = c['params']
    content = c['content']
    nd = content.ndim
    A0 = place(content, c['shape1'], c['off1'])
    thr = threshold_of(A0, p.get('percentile', 64))
    if thr is None:
        return None
    d, rad, sep, sm, ns, margin = axis_values(p, nd)
    with warnings.catch_warnings():
        warnings.simplefilter('ignore')
        co = grey_dilation(A0, sep, p.get('percentile', 64), margin, precise=False)
        if len(co) == 0:
            rows = np.zeros((0, 1))
        else:
            rows = refine_com_arr(A0, A0, rad, co, max_iterations=p.get('max_iterations', 10), engine='python',
                                  characterize=p.get('characterize', True))
    iso = len(set(rad)) == 1
    ch = p.get('characterize', True)
    P = clparams(p, nd)
    t1 = "(%s, %s, %s, %s, %s, %s, %s)" % (cQ(thr), P, cimage(content.astype(np.int64)), czl(c['shape1']), czl(c['off1']),
                                           cpts(np.asarray(co, dtype=int).tolist()),
                                           clist([obs_term(r, nd, iso, ch) for r in rows]) if len(co) else "(@nil obs)")
    t2 = "(%s, %s, %s, %s, %s, %s, %s)" % (cQ(thr), P, cimage(content.astype(np.int64)), czl(c['shape1']), czl(c['off1']),
                                           czl(c['shape2']), czl(c['off2']))
    return t1, t2


IMPORTS_W = ("From TP Require Import Model.Dilation Model.COM Model.COMCheck "
             "Model.Equivariance Model.LocateTail Model.LocateWhole Model.LocateWholeCheck.")
WHOLE_FUNC = ("fun c => match c with (thr, P, T, content, sh1, off1, rows) => "
              "check_whole thr P T (embed sh1 off1 content) rows end")
WHOLE_CODES = {40: 'number of rows differs from the model', 41: 'a position differs from the model', 42: 'a mass differs from the model'}


def whole_terms(c, rng, fixed=None):
    """small integer preprocess=False case -> (check_whole term, chosen minmass/topn): locate's own final table
    (duplicate removal, minmass, topn applied by locate) against Model/LocateWhole.locate_whole"""
    p = dict(c['params'])
    content = c['content']
    nd = content.ndim
    A0 = place(content, c['shape1'], c['off1'])
    thr = threshold_of(A0, p.get('percentile', 64))
    if thr is None:
        return None
    base = run_locate(A0, p)
    if isinstance(base, str):
        return None
    minmass, topn = None, None
    if fixed is not None:
        minmass, topn = fixed.get('minmass'), fixed.get('topn')
    elif len(base):
        m = np.sort(base['mass'].values)
        r = rng.random()
        if r < 0.5:
            minmass = float(m[len(m) // 2]) if r < 0.25 else float(m[0])
        if rng.random() < 0.5:
            topn = rng.choice([1, 2, 3])
    if minmass is not None:
        p['minmass'] = minmass
    if topn is not None:
        p['topn'] = topn
    tab = run_locate(A0, p)
    if isinstance(tab, str):
        return None
    rows = ["(%s, %s)" % (clist([cQ(float(r[a])) for a in AX[nd]]), cQ(float(r['mass']))) for _, r in tab.iterrows()]
    T = "(mkTP %s None %s)" % (cQ(minmass if minmass is not None else 0), "(Some %d%%nat)" % topn if topn is not None else "None")
    return ("(%s, %s, %s, %s, %s, %s, %s)" % (cQ(thr), clparams(p, nd), T, cimage(content.astype(np.int64)), czl(c['shape1']), czl(c['off1']),
                                              clist(rows) if rows else "(@nil (list Q * Q))"),
            dict(minmass=minmass, topn=topn))


def trow_terms(df, nd, exact_cols, approx_cols, pos_cols):
    rows = []
    for _, r in df.iterrows():
        rows.append("(%s, %s, %s)" % (clist([cQ(float(r[a])) for a in pos_cols]),
                                      clist([cQ(float(r[a])) for a in exact_cols]) if exact_cols else "(@nil Q)",
                                      clist([cqopt(r[a]) for a in approx_cols]) if approx_cols else "(@nil (option Q))"))
    return clist(rows) if rows else "(@nil trow)"


def split_cols(df, nd, transposition):
    pos = AX[nd]
    exact = [c for c in df.columns if c in ('mass', 'signal', 'raw_mass')]
    approx = [c for c in df.columns if c.startswith('size') or c.startswith('ep') or (c == 'ecc' and not transposition)]
    return pos, exact, approx


# ---------------------------------------------------------------------- run
def touching_tally(chk, c, n, k, what):
    nd = c['content'].ndim
    nz = sum(1 for a in c['v'] if a)
    chk.tally('touching pair %d-D %s: %s' % (nd, what, 'axis-aligned' if nz == 1 else 'oblique in %d axes' % nz))
    chk.tally('touching pair: %s' % ('preprocess' if c['params'].get('preprocess') else 'raw'))
    chk.tally('touching pair: separation %s' % ('default (diameter + 1)' if c['params'].get('separation') is None else
                                                 'explicit anisotropic' if isinstance(c['params']['separation'], tuple) else 'explicit'))
    chk.tally('touching pair: %s brightness' % ('equal' if c['equal'] else 'unequal'))
    chk.tally('touching pair: %s' % ('both members reported' if n >= 2 else 'fewer than two features at the reference placement (trivial)'))
    chk.tally('touching pair: placements located (%s)' % what, k)


def report(chk, res, replay):
    if res.get('what'):
        chk.violation(res['sig'], res['what'], replay)
        return True
    return False


# ------------------------------------------------------------------ route T: the head of locate
def regenerate_head(chk):
    """re-run tools/py2coq_locatehead.py on the current source; returns (ok, text-or-log)"""
    rc, out = common.sh([sys.executable, TRANSLATOR_H, '--repo', common.REPO, '--stdout'], timeout=120)
    if rc != 0:
        return False, out
    with common.Lock(os.path.join(common.COQ, '.build.lock')):
        old = open(GEN_H).read() if os.path.exists(GEN_H) else None
        if old != out:
            tmp = GEN_H + '.tmp%d' % os.getpid()
            with open(tmp, 'w') as f:
                f.write(out)
            os.replace(tmp, GEN_H)
            chk.tally('Gen/locatehead.v rewritten (source differs from last run)')
        else:
            chk.tally('Gen/locatehead.v unchanged')
    return True, out


def build(chk):
    """translator -> cone of Properties/C09.v.  A translation failure or a failing re-proof is reported through
    chk.proof_broken; the correspondence run continues either way (so that a concrete failing input is still searched for)"""
    ok, text = regenerate_head(chk)
    if not ok:
        chk.proof_broken('translation tools/py2coq_locatehead.py (the head of locate in trackpy/feature.py, or convert_to_int / '
                         'scale_to_gamut / invert_image in trackpy/preprocessing.py, left the translatable subset)', text)
        chk.build = dict(obligations=0, discharged=0, assumptions=[], files=[], theorems=[])
    else:
        b = None
        for attempt in range(3):
            b = chk.coq()
            if open(GEN_H).read() == text:
                break
            # another run (different TRACKPY_REPO) rewrote the generated file in between: redo
            chk.violations = [v for v in chk.violations if not v[0].startswith('proof:')]
            regenerate_head(chk)
        chk.notes.append('Gen/locatehead.v sha1 %s generated from %s' % (hashlib.sha1(text.encode()).hexdigest()[:12], common.REPO))
        if not b['ok']:
            with common.Lock(os.path.join(common.COQ, '.build.lock')):
                rc, out = common.sh('timeout 600 make Proofs/LocateheadGen.vo 2>&1 | tail -25', timeout=630, cwd=common.COQ)
            chk.notes.append('make Proofs/LocateheadGen.vo (generated head of locate = model): ' + out[-2500:])
    # the executable models of the correspondence run, needed whatever happened above
    want = ['Model/EquivarianceCheck.vo', 'Model/LocateWholeCheck.vo', 'Model/COMCheck.vo', 'Model/LocateheadCheck.vo', 'Model/LocateheadCheck2.vo']
    with common.Lock(os.path.join(common.COQ, '.build.lock')):
        rc, out = common.sh('timeout 900 make %s 2>&1 | tail -25' % ' '.join(want), timeout=930, cwd=common.COQ)
    head_ok = (os.path.exists(os.path.join(common.COQ, 'Model', 'LocateheadCheck.vo'))
               and os.path.exists(os.path.join(common.COQ, 'Model', 'LocateheadCheck2.vo')) and rc == 0)
    if not head_ok:
        chk.notes.append('make of the executable models: ' + out[-1500:])
    return head_ok, ok


def cstring(t):
    assert all(32 <= ord(ch) < 127 for ch in t), t
    return '"%s"%%string' % t.replace('"', '""')


def carg(v, f):
    """scalar-or-sequence argument"""
    if isinstance(v, (tuple, list)):
        return "(PyPreproc.PySeq %s)" % clist([f(x) for x in v])
    return "(PyPreproc.PyScalar %s)" % f(v)


def gen_head_case(rng):
    """a small 2-D integer image with 1-3 blobs of different brightness and the Python-level arguments of locate"""
    rng = np.random.default_rng(rng.getrandbits(64))     # chk.rng is a random.Random: derive a numpy generator from it
    kind = ['uint8', 'uint8', 'uint16', 'int16', 'int16'][int(rng.integers(5))]
    h, w = int(rng.integers(11, 19)), int(rng.integers(11, 19))
    img = np.zeros((h, w), dtype=np.int64)
    yy, xx = np.mgrid[0:h, 0:w]
    for k in range(int(rng.integers(1, 4))):
        cy, cx = rng.uniform(2, h - 3), rng.uniform(2, w - 3)
        amp = int(rng.integers(40, 200)) + 7 * k
        sig = rng.uniform(0.7, 1.6)
        img += np.round(amp * np.exp(-((yy - cy) ** 2 + (xx - cx) ** 2) / (2 * sig * sig))).astype(np.int64)
    if rng.random() < 0.5:
        img += (rng.random((h, w)) < 0.08) * rng.integers(1, 6, (h, w))
    if kind == 'int16' and rng.random() < 0.7:
        img -= (rng.random((h, w)) < 0.15) * rng.integers(1, 30, (h, w))      # negative pixels (clipped by locate)
    img = np.clip(img, np.iinfo(kind).min, np.iinfo(kind).max).astype(kind)
    u = rng.random()
    if u < 0.5:
        diameter = int(rng.choice([3, 5]))
    elif u < 0.8:
        diameter = (int(rng.choice([3, 5])), int(rng.choice([3, 5])))
    elif u < 0.9:
        diameter = int(rng.choice([4, 6])) if rng.random() < 0.5 else (3, int(rng.choice([4, 6])))   # refused: even
    else:
        diameter = (3, 3, 3) if rng.random() < 0.5 else (5,)                                           # refused: length
    p = dict(diameter=diameter, max_iterations=int(rng.integers(1, 6)), percentile=float(rng.choice([64, 64, 50, 80, 30.5])))
    u = rng.random()
    if u < 0.25:
        p['separation'] = float(rng.choice([3, 4, 4.5, 6, 7.25]))
    elif u < 0.45:
        p['separation'] = (float(rng.choice([3, 4.5, 6])), float(rng.choice([4, 5, 7.5])))
    elif u < 0.5:
        p['separation'] = (4.0, 4.0, 4.0)                                                              # refused: length
    u = rng.random()
    if u < 0.25:
        p['smoothing_size'] = int(rng.choice([3, 7, 9, 11]))
    elif u < 0.4:
        p['smoothing_size'] = (int(rng.choice([3, 7, 11])), int(rng.choice([5, 9, 13])))
    elif u < 0.45:
        p['smoothing_size'] = (5,)                                                                     # refused: length
    u = rng.random()
    if u < 0.15:
        p['noise_size'] = (1.0, 2.0)
    elif u < 0.2:
        p['noise_size'] = (1.0, 1.0, 1.0)                                                              # refused: length
    if rng.random() < 0.4:
        p['minmass'] = float(rng.choice([20, 60.5, 150]))
    if rng.random() < 0.3:
        p['topn'] = int(rng.choice([1, 2]))
    return dict(kind='head', image=img, params=p)


def j_head(c):
    return dict(kind='head', dtype=str(c['image'].dtype), image=c['image'].tolist(), params=c['params'])


def unj_head(j):
    p = {k: (tuple(v) if isinstance(v, list) else v) for k, v in j['params'].items()}
    return dict(kind='head', image=np.array(j['image'], dtype=j['dtype']), params=p)


def locate_head_impl(img, p):
    """locate(preprocess=False, characterize=False, engine='python'): rows (y, x, mass) or the ValueError message"""
    import trackpy as tp
    kw = {k: v for k, v in p.items() if k != 'diameter'}
    with warnings.catch_warnings():
        warnings.simplefilter('ignore')
        try:
            f = tp.locate(img.copy(), p['diameter'], preprocess=False, characterize=False, engine='python', **kw)
        except ValueError as e:
            return str(e)
    return [(float(r['y']), float(r['x']), float(r['mass'])) for _, r in f.iterrows()]


def head_term(c, obs):
    img, p = c['image'], c['params']
    clipped = np.clip(img.astype(np.int64), 0, None)
    thr = threshold_of(clipped, p['percentile'])
    if isinstance(obs, str):
        o = "(inr %s)" % cstring(obs)
    else:
        o = "(inl %s)" % (clist(["(%s, %s)" % (clist([cQ(y), cQ(x)]), cQ(m)) for (y, x, m) in obs]) if obs else "(@nil (list Q * Q))")
    copt = lambda v, f: "None" if v is None else "(Some %s)" % f(v)
    return "(mkHC %s %s %s %s %s %s %s %s %s %s %s %s %s)" % (
        cQ(0.0 if thr is None else thr), cbool(img.dtype.kind == 'i'), cZ(img.dtype.itemsize * 8),
        clist([czl(r) for r in img.astype(np.int64).tolist()]) if img.size else "(@nil (list Z))",
        carg(p['diameter'], cZ), copt(p.get('minmass'), cQ), copt(p.get('separation'), lambda v: carg(v, cQ)),
        carg(p.get('noise_size', 1), lambda v: cQ(float(v))), copt(p.get('smoothing_size'), lambda v: carg(v, cZ)),
        cQ(p['percentile']), copt(p.get('topn'), common.cnat), cZ(p['max_iterations']), o)


def run_head(chk, cases, use_gen=True):
    """harness (H): locate's rows / refusal against Model/LocatePipe2.locate_py and against the GENERATED whole locate"""
    terms, used = [], []
    for c in cases:
        obs = locate_head_impl(c['image'], c['params'])
        if not isinstance(obs, str):
            # equal masses are decided by row order in where_close / argsort (F15-F17): not part of this comparison
            full = locate_head_impl(c['image'], {k: v for k, v in c['params'].items() if k != 'topn'})
            ms = [m for (_, _, m) in full]
            if len(set(ms)) != len(ms):
                chk.tally('head: equal masses (skipped)')
                continue
        terms.append(head_term(c, obs)); used.append((c, obs))
    codes = common.coq_eval_lists(chk.work, IMPORTS_H, '(check_head_with %s)' % cbool(use_gen), terms, tag='head', shard=40)
    for (c, obs), code in zip(used, codes):
        chk.count(('H', j_head(c)), not isinstance(obs, str) and len(obs) >= 1)
        chk.tally('head: %s' % ('refusal: ' + obs[:40] if isinstance(obs, str) else 'rows=%s' % ('0' if not obs else '1' if len(obs) == 1 else '2+')))
        chk.tally('head dtype %s' % c['image'].dtype)
        if code != 0:
            what = HEAD_CODES.get(code, 'code %d' % code)
            chk.violation('locate head: ' + what,
                          'locate(preprocess=False, characterize=False, engine=python) against the model of its head '
                          '(validation, defaults, clipping, margin; Model/LocatePipe2.locate_py) and the generated locate: ' + what,
                          dict(j_head(c), observed=obs, code=code))
    return used


# ------------------------------------------------------------------ (P) the preprocessing steps of the head, replayed concretely
# convert_to_int on float images, invert_image, and the default threshold locate hands to bandpass for an integer
# image (preprocess=True): the implementation against the EXECUTED generated functions (Model/LocateheadCheck2.v)
IMPORTS_P = "From Coq Require Import String.\nFrom TP Require Import Model.PyLocatehead Model.LocateheadCheck2."
PRE_FUNCS = {'pre_convert': 'check_convert', 'pre_invert_int': 'check_invert_int', 'pre_invert_flt': 'check_invert_flt',
             'pre_threshold': 'check_threshold'}
PRE_CODES = {1: 'scale factor', 2: 'shape', 3: 'a pixel', 4: 'the generated function raised', 5: 'dtype of the result',
             6: 'the generated bandpass raised', 11: 'scalefactor_to_gamut', 12: 'scale_to_gamut: shape', 13: 'scale_to_gamut: a pixel',
             14: 'generated scale_to_gamut raised', 15: 'scale_to_gamut: dtype'}
PRE_WHAT = {'pre_convert': 'preprocessing.convert_to_int / scale_to_gamut on a float image',
            'pre_invert_int': 'preprocessing.invert_image on an integer image',
            'pre_invert_flt': 'preprocessing.invert_image on a float image',
            'pre_threshold': 'locate(preprocess=True, threshold=None) on an integer image: the image handed to grey_dilation'}
IINFO_DIVISORS = {'uint8': [1, 3, 5, 15, 17, 51, 85, 255], 'uint16': [1, 3, 5, 15, 17, 51, 257, 771], 'int16': [1, 7, 31, 151, 217]}


def cqrows(a):
    return clist([clist([cQ(float(v)) for v in r]) for r in a])


def czrows(a):
    return clist([clist([cZ(int(v)) for v in r]) for r in a])


def gen_pre_case(rng, kind):
    rng = np.random.default_rng(rng.getrandbits(64))
    h, w = int(rng.integers(2, 6)), int(rng.integers(2, 6))
    if kind == 'pre_convert':
        dtype = ['uint8', 'uint8', 'uint16', 'int16'][int(rng.integers(4))]
        fam = ['dyadic', 'dyadic', 'general', 'general', 'negative', 'zero_max', 'all_negative'][int(rng.integers(7))]
        if fam == 'dyadic':
            # image.max() = d * 2^e with d | iinfo.max: the scale factor and every product are exact in float64
            d = int(rng.choice(IINFO_DIVISORS[dtype])); e = int(rng.integers(-6, 3))
            vmax = d * 2.0 ** e
            img = np.floor(rng.uniform(-0.4, 1.0, (h, w)) * vmax * 64) / 64
            img = np.minimum(img, vmax)
            img[int(rng.integers(h)), int(rng.integers(w))] = vmax
        elif fam == 'general':
            img = rng.uniform(-0.2, 1.0, (h, w)) * float(rng.choice([1.0, 0.37, 255.0, 1000.0, 3.3e-3]))
            img[int(rng.integers(h)), int(rng.integers(w))] = abs(img).max() + 0.01
        elif fam == 'negative':
            img = rng.uniform(-1.0, 0.3, (h, w)) * float(rng.choice([1.0, 17.5, 250.0]))
            img[int(rng.integers(h)), int(rng.integers(w))] = float(rng.choice([0.25, 1.0, 9.75]))
        elif fam == 'zero_max':
            img = -np.floor(rng.uniform(0, 4, (h, w)) * 8) / 8 * (rng.random((h, w)) < 0.6)
            img[int(rng.integers(h)), int(rng.integers(w))] = 0.0
        else:
            img = -rng.uniform(0.1, 3.0, (h, w))
        return dict(kind=kind, family=fam, dtype=dtype, image=np.asarray(img, dtype=np.float64))
    if kind == 'pre_invert_int':
        dtype = ['uint8', 'uint16', 'int16', 'int8', 'int32', 'uint32'][int(rng.integers(6))]
        ii = np.iinfo(dtype)
        img = rng.integers(ii.min, ii.max, (h, w), dtype=np.int64, endpoint=True).astype(dtype)
        img.flat[0] = ii.max
        if img.size > 1:
            img.flat[1] = ii.min
        return dict(kind=kind, dtype=dtype, image=img)
    if kind == 'pre_invert_flt':
        img = rng.uniform(-2.0, 3.0, (h, w)) if rng.random() < 0.5 else np.floor(rng.uniform(-2.0, 3.0, (h, w)) * 256) / 256
        return dict(kind=kind, image=np.asarray(img, dtype=np.float64))
    # pre_threshold: an integer image on the lattice of multiples of diameter^2 -- there every pass of the boxcar
    # (which scipy casts back to the integer dtype of the raw image, a step the float model of bandpass does not have)
    # is exact, so that model and implementation compute the same band-passed values up to rounding
    dtype = ['uint8', 'uint16'][int(rng.integers(2))]
    d = int(rng.choice([3, 3, 5]))
    u = d * d
    h, w = int(rng.integers(11, 15)), int(rng.integers(11, 15))
    yy, xx = np.mgrid[0:h, 0:w]
    f = np.zeros((h, w))
    top = 250 if dtype == 'uint8' else int(rng.choice([400, 3000, 60000]))
    for k in range(int(rng.integers(1, 4))):
        cy, cx = rng.uniform(3, h - 4), rng.uniform(3, w - 4)
        f += rng.uniform(0.25, 0.95) * top * np.exp(-((yy - cy) ** 2 + (xx - cx) ** 2) / (2 * rng.uniform(0.8, 2.2) ** 2))
    f += u * int(rng.integers(0, 3))
    img = (np.round(np.clip(f, 0, top) / u) * u).astype(dtype)
    return dict(kind=kind, dtype=dtype, diameter=d, image=img)


def j_pre(c):
    j = {k: v for k, v in c.items() if k != 'image'}
    j['image'] = c['image'].tolist()
    j['image_dtype'] = str(c['image'].dtype)
    return j


def unj_pre(j):
    c = {k: v for k, v in j.items() if k not in ('image', 'image_dtype', 'observed', 'code')}
    c['image'] = np.array(j['image'], dtype=j['image_dtype'])
    return c


def observe_pre(c):
    """run the implementation; returns (term, nontrivial, note) or (None, False, complaint)"""
    import trackpy as tp
    from trackpy import preprocessing as pp
    img = c['image']
    k = c['kind']
    with warnings.catch_warnings():
        warnings.simplefilter('ignore')
        if k == 'pre_convert':
            dt = np.dtype(c['dtype'])
            sf, out = pp.convert_to_int(img.copy(), dt)
            if out.dtype != dt:
                return None, False, 'convert_to_int returned dtype %s for dtype=%s' % (out.dtype, dt)
            gam = "None"
            if img.max() != 0:
                gsf, gout = pp.scalefactor_to_gamut(img.copy(), dt), pp.scale_to_gamut(img.copy(), dt)
                if gout.dtype != dt:
                    return None, False, 'scale_to_gamut returned dtype %s for dtype=%s' % (gout.dtype, dt)
                gam = "(Some (%s, %s))" % (cQ(float(gsf)), czrows(gout))
            strict = c['family'] in ('dyadic', 'zero_max')
            term = "(mkCC %s %s %s %s %s %s %s)" % (cqrows(img), cbool(dt.kind == 'i'), cZ(dt.itemsize * 8), cbool(strict),
                                                  cQ(float(sf)), czrows(out), gam)
            return term, bool((out > 0).any()) or c['family'] in ('zero_max', 'all_negative'), 'sf=%r' % float(sf)
        if k == 'pre_invert_int':
            out = pp.invert_image(img.copy())
            if out.dtype != img.dtype:
                return None, False, 'invert_image returned dtype %s for a %s image' % (out.dtype, img.dtype)
            term = "(mkIC %s %s %s %s)" % (cbool(img.dtype.kind == 'i'), cZ(img.dtype.itemsize * 8), czrows(img), czrows(out))
            return term, True, ''
        if k == 'pre_invert_flt':
            out = pp.invert_image(img.copy())
            if out.dtype != np.float64:
                return None, False, 'invert_image returned dtype %s for a float64 image' % out.dtype
            return "(mkFC %s %s)" % (cqrows(img), cqrows(out)), True, ''
        # pre_threshold: observe the image locate hands to grey_dilation
        import trackpy.feature as tf
        seen = {}
        orig = tf.grey_dilation

        def spy(image, *a, **kw):
            seen['image'] = np.array(image, copy=True)
            return orig(image, *a, **kw)
        tf.grey_dilation = spy
        try:
            tp.locate(img.copy(), c['diameter'], preprocess=True, characterize=False, engine='python', max_iterations=1)
        finally:
            tf.grey_dilation = orig
        out = seen.get('image')
        if out is None or out.dtype != img.dtype or out.shape != img.shape:
            return None, False, 'locate handed grey_dilation %s' % ('nothing' if out is None else '%s %s for a %s %s image' % (out.dtype, out.shape, img.dtype, img.shape))
        x = np.arange(-4, 5)
        args = sorted(set((x ** 2 / (-2 * 1 ** 2)).tolist()))
        table = clist(["(%s, %s)" % (cQ(float(a)), cQ(float(np.exp(a)))) for a in args])
        term = "(mkTC %s %s %s %s %s %s)" % (cbool(img.dtype.kind == 'i'), cZ(img.dtype.itemsize * 8), czrows(img), cZ(c['diameter']),
                                             table, czrows(out))
        # non-trivial: some band-passed value lies between the float default 1/255 and the integer default 1 and would
        # survive the conversion (a wrong default threshold changes the image)
        R = pp.bandpass(img.copy(), 1, c['diameter'], threshold=-1e18)
        B = np.where(R >= 1, R, 0)
        sfac = np.iinfo(img.dtype).max / B.max() if B.max() > 0 else 1.0
        sens = bool(((R > 1 / 255.) & (R < 1) & (sfac * R >= 1)).any())
        return term, sens, 'threshold-sensitive pixels: %d' % int(((R > 1 / 255.) & (R < 1) & (sfac * R >= 1)).sum())


def run_pre(chk, cases):
    """harness (P): every case through the implementation, then through the executed generated function"""
    by = {}
    for c in cases:
        try:
            term, nontrivial, note = observe_pre(c)
        except Exception as e:      # the implementation raised on a well-formed input
            term, nontrivial, note = None, False, '%s: %s' % (type(e).__name__, e)
        if term is None:
            chk.violation('locate head (preprocessing): ' + PRE_WHAT[c['kind']] + ': unexpected behaviour', note, j_pre(c))
            continue
        by.setdefault(c['kind'], []).append((c, term, nontrivial, note))
    res = []
    for k, items in by.items():
        codes = common.coq_eval_lists(chk.work, IMPORTS_P, PRE_FUNCS[k], [t for (_, t, _, _) in items], tag=k, shard=2 if k == 'pre_threshold' else 60)
        for (c, _, nontrivial, note), code in zip(items, codes):
            chk.count(('P', k, j_pre(c)['image'], c.get('dtype'), c.get('diameter')), nontrivial and code == 0)
            chk.tally('pre: %s%s' % (k[4:], ' ' + c['family'] if 'family' in c else ''))
            if k == 'pre_threshold':
                chk.tally('pre: threshold %s' % ('skipped (band-passed value on the threshold)' if code == 99 else
                                                 'sensitive to the default' if nontrivial else 'not sensitive to the default'))
            if code not in (0, 99):
                what = PRE_CODES.get(code, 'code %d' % code)
                chk.violation('locate head (preprocessing): %s: %s' % (PRE_WHAT[k].split(':')[0], what),
                              '%s differs from the executed generated function (Gen/locatehead.v): %s; %s' % (PRE_WHAT[k], what, note),
                              dict(j_pre(c), code=code))
            res.append((c, code, note))
    return res


def run(chk):
    common.quiet_trackpy()
    head_ok, translated = build(chk)
    rng = chk.rng
    quick = chk.tier == 'quick'

    # ---- (T) translation on the implementation
    nT = 260 if quick else 2600
    cases = corpus_translation() + [gen_translation(rng, chk.tier) for _ in range(nT)] + big_cases(rng)
    if not quick:
        cases += big_cases(rng) + big_cases(rng)
    mon_terms, mon_cases = [], []
    for c in cases:
        r = eval_translation(chk, c)
        nontrivial = r['n'] >= 1
        chk.count(('T', j_translation(c) if c['gen'] != 'big' else (c['off1'], c['off2'], str(c['params']), int(c['content'].sum()))), nontrivial)
        chk.tally('translation: %s' % ('preprocess' if c['params'].get('preprocess') else 'raw'))
        chk.tally('translation features=%s' % ('0' if r['n'] == 0 else '1-3' if r['n'] <= 3 else '4+'))
        if tuple(c['shape1']) != tuple(c['shape2']):
            chk.tally('translation: canvas size also changes (ep not compared)')
        if c['gen'] == 'big':
            chk.tally('translation: canvas > 1 Mpx')
        if r.get('tie'):
            chk.tally('translation: where_close tie decided by rounding (F16)')
        if report(chk, r, j_translation(c) if c['gen'] != 'big' else dict(kind='big', note='regenerate with the same seed', params=jparams(c['params']), off1=list(c['off1']), off2=list(c['off2']), diff=str(r.get('bad')))):
            continue
        if (not isinstance(r['A'], str) and 1 <= r['n'] <= 30 and len(mon_terms) < (120 if quick else 600)
                and not c['params'].get('preprocess') and c['content'].dtype.kind in 'ui' and tuple(c['shape1']) == tuple(c['shape2'])):
            nd = c['content'].ndim
            pos, exact, approx = split_cols(r['A'], nd, False)
            d = clist([cQ(int(b - a)) for a, b in zip(c['off1'], c['off2'])])
            mon_terms.append("(%s, %s, %s)" % (d, trow_terms(r['A'], nd, exact, approx, pos), trow_terms(r['B'], nd, exact, approx, pos)))
            mon_cases.append(c)
    if cases:
        chk.sample(dict(kind='translation', params=jparams(cases[0]['params']), off1=list(cases[0]['off1']), off2=list(cases[0]['off2']),
                        content_shape=list(cases[0]['content'].shape), canvas=list(cases[0]['shape1'])))
    for c, code in zip(mon_cases, common.coq_eval_lists(chk.work, IMPORTS, MON_MOVED, mon_terms, tag='monT', shard=60)):
        chk.tally('monitor check_moved evaluated')
        if code != 0:
            chk.violation('locate: monitor check_moved: ' + MON_CODES.get(code, str(code)),
                          'verified monitor rejects the pair of tables: ' + MON_CODES.get(code, str(code)), j_translation(c))

    # ---- (X) transposition on the implementation
    nX = 220 if quick else 2500
    xcases = corpus_transposition() + [gen_transposition(rng, chk.tier) for _ in range(nX)]
    mon_terms, mon_cases = [], []
    for c in xcases:
        r = eval_transposition(chk, c)
        chk.count(('X', j_transposition(c)), r['n'] >= 1)
        chk.tally('transposition %d-D' % c['image'].ndim)
        chk.tally('transposition features=%s' % ('0' if r['n'] == 0 else '1-3' if r['n'] <= 3 else '4+'))
        if r.get('sig') == SIG_F13:
            chk.tally('transposition: only ecc differs (F13)')
        if r.get('tie'):
            chk.tally('transposition: where_close tie (F15)')
        report(chk, r, j_transposition(c))
        if ('As' in r and 1 <= r['n'] <= 30 and len(mon_terms) < (120 if quick else 600)
                and (c['image'].ndim == 2 or c['perm'] == (2, 1, 0))):
            nd = c['image'].ndim
            pos, exact, approx = split_cols(r['As'], nd, True)
            # B handed over in ITS axis order (columns reversed), the monitor reverses them
            Bs = r['Bs'].copy()
            Bq = trow_terms(Bs, nd, exact, approx, pos[::-1])
            mon_terms.append("(%s, %s)" % (trow_terms(r['As'], nd, exact, approx, pos), Bq))
            mon_cases.append(c)
    chk.sample(dict(kind='transposition', params=jparams(xcases[-1]['params']), shape=list(xcases[-1]['image'].shape), perm=list(xcases[-1]['perm'])))
    for c, code in zip(mon_cases, common.coq_eval_lists(chk.work, IMPORTS, MON_TRANS, mon_terms, tag='monX', shard=60)):
        chk.tally('monitor check_transposed evaluated')
        if code != 0:
            chk.violation('locate: monitor check_transposed: ' + MON_CODES.get(code, str(code)),
                          'verified monitor rejects the pair of tables: ' + MON_CODES.get(code, str(code)), j_transposition(c))

    # ---- model correspondence (Coq): discrete pipeline on small canvases
    nM = 60 if quick else 400
    small = [gen_translation(rng, chk.tier, small=True) for _ in range(nM)]
    t1s, t2s, used = [], [], []
    for c in small:
        t = pipeline_terms(c)
        if t is None:
            chk.tally('model: blank content')
            continue
        t1s.append(t[0]); t2s.append(t[1]); used.append(c)
    r1 = common.coq_eval_lists(chk.work, IMPORTS, PIPE_FUNC, t1s, tag='pipe', shard=10)
    r2 = common.coq_eval_lists(chk.work, IMPORTS, MOVED_FUNC, t2s, tag='moved', shard=10)
    for c, a, b in zip(used, r1, r2):
        chk.count(('M', j_translation(c)), b == 0)
        if a == 99:
            chk.tally('model: shift decision within 2^-40 of shift_thresh (skipped)')
        elif a != 0:
            chk.violation('locate pipeline: ' + PIPE_CODES.get(a, str(a)), 'grey_dilation + refine_com_arr differ from Model/Equivariance.locate_discrete: ' + PIPE_CODES.get(a, str(a)),
                          dict(j_translation(c), model_code=a))
        chk.tally('model pipeline = implementation' if a == 0 else 'model pipeline code %d' % a)
        if b == 20:
            chk.proof_broken('Proofs/Equivariance.locate_discrete_moved (executed model contradicts it)', json.dumps(j_translation(c))[:3000])
        chk.tally('model moved: %s' % {0: 'equal up to the offset', 21: 'no maxima'}.get(b, 'code %d' % b))
    # whole pipeline incl. the tail: locate's own final table against Model/LocateWhole.locate_whole
    wts, usedw = [], []
    for c in small:
        t = whole_terms(c, rng)
        if t is not None:
            wts.append(t[0]); usedw.append((c, t[1]))
    for (c, wpost), code in zip(usedw, common.coq_eval_lists(chk.work, IMPORTS_W, WHOLE_FUNC, wts, tag='whole', shard=10)):
        chk.count(('MW', j_translation(c)), code == 0)
        chk.tally('model whole pipeline: %s' % {0: '= locate', 97: 'pair at the separation boundary (skipped)', 98: 'tie (skipped)',
                                                 99: 'shift decision within 2^-40 of shift_thresh (skipped)'}.get(code, 'code %d' % code))
        if code in WHOLE_CODES:
            chk.violation('locate whole pipeline: ' + WHOLE_CODES[code],
                          'locate(preprocess=False) differs from Model/LocateWhole.locate_whole (maxima, refinement, where_close, minmass, topn): ' + WHOLE_CODES[code],
                          dict(j_translation(c), whole_code=code, whole_post=wpost))
    xs = [gen_transposition(rng, chk.tier, small=True) for _ in range(nM)]
    tts, usedx = [], []
    for c in xs:
        thr = threshold_of(c['image'], c['params'].get('percentile', 64))
        if thr is None:
            continue
        tts.append("(%s, %s, %s)" % (cQ(thr), clparams(c['params'], 2), cimage(c['image'].astype(np.int64))))
        usedx.append(c)
    for c, code in zip(usedx, common.coq_eval_lists(chk.work, IMPORTS, TRANS_FUNC, tts, tag='trans', shard=10)):
        chk.count(('MX', j_transposition(c)), code == 0)
        chk.tally('model transposed: %s' % {0: 'same rows with reversed positions', 31: 'no maxima'}.get(code, 'code %d' % code))
        if code == 30:
            chk.violation('model: locate_discrete not equivariant under transposition', 'executable model differs on the transposed image', j_transposition(c))

    # ---- (B) batch
    nB = 10 if quick else 60
    procs = [1, 2, 4] if quick else [1, 2, 4, 'auto']
    for k in range(nB):
        c = gen_batch(rng, chk.tier, unblurred_float=(k % 5 == 0))   # every fifth case: float64 frames, noise_size=0 (no blur: nothing may alias the frames)
        r = eval_batch(chk, c, procs if (quick and k < 6) or not quick else [1, 2])
        chk.count(('B', j_batch(c)), True)
        chk.tally('batch tagging=%s' % c['tagging'])
        if r.get('what'):
            chk.violation(r['sig'], r['what'], dict(j_batch(c), processes=r['procs'], used_order=r['order']))
    # ---- (B2) batch on frames whose frame_no is not their position: sub-clip 20..25, reversed, strided; processes 1/2/3
    nB2 = 2 if quick else 8
    for k in range(nB2):
        c = gen_batch_clip(rng, lossy=(k % 2 == 1), first=17 if k < 2 else None)
        r = eval_batch_clip(chk, c, [1, 2, 3])
        chk.count(('B2', j_batch(c)), True)
        chk.tally('batch clip tagging=%s' % c['tagging'])
        if r.get('what'):
            chk.violation(r['sig'], r['what'], dict(j_batch(c), kind='batch_clip', processes=r['procs'], clip=r['clip']))
            continue
        # the sub-clip on its own, in order and reversed, against locate per frame
        sub = dict(c, kind='batch', frames=c['frames'][3:9], nos=c['nos'][3:9], order=list(range(5, -1, -1)))
        r = eval_batch(chk, sub, [1, 2, 3])
        if r.get('what'):
            chk.violation(r['sig'], r['what'], dict(j_batch(sub), processes=r['procs'], used_order=r['order']))
    # ---- (TP) touching pairs: where_close on its boundary, swept over placements and axis orders
    # (drawn last: the random streams of the families above are unchanged)
    nS, nA, K = (44, 16, 10) if quick else (400, 150, 16)
    for c in corpus_touching() + [gen_touching_sweep(rng, K) for _ in range(nS)]:
        n, r, c2 = eval_touching_sweep(chk, c)
        touching_tally(chk, c, n, len(c['offs']), 'placements')
        chk.count(('TP', c['content'].tolist(), jparams(c['params']), [list(o) for o in c['offs']]), n >= 2)
        if r.get('tie'):
            chk.tally('translation: where_close tie decided by rounding (F16)')
        if c2 is not None:
            report(chk, r, j_translation(c2))
    chk.sample(dict(kind='touching pair swept over placements', params=jparams(c['params']), v=list(c['v']), separation=list(c['sep']),
                    canvas=list(c['shape']), offsets=[list(o) for o in c['offs']]))
    for c in corpus_touching_axes() + [gen_touching_axes(rng) for _ in range(nA)]:
        n, r, cx = eval_touching_axes(chk, c)
        touching_tally(chk, c, n, len(c['offs']), 'axis orders')
        chk.count(('TPX', c['content'].tolist(), jparams(c['params']), [list(o) for o in c['offs']]), n >= 2)
        if r.get('sig') == SIG_F13:
            chk.tally('transposition: only ecc differs (F13)')
        if r.get('tie'):
            chk.tally('transposition: where_close tie (F15)')
        if cx is not None:
            report(chk, r, j_transposition(cx))
    # ---- (H) the head of locate: Python-level arguments (validation, defaults, refusals, clipping of signed images, margin)
    # against Model/LocatePipe2.locate_py and the generated whole locate (drawn last: the streams above are unchanged)
    if head_ok:
        hc = [gen_head_case(rng) for _ in range(70 if quick else 600)]
        run_head(chk, hc, use_gen=translated)   # after a failed translation Gen/locatehead.v is stale: model against locate only
        chk.sample(dict(kind='head', dtype=str(hc[0]['image'].dtype), shape=list(hc[0]['image'].shape), params=hc[0]['params']))
        # ---- (P) convert_to_int / invert_image / the default threshold, replayed against the executed generated functions
        # (needs the current translation: the comparison is with Gen/locatehead.v itself; drawn last)
        if translated:
            nP = dict(pre_convert=40, pre_invert_int=12, pre_invert_flt=8, pre_threshold=8) if quick else \
                 dict(pre_convert=400, pre_invert_int=80, pre_invert_flt=60, pre_threshold=60)
            pc = [gen_pre_case(rng, k) for k, n in nP.items() for _ in range(n)]
            run_pre(chk, pc)
            chk.sample(dict(kind='pre_threshold', dtype=str(pc[-1]['image'].dtype), shape=list(pc[-1]['image'].shape), diameter=pc[-1]['diameter']))
        else:
            chk.tally('pre: skipped (Gen/locatehead.v is not the translation of the current source)')
    else:
        chk.tally('head: executable model not available (see the proof-broken report)')
    # the memoised mask / weight tables are shared by every locate call of the process: what a call reports must not depend on
    # the calls made before it, so each cached table must still be what its function computes
    from props import c04 as _c04
    ntab, badtab = _c04.memo_purity()
    chk.tally('memoised tables compared with a fresh computation (%d)' % ntab)
    if badtab:
        chk.violation('memoised table modified', 'after the locate / batch calls of this run the shared memoised table %s%s no longer equals what the function '
                      'computes: every later locate call of the process reads the altered table (results depend on the call history)' % badtab[0],
                      dict(kind='memo', tables=badtab))
    chk.coverage['rule'] = ("(T) content images (blobs, plateaus, dim ladders, noise, few grey levels, close pairs; uint8/uint16/float; 2-D/3-D) pasted at two "
                            "integer offsets into blank canvases that keep margin + radius + max_iterations + filter reach from the edge, canvas size equal or "
                            "different, incl. two 1200x1000 canvases; locate parameters random; "
                            "(TP) touching pairs: two symmetric integer blobs (uint8/uint16, equal or unequal brightness, 0-2 distant distractor blobs) on whole-pixel centres whose "
                            "centre-to-centre vector v satisfies sum((v_k/separation_k)^2) = 1 exactly (enumerated in rational arithmetic: axis-aligned and oblique/Pythagorean vectors; "
                            "default separation diameter+1 and explicit iso/anisotropic separations 3..15, i.e. mostly not powers of two; 2-D and 3-D; preprocess on/off), so that "
                            "where_close decides exactly on its boundary: each content is located at 10 (thorough 16) distinct whole-pixel offsets of one canvas and every table compared "
                            "with the first (a fixed diameter-9 pair is swept over 25 consecutive offsets), and integer preprocess=False placements (two per content) are located in every "
                            "axis order (3-D: all six, 2-D: both); tallied as 'touching pair ...'; non-trivial = both members of the pair are reported at the reference placement; "
                            "(X) integer images, every axis order, preprocess=False; "
                            "(B) 3-8 frames incl. blank ones, with/without frame_no, shuffled, processes 1/2/4(/auto); "
                            "(B2) 12-frame movies of ndarray-subclass frames numbered from 14..40 (frame_no kept or lost when pickled): sub-clip [3:9], reversed, strided, "
                            "reversed strided selections with processes 1/2/3 against the full movie's rows of those frames and against locate per frame; "
                            "(H) 11..18 x 11..18 uint8/uint16/int16 images (1-3 blobs, sparse noise, negative pixels for int16) with random Python-level arguments of locate (scalar / tuple diameter incl. even and wrong-length ones, separation, smoothing_size, noise_size incl. wrong lengths, minmass, topn, max_iterations, percentile), preprocess=False, characterize=False, engine=python: rows or ValueError message against Model/LocatePipe2.locate_py and the generated Gen/locatehead.py_locate; "
                            "(P) the preprocessing steps of the head against the EXECUTED generated functions of Gen/locatehead.v (Model/LocateheadCheck2.v): "
                            "convert_to_int / scale_to_gamut / scalefactor_to_gamut on 2..5 x 2..5 float images for dtype uint8/uint16/int16 (dyadic images on which every float operation is exact: compared exactly; "
                            "general, mostly negative, image.max() == 0 and all-negative images: scale factor to 2^-50 relative, pixels exactly unless the exact product is within 2^-20 of an integer), "
                            "invert_image on integer images of six dtypes incl. iinfo.min / iinfo.max (exact) and on float images (2^-50), and locate(preprocess=True, threshold=None) on 11..14 x 11..14 uint8/uint16 images "
                            "whose values are multiples of diameter^2 (every integer boxcar pass exact): the image locate hands to grey_dilation (observed through a wrapper around trackpy.feature.grey_dilation) "
                            "against the image component of the executed generated head; non-trivial = some band-passed value between 1/255 and 1 would survive the conversion (the integer default threshold matters); "
                            "Coq: discrete pipeline model vs grey_dilation+refine_com_arr, whole-pipeline model (incl. where_close, minmass, topn) vs locate's final table, model on two placements and on the transpose, verified table monitor. "
                            "non-trivial = at least one feature located; distinct by content hash")
    chk.assumptions += [
        "translation / axis permutation are proved for the integer preprocess=False pipeline: maxima + refinement unconditionally, duplicate removal + minmass/maxsize + topn (Model/LocateWhole.v) under the boolean no_tie hypothesis (no equal masses among rows closer than separation / at the topn step; F15, F17 are such ties); bandpass and ep are covered by the correspondence run only",
        "transposition: proved for the maxima stage; refinement / mask sums under axis reversal are executed in the model (model_transposed) and compared on the implementation, not proved",
        "np.percentile enters the theorems as a section variable: invariant under permutation, non-negative on non-negative samples",
        "Pool.imap hands results out in task order (modelled: completion order arbitrary, hand-out by index); that the workers compute what locate computes in-process is tested, not proved",
        "ecc (cos/sin masks) and the noise statistics (mean/std of background pixels) are float computations outside the model",
        "numba engine runs interpreted (numba absent)",
        "route T (head of locate): tools/py2coq_locatehead.py (fail-closed) and the vocabulary Model/PyLocatehead.v are trusted; the generated locate equals the model for integer images, preprocess=False, every engine (C09_gen_locate_is_model; numba: 2-D / 3-D, diameter >= 3); theorem (14) (any axis order, tail included) is restated for the generated head followed by the tail model only (C09_gen_head_then_tail_axes_permuted_partial: the two tail models LocateWhole.tail_out / LocateTail.tail are not bridged row by row); float images end to end and the arithmetic inside bandpass for integer images (scipy casts each boxcar pass to the integer dtype: not modelled, harness (P) stays on the lattice where the cast is exact) are covered by the correspondence runs only"]


def replay(chk, path):
    common.quiet_trackpy()
    head_ok, translated = build(chk)
    j = json.load(open(path))['replay']
    k = j.get('kind')
    if k in PRE_FUNCS:
        res = run_pre(chk, [unj_pre(j)])
        print('replay:', PRE_WHAT[k], '->', [(code, PRE_CODES.get(code, 'ok' if code == 0 else code), note) for (_, code, note) in res])
        return
    if k == 'head':
        c = unj_head(j)
        used = run_head(chk, [c], use_gen=translated)
        print('replay: locate returned', used[0][1] if used else '(skipped: equal masses)')
        return
    if k == 'translation':
        c = unj_translation(j)
        r = eval_translation(chk, c)
        chk.count(('T', j), True)
        print('replay: placement 1\n', r['A'], '\nreplay: placement 2\n', r['B'], '\n', r.get('what'))
        report(chk, r, j)
        if 'model_code' in j:
            t = pipeline_terms(c)
            if t:
                code = common.coq_eval_lists(chk.work, IMPORTS, PIPE_FUNC, [t[0]])[0]
                print('replay: check_pipeline code', code, PIPE_CODES.get(code))
                if code not in (0, 99):
                    chk.violation('locate pipeline: ' + PIPE_CODES.get(code, str(code)), PIPE_CODES.get(code, str(code)), j)
        if 'whole_code' in j:
            t = whole_terms(c, chk.rng, fixed=j.get('whole_post') or {})
            if t:
                code = common.coq_eval_lists(chk.work, IMPORTS_W, WHOLE_FUNC, [t[0]])[0]
                print('replay: check_whole code', code, WHOLE_CODES.get(code))
                if code in WHOLE_CODES:
                    chk.violation('locate whole pipeline: ' + WHOLE_CODES[code], WHOLE_CODES[code], j)
    elif k == 'transposition':
        c = unj_transposition(j)
        r = eval_transposition(chk, c)
        chk.count(('X', j), True)
        print('replay: original\n', r['A'], '\nreplay: transposed (axes named back)\n', r['B'], '\n', r.get('what'))
        report(chk, r, j)
    elif k == 'batch_clip':
        c = unj_batch(j)
        r = eval_batch_clip(chk, c, [1, 2, 3])
        chk.count(('B2', j), True)
        print('replay:', r.get('what'))
        if r.get('what'):
            chk.violation(r['sig'], r['what'], j)
    elif k == 'batch':
        c = unj_batch(j)
        r = eval_batch(chk, c, [1, 2, 4])
        chk.count(('B', j), True)
        print('replay:', r.get('what'))
        if r.get('what'):
            chk.violation(r['sig'], r['what'], j)
    else:
        print('replay: nothing executable in this replay file:', j.get('note') or j.get('theorem_or_file'))
