"""C07 -- centre-of-mass refinement is engine-independent and self-consistent.

Tie (route C): trackpy.refine.center_of_mass.refine_com_arr (and the DataFrame
wrapper refine_com) is run with engine='python' and engine='numba' (numba is
absent: the kernels run interpreted) on generated integer / dyadic images, 2-D
and 3-D, isotropic and per-axis radii, characterize on/off, 1..20 iterations,
starts on blobs, far from blobs (iteration limit binds) and on the clipping
bounds.  Every feature row of both engines is embedded in a Coq term and
judged inside Coq by Model/COMCheck.check_case:
  (a) both executable models (reference loop and generic numba kernel,
      Model/COM.v -- proved equal in Proofs/COM.v) are run on the same image,
  (b) each engine's row is compared with the model: position within 2^-40
      relative, mass / signal / raw_mass exactly, size^2 within 2^-40,
  (c) monitor: on a mismatch the row is tested against the declarative clause of
      the property -- is there ANY window inside the image of which the row is
      the brightness centroid, mass, gyration radius, brightest pixel and raw
      mass?  (codes 1xx when there is none).
Python side: the two engines' rows are compared directly (all columns, ecc
included, NaN pattern exactly), shapes / column names of refine_com, caller's
arrays unchanged.

Tie (route T, pure-python engine and glue): tools/py2coq_refine.py re-translates the CURRENT source of
_safe_center_of_mass / _refine / refine_com_arr / refine_com into coq/Gen/refine.v on every run; Proofs/COMRefine.v
proves the generated functions equal to the reference model (ref_run / refine_python), to the kernel model behind the
generated numba kernels (dispatch and argument preparation) and to the column / index layout of refine_com.  A
translation error or a proof that no longer closes is reported through chk.proof_broken; the correspondence run below
continues and supplies the concrete failing input where the edit changed behaviour.

Tie (route T, numba kernels): tools/py2coq_com.py re-translates the CURRENT source
of _numba_refine_2D / _2D_c / _2D_c_a / _3D into coq/Gen/com_kernels.v on every
run; the cone of Properties/C07.v (Proofs/COMGen.v: each generated kernel equals
the kernel model) is rebuilt against it.  A translation error, a generated file
that does not compile or a proof that no longer closes is reported through
chk.proof_broken; in addition every generated case is run through the generated
kernels by vm_compute (Model/COMGenCheck.check_generated: dispatch and argument
preparation of refine_com_arr, then the kernel) and the row must be cell for cell
the row of the kernel model (codes 10xx) -- that supplies the concrete failing
input when a kernel was changed.
"""
import os, sys, json, hashlib
import numpy as np
from fractions import Fraction
import common
from common import cZ, cQ, clist, cbool

IMPORTS = "From TP Require Import Model.COM Model.COMCheck."
FUNC = "check_case"
IMPORTS_GEN = "From TP Require Import Model.COM Model.COMCheck Model.COMGenCheck."
FUNC_GEN = "check_case_gen"
TRANSLATOR = os.path.join(common.VERIF, 'tools', 'py2coq_com.py')
GEN = os.path.join(common.COQ, 'Gen', 'com_kernels.v')
# route T for the pure-python engine and the glue (_safe_center_of_mass, _refine, refine_com_arr, refine_com)
TRANSLATOR_REFINE = os.path.join(common.VERIF, 'tools', 'py2coq_refine.py')
GEN_REFINE = os.path.join(common.COQ, 'Gen', 'refine.v')
STATE = dict(gen_ok=False)
GEN_CODES = {30: 'divides by zero where the kernel model returns a row', 31: 'returns a row where the kernel model divides by zero',
             32: 'leaves a results array of the wrong shape'}


def regenerate(chk, translator=None, gen=None):
    """re-run a translator on the current source; returns (ok, text-or-log)"""
    translator = translator or TRANSLATOR
    gen = gen or GEN
    name = 'Gen/' + os.path.basename(gen)
    rc, out = common.sh([sys.executable, translator, '--repo', common.REPO, '--stdout'], timeout=60)
    if rc != 0:
        return False, out
    with common.Lock(os.path.join(common.COQ, '.build.lock')):
        old = open(gen).read() if os.path.exists(gen) else None
        if old != out:
            os.makedirs(os.path.dirname(gen), exist_ok=True)
            tmp = gen + '.tmp%d' % os.getpid()
            with open(tmp, 'w') as f:
                f.write(out)
            os.replace(tmp, gen)
            chk.tally('%s rewritten (source differs from last run)' % name)
        else:
            chk.tally('%s unchanged' % name)
    return True, out


def ensure_gencheck(chk):
    """Model/COMGenCheck.vo (generated kernels, executable) is needed by the correspondence run even when
    a proof of Proofs/COMGen.v is broken by a changed kernel"""
    with common.Lock(os.path.join(common.COQ, '.build.lock')):
        rc, out = common.sh('timeout 600 make Model/COMGenCheck.vo 2>&1 | tail -40', timeout=630, cwd=common.COQ)
        vo = os.path.join(common.COQ, 'Model', 'COMGenCheck.vo')
        fresh = os.path.exists(vo) and all(os.path.getmtime(vo) >= os.path.getmtime(os.path.join(common.COQ, f))
                                           for f in ('Model/COMGenCheck.v', 'Gen/com_kernels.v', 'Model/PyKernel.v'))
        if not fresh:
            chk.proof_broken('Gen/com_kernels.v / Model/COMGenCheck.v (generated kernels do not build)', out)
            return False
    return True


def build(chk):
    """translator -> cone of Properties/C07.v -> executable comparison file.  STATE['gen_ok'] tells the
    correspondence run whether the generated kernels can be executed."""
    STATE['gen_ok'] = False
    ok, text = regenerate(chk)
    if not ok:
        chk.proof_broken('translation tools/py2coq_com.py (a numba kernel left the translatable subset)', text)
        # the rest of the cone does not depend on the generated file being current: still build what builds
        chk.build = dict(obligations=0, discharged=0, assumptions=[], files=[], theorems=[])
        return False
    # the pure-python engine and the glue: a failing translation is reported like a broken proof; the cone is still
    # built (the kernels' proofs do not depend on Gen/refine.v being current) and the correspondence run goes on,
    # so that a concrete failing input is still searched for
    ok_r, text_r = regenerate(chk, TRANSLATOR_REFINE, GEN_REFINE)
    if not ok_r:
        chk.proof_broken('translation tools/py2coq_refine.py (_safe_center_of_mass / _refine / refine_com_arr / refine_com left the translatable subset)', text_r)
    for attempt in range(3):
        b = chk.coq()
        cur = open(GEN).read()
        cur_r = open(GEN_REFINE).read() if os.path.exists(GEN_REFINE) else None
        if cur == text and (not ok_r or cur_r == text_r):
            break
        # another run (different TRACKPY_REPO) rewrote a generated file in between: redo
        chk.violations = [v for v in chk.violations if not (v[0].startswith('proof:') and 'translation' not in v[0])]
        regenerate(chk)
        if ok_r:
            regenerate(chk, TRANSLATOR_REFINE, GEN_REFINE)
    chk.notes.append('Gen/com_kernels.v sha1 %s generated from %s' % (hashlib.sha1(text.encode()).hexdigest()[:12], common.REPO))
    if ok_r:
        chk.notes.append('Gen/refine.v sha1 %s generated from %s' % (hashlib.sha1(text_r.encode()).hexdigest()[:12], common.REPO))
    STATE['gen_ok'] = ensure_gencheck(chk) and open(GEN).read() == text
    return bool(b['ok']) and ok_r
COLS = {1: 'position', 2: 'mass', 3: 'size', 4: 'signal', 5: 'raw_mass'}
SENT = Fraction(10 ** 15 + 7)


def code_text(r):
    if r == 0:
        return 'ok'
    if r >= 1000:
        g = r - 1000
        if g == 97:
            return 'malformed case (harness)'
        if g >= 40:
            return ('generated numba kernel (translated from the current source): results column %d differs from the kernel model '
                    '(contradicts C07_generated_*)' % (g - 40))
        return 'generated numba kernel (translated from the current source) %s' % GEN_CODES.get(g, 'code %d' % g)
    if r == 20:
        return 'the reference model and the kernel model disagree (contradicts C07_engines_agree)'
    if r == 97:
        return 'malformed case (harness)'
    eng = 'numba' if (r % 100) >= 10 else 'python'
    col = COLS.get(r % 10, '?')
    if r >= 100:
        return ("engine=%s: %s differs from the model and no window inside the image has this row as its "
                "brightness centroid / mass / size / signal / raw_mass" % (eng, col))
    return "engine=%s: %s differs from the model (row is self-consistent for some other inside window)" % (eng, col)


# --------------------------------------------------------------------------
# generators
# --------------------------------------------------------------------------
def gen_image(rng, nrng, shape, kind):
    nd = len(shape)
    if kind == 'noise':
        img = nrng.integers(0, rng.choice([4, 30, 256]), shape)
    elif kind == 'sparse':
        img = (nrng.random(shape) < rng.choice([0.05, 0.15, 0.3])) * nrng.integers(1, 200, shape)
    elif kind == 'ramp':
        ax = rng.randrange(nd)
        sl = [None] * nd
        sl[ax] = slice(None)
        ramp = np.arange(shape[ax])[tuple(sl)]
        if rng.random() < 0.5:
            ramp = ramp[::-1] if nd == 1 else np.flip(ramp, ax)
        img = np.broadcast_to(ramp ** rng.choice([1, 2, 3]) + rng.choice([0, 1]), shape) + nrng.integers(0, 2, shape)
    elif kind == 'negative':
        img = nrng.integers(-40, 60, shape)
    else:  # blobs
        grids = np.ogrid[tuple(slice(0, s) for s in shape)]
        img = np.zeros(shape)
        for _ in range(rng.randint(1, 3)):
            c = [rng.uniform(0, s - 1) for s in shape]
            w = [rng.uniform(0.7, 3.0) for _ in shape]
            img = img + rng.choice([50, 120, 250]) * np.exp(-sum((g - ci) ** 2 / (2 * wi * wi) for g, ci, wi in zip(grids, c, w)))
        img = np.floor(img) + nrng.integers(0, rng.choice([1, 1, 3, 10]), shape)
    return np.asarray(img, dtype=np.int64)


UNIT_EXPONENTS = [-70, -60, -50, -44, -40, -34, -30, -27, -24, -20, 20, 40]      # large units are 2-3x dearer in Coq (no Qred)


def gen_call(rng, tier, units=False):
    """units=True: the brightness-unit family.  The same integer pictures, expressed in a brightness unit of 2^e
    (e from UNIT_EXPONENTS: down to 2^-70 ~ 1e-21, where every window sum is far below any absolute tolerance such
    as numpy.isclose's 1e-8; around 2^-27 .. 2^-34, where windows of one image straddle 1e-8; up to 2^40).  Scaling by
    a power of two is exact in float64, so position / size are those of the integer picture bit for bit and mass /
    signal / raw_mass are the integer values times 2^e: the model judges these rows as strictly as integer rows."""
    nrng = np.random.default_rng(rng.getrandbits(32))
    nd = 2 if rng.random() < 0.7 else 3
    rmax = (4 if nd == 2 else 2) if tier == 'quick' else (5 if nd == 2 else 3)
    if rng.random() < 0.5:
        radius = (rng.randint(1, rmax),) * nd
    else:
        radius = tuple(rng.randint(1, rmax) for _ in range(nd))
    extra = 12 if nd == 2 else 5
    shape = tuple(2 * r + 1 + rng.choice([0, 1, 2, rng.randint(0, extra), rng.randint(3, extra)]) for r in radius)
    kind = rng.choice(['blobs', 'blobs', 'blobs', 'noise', 'sparse', 'ramp', 'ramp', 'negative'])
    img = gen_image(rng, nrng, shape, kind)
    scale = 1
    if kind == 'negative':
        dt = rng.choice(['int64', 'float64', 'dyadic', 'int16', 'int32'])
    else:
        dt = rng.choice(['uint8', 'uint16', 'int64', 'float64', 'dyadic', 'int16', 'int16', 'int32', 'int8'])
    unit = 0
    if units:
        unit = rng.choice(UNIT_EXPONENTS)
        dt = 'dyadic' if unit < 0 else 'float64'
        if unit > 0:
            img = img * 2 ** unit
    if dt == 'uint8':
        img = np.minimum(img, 255)
    if dt in ('int8', 'int16', 'int32'):
        # narrow signed pixels stretched to the top of their range (a 16-bit camera frame, or what locate's
        # convert_to_int makes of a bandpassed frame): pixel * mask offset no longer fits the pixel type
        top = {'int8': 127, 'int16': 32767, 'int32': 2 ** 31 - 1}[dt]
        peak_abs = int(np.abs(img).max()) or 1
        if rng.random() < 0.8:
            img = img * (top // peak_abs)
        else:
            img = np.clip(img, -top, top)
    rawkind = rng.choice(['same', 'other', 'other'])
    raw = img if rawkind == 'same' else np.asarray(nrng.integers(0, 128 if dt == 'int8' else 256, shape), dtype=np.int64)   # the raw frame is stored in the same dtype
    if dt == 'dyadic':
        scale = 2 ** -unit if units else rng.choice([2, 8, 64])
    n = rng.randint(1, 5)
    starts = []
    lo = radius
    hi = tuple(s - 1 - r for s, r in zip(shape, radius))
    peak = np.unravel_index(int(np.argmax(img)), shape)
    for _ in range(n):
        how = rng.choice(['any', 'any', 'bound', 'peak', 'corner'])
        if how == 'any':
            c = [rng.randint(l, h) for l, h in zip(lo, hi)]
        elif how == 'bound':
            c = [rng.choice([l, h, rng.randint(l, h)]) for l, h in zip(lo, hi)]
        elif how == 'corner':
            c = [rng.choice([l, h]) for l, h in zip(lo, hi)]
        else:
            c = [min(max(int(p) + rng.choice([-2, -1, 0, 0, 1, 2]), l), h) for p, l, h in zip(peak, lo, hi)]
        starts.append(c)
    mi = rng.choice([1, 1, 2, 2, 3, 4, 5, 7, 10, 10, 15, 20, 0, -3])
    st = rng.choice([0.6, 0.6, 0.6, 0.5, 0.5, 0.25, 0.75, 1.0, 0.4, 0.0, 0.125])
    c = dict(ndim=nd, radius=list(radius), shape=list(shape), kind=kind, dtype=dt, scale=scale,
             image=img.ravel().tolist(), raw=raw.ravel().tolist(), starts=starts, max_iterations=mi,
             shift_thresh=st, characterize=rng.random() < 0.7,
             entry=rng.choice(['arr', 'arr', 'df']), coord_dtype=rng.choice(['int', 'float', 'frac']))
    if units:
        c['unit'] = unit
    # how the two arrays reach the engines: separate buffers; ONE array object passed twice (locate without preprocessing);
    # or two channel views of one interleaved buffer (image[..., 0] / image[..., 1] of a colour frame: they share memory,
    # are not contiguous, and hold different numbers)
    if rawkind == 'same':
        c['layout'] = rng.choice(['separate', 'alias'])
    elif dt != 'uint8':
        c['layout'] = rng.choice(['separate', 'separate', 'interleaved'])
    return c


def corpus():
    """hand-made tricky cases (no DESIGN section-4 witness belongs to C07)"""
    cs = []

    def mk(shape, image, radius, starts, mi=10, st=0.6, ch=True, raw=None, dtype='int64', scale=1, entry='arr', cd='int', kind='corpus'):
        image = np.asarray(image, dtype=np.int64).reshape(shape)
        raw = image if raw is None else np.asarray(raw, dtype=np.int64).reshape(shape)
        cs.append(dict(ndim=len(shape), radius=list(radius), shape=list(shape), kind=kind, dtype=dtype, scale=scale,
                       image=image.ravel().tolist(), raw=raw.ravel().tolist(), starts=[list(s) for s in starts],
                       max_iterations=mi, shift_thresh=st, characterize=ch, entry=entry, coord_dtype=cd))
    # off-centre exactly on a dyadic threshold: neither break nor shift, runs out of iterations in place
    a = np.zeros((7, 7), int); a[3, 3] = 1; a[3, 4] = 1
    mk((7, 7), a, (2, 2), [(3, 3)], st=0.5)
    mk((7, 7), a, (2, 2), [(3, 3)], st=0.5, mi=1, ch=False)
    a2 = np.zeros((7, 7), int); a2[3, 3] = 1; a2[3, 2] = 1; a2[2, 3] = 2; a2[4, 3] = 2
    mk((7, 7), a2, (2, 2), [(3, 3)], st=0.5)                      # off = -1/2 exactly on x, 0 on y
    mk((7, 7), a2.T, (2, 2), [(3, 3), (3, 4)], st=0.5, mi=3)
    mk((7, 7, 7), np.stack([a2] * 7), (2, 2, 2), [(3, 3, 3), (2, 3, 4)], st=0.5, mi=3)
    # threshold 0 with an exactly centred window: never breaks, never shifts
    mk((9, 16), np.broadcast_to(np.arange(16) ** 2, (9, 16)), (2, 2), [(4, 2), (4, 13)], st=0.0, mi=4)
    mk((9, 9), np.ones(81), (2, 3), [(4, 4), (2, 3)], st=0.0, mi=4)
    # far start on a ramp: every iteration shifts, the limit binds; last iteration shifts but must not be measured
    r = np.broadcast_to(np.arange(16) ** 2, (9, 16))
    for mi in (1, 2, 3, 7, 20):
        mk((9, 16), r, (2, 2), [(4, 2), (2, 2), (6, 13)], mi=mi)
        mk((9, 16), r, (1, 3), [(4, 3), (1, 3)], mi=mi, raw=np.arange(144) % 17)
    mk((9, 16), r[:, ::-1], (2, 2), [(4, 13), (2, 2)], mi=20)
    # image exactly as large as the mask: one admissible window
    mk((5, 7), np.arange(35) % 11 + 1, (2, 3), [(2, 3)])
    # clipping bounds: gradient pushes outward from both bounds
    mk((8, 8), np.broadcast_to(np.arange(8)[:, None] ** 3, (8, 8)), (1, 1), [(6, 6), (1, 1), (6, 1)], mi=5)
    mk((8, 8), np.broadcast_to(np.arange(8)[::-1][:, None] ** 3, (8, 8)), (1, 2), [(6, 5), (1, 2)], mi=5)
    # negative pixels: signal is floored at 0, masses may be negative
    mk((7, 7), -(np.arange(49) % 5) - 1, (2, 2), [(3, 3), (2, 4)], dtype='float64')
    mk((7, 7), (np.arange(49) * 7 % 13) - 6, (1, 2), [(3, 3), (1, 2), (5, 4)], dtype='float64')
    # zero-mass window (premise fails; counted, engines legitimately differ)
    mk((7, 7), np.zeros(49), (2, 2), [(3, 3)])
    # 3-D anisotropic, characterised, and not
    b = (np.arange(7 * 9 * 11).reshape(7, 9, 11) * 37 % 23)
    mk((7, 9, 11), b, (1, 2, 3), [(3, 4, 5), (1, 2, 3), (5, 6, 7)], mi=6)
    mk((7, 9, 11), b, (1, 2, 3), [(3, 4, 5), (5, 2, 7)], mi=6, ch=False)
    mk((7, 9, 11), b, (2, 2, 2), [(3, 4, 5), (2, 2, 8)], mi=3, entry='df')
    # max_iterations <= 0 is raised to 1
    mk((9, 9), np.arange(81) % 7, (2, 2), [(4, 4), (2, 6)], mi=0)
    mk((9, 9), np.arange(81) % 7, (2, 3), [(4, 4), (2, 5)], mi=-2, entry='df', cd='float')
    # dyadic float image
    mk((9, 9), np.arange(81) * 5 % 19, (3, 3), [(4, 4), (3, 5)], dtype='dyadic', scale=8)
    # a blob one pixel from the start, thresholds around the default
    c = np.zeros((11, 11), int); c[5:8, 5:8] = [[1, 2, 1], [2, 30, 9], [1, 9, 4]]
    for st in (0.6, 0.5, 0.25, 1.0, 0.0):
        mk((11, 11), c, (3, 3), [(5, 5), (7, 7), (4, 6)], st=st, mi=4)
        mk((11, 11), c.T, (3, 2), [(5, 5), (7, 7)], st=st, mi=4)
    # the same pictures in small brightness units (window sums non-zero but below 1e-8 / 1e-12 / 1e-16 in absolute value)
    # and in large ones: nothing in the property depends on the unit of brightness
    for e in (27, 40, 60):
        mk((11, 11), c, (3, 3), [(5, 5), (7, 7), (4, 6)], mi=4, dtype='dyadic', scale=2 ** e, kind='corpus-units')
        mk((11, 11), c.T, (3, 2), [(5, 5), (7, 7)], mi=4, dtype='dyadic', scale=2 ** e, entry='df', kind='corpus-units')
        mk((9, 16), r, (2, 2), [(4, 2), (2, 2), (6, 13)], mi=7, dtype='dyadic', scale=2 ** e, kind='corpus-units')
        mk((7, 9, 11), b, (1, 2, 3), [(3, 4, 5), (1, 2, 3), (5, 6, 7)], mi=6, dtype='dyadic', scale=2 ** e, kind='corpus-units')
        mk((7, 9, 11), b, (2, 2, 2), [(3, 4, 5), (2, 2, 8)], mi=3, dtype='dyadic', scale=2 ** e, ch=False, kind='corpus-units')
    mk((11, 11), c * 2 ** 40, (3, 3), [(5, 5), (7, 7), (4, 6)], mi=4, dtype='float64', kind='corpus-units')
    return cs


# --------------------------------------------------------------------------
# implementation side
# --------------------------------------------------------------------------
def arrays_of(c):
    shape = tuple(c['shape'])
    img = np.array(c['image'], dtype=np.int64).reshape(shape)
    raw = np.array(c['raw'], dtype=np.int64).reshape(shape)
    dt = c['dtype']
    if dt == 'dyadic':
        img = img.astype(np.float64) / float(c['scale'])      # scale is a power of two: exact
        raw = raw.astype(np.float64) / float(c['scale'])
    elif dt in ('uint8', 'uint16'):
        img = img.astype(dt)
        raw = raw.astype(np.uint16 if dt == 'uint8' else dt)
    else:
        img = img.astype(dt)
        raw = raw.astype(dt)
    lay = c.get('layout', 'separate')
    if lay == 'alias' and img.dtype == raw.dtype and np.array_equal(img, raw):
        raw = img
    elif lay == 'interleaved' and img.dtype == raw.dtype:
        buf = np.stack([img, raw], axis=-1)
        img, raw = buf[..., 0], buf[..., 1]
    co = np.array(c['starts'], dtype=np.int64)
    if c['coord_dtype'] == 'float':
        co = co.astype(np.float64)
    elif c['coord_dtype'] == 'frac':
        co = co.astype(np.float64) + np.where(np.arange(co.size).reshape(co.shape) % 2 == 0, 0.3, -0.4)
    return img, raw, co


def names(nd, iso, ch):
    pos = ['z', 'y', 'x'][-nd:]
    cols = pos + ['mass']
    if ch:
        cols += (['size'] if iso else ['size_' + p for p in pos]) + ['ecc', 'signal', 'raw_mass']
    return cols


def run_impl(c):
    """both engines on the same array objects; returns dict engine -> 2-D float array, plus problems"""
    from trackpy.refine import center_of_mass as com
    import pandas as pd
    img, raw, co = arrays_of(c)
    keep = (img.copy(), raw.copy(), co.copy())
    nd = c['ndim']
    radius = tuple(c['radius'])
    iso = len(set(radius)) == 1
    cols = names(nd, iso, c['characterize'])
    out, problems = {}, []
    for eng in ('python', 'numba'):
        try:
            with np.errstate(all='ignore'):
                if c['entry'] == 'df':
                    pos = ['z', 'y', 'x'][-nd:]
                    df = pd.DataFrame(co, columns=pos, index=np.arange(len(co)) * 3 + 5)
                    res = com.refine_com(raw, img, radius, df, max_iterations=c['max_iterations'], engine=eng,
                                         shift_thresh=c['shift_thresh'], characterize=c['characterize'])
                    if list(res.columns) != cols:
                        problems.append(('columns', 'refine_com(engine=%s) columns %s, expected %s' % (eng, list(res.columns), cols)))
                        res = None
                    elif list(res.index) != list(df.index):
                        problems.append(('index', 'refine_com(engine=%s) does not keep the index of coords' % eng))
                        res = None
                    else:
                        res = res[cols].values.astype(np.float64)
                else:
                    res = com.refine_com_arr(raw, img, radius, co, max_iterations=c['max_iterations'], engine=eng,
                                             shift_thresh=c['shift_thresh'], characterize=c['characterize'])
                    res = np.asarray(res, dtype=np.float64)
        except Exception as e:
            problems.append(('exception', 'engine=%s raised %r' % (eng, e)))
            res = None
        if res is not None and res.shape != (len(co), len(cols)):
            problems.append(('shape', 'engine=%s result shape %s, expected %s' % (eng, res.shape, (len(co), len(cols)))))
            res = None
        out[eng] = res
    if not (np.array_equal(keep[0], img) and np.array_equal(keep[1], raw) and np.array_equal(keep[2], co)):
        problems.append(('mutated', "caller's image / raw_image / coords array was modified"))
    return out, problems, cols


def fr(x):
    x = float(x)
    if not np.isfinite(x):
        return None
    return Fraction(*x.as_integer_ratio())


def obs_term(row, nd, iso, ch):
    def q(x):
        f = fr(x)
        return cQ(SENT if f is None else f)
    pos = clist([q(x) for x in row[:nd]])
    mass = q(row[nd])
    if ch:
        ns = 1 if iso else nd
        sizes = clist(["None" if fr(x) is None else "(Some %s)" % cQ(fr(x)) for x in row[nd + 1:nd + 1 + ns]])
        signal = q(row[nd + 2 + ns])
        rawm = q(row[nd + 3 + ns])
    else:
        sizes, signal, rawm = "[]", cQ(0), cQ(0)
    return "(%s, %s, %s, %s, %s)" % (pos, mass, sizes, signal, rawm)


def case_term(c, start, row_py, row_nb):
    nd = c['ndim']
    iso = len(set(c['radius'])) == 1
    zl = lambda l: clist([cZ(x) for x in l])
    return "(mkCase %s %s %s %s %s %s %s %s %s %s %s)" % (
        zl(c['shape']), zl(c['image']), zl(c['raw']), zl(c['radius']), cQ(float(c['shift_thresh'])),
        cZ(c['max_iterations']), cbool(c['characterize']), zl(start), cZ(c['scale']),
        obs_term(row_py, nd, iso, c['characterize']), obs_term(row_nb, nd, iso, c['characterize']))


def py_compare(c, out, cols):
    """direct engine-vs-engine comparison, all columns; returns list of (row, column, a, b)"""
    a, b = out['python'], out['numba']
    diffs = []
    for i in range(a.shape[0]):
        for j, name in enumerate(cols):
            x, y = a[i, j], b[i, j]
            if np.isnan(x) and np.isnan(y):
                continue
            # brightness columns: the absolute slack is expressed in the image's own brightness unit
            atol = 1e-12 / float(c['scale']) if name in ('mass', 'signal', 'raw_mass') else 1e-12
            if np.isnan(x) != np.isnan(y) or not np.isclose(x, y, rtol=1e-10, atol=atol):
                diffs.append((i, name, float(x), float(y)))
    return diffs


def evaluate(chk, calls, tag='cases'):
    terms, meta = [], []
    for c in calls:
        out, problems, cols = run_impl(c)
        chk.tally('ndim=%d' % c['ndim']); chk.tally('image=' + c['kind']); chk.tally('dtype=' + c['dtype'])
        chk.tally('isotropic' if len(set(c['radius'])) == 1 else 'anisotropic')
        chk.tally('characterize=%s' % c['characterize']); chk.tally('entry=' + c['entry'])
        chk.tally('array layout=' + c.get('layout', 'separate'))
        chk.tally('max_iterations=%s' % (c['max_iterations'] if c['max_iterations'] <= 5 else '>5'))
        if c['dtype'] == 'dyadic' and c['scale'] > 64:
            e = int(c['scale']).bit_length() - 1
            chk.tally('brightness unit 2^-%d (%s)' % (e, 'window sums far below 1e-8' if e >= 44 else 'window sums around 1e-8' if e >= 27 else 'window sums above 1e-8'))
        elif c.get('unit', 0) > 0 or c['kind'] == 'corpus-units':
            chk.tally('brightness unit 2^+%d' % c.get('unit', 40))
        c['_out'] = out
        c['_cols'] = cols
        c['_problems'] = problems
        c['_rows'] = []
        if out['python'] is None or out['numba'] is None:
            # one engine failed: give the other one's rows to both slots so the model still judges
            # whether the premise holds (code 98) before this is called a violation
            other = out['python'] if out['python'] is not None else out['numba']
            if other is None:
                for p in problems:
                    chk.violation('refine_com:%s' % p[0], p[1], dict(kind='call', case=jsonable(c)))
                chk.count(('call', jsonable(c)), False)
                continue
            a = b = other
        else:
            a, b = out['python'], out['numba']
        starts = np.round(arrays_of(c)[2]).astype(int).tolist()
        for i, s in enumerate(starts):
            terms.append(case_term(c, s, a[i], b[i]))
            meta.append((c, i))
    if STATE['gen_ok']:
        res = common.coq_eval_lists(chk.work, IMPORTS_GEN, FUNC_GEN, terms, shard=60, tag=tag)
    else:
        res = common.coq_eval_lists(chk.work, IMPORTS, FUNC, terms, shard=60, tag=tag)
    for (c, i), r in zip(meta, res):
        c['_rows'].append(r)
    for c in calls:
        if not c['_rows']:
            continue
        rows = c['_rows']
        premise_ok = all(r != 98 for r in rows)
        nontrivial = any(r == 0 for r in rows)
        for r in rows:
            chk.tally('row: ' + ('ok' if r == 0 else 'premise fails (zero-mass window visited)' if r == 98 else
                                 'degenerate threshold margin (skipped)' if r == 99 else 'flagged'))
        chk.count(('call', jsonable(c)), nontrivial)
        for i, r in enumerate(rows):
            if r >= 1000 and r != 1097:
                chk.violation('numba kernel source:%s' % code_text(r).split(' (contradicts')[0],
                              'ndim=%d radius=%s start=%s max_iterations=%s characterize=%s: %s' % (
                                  c['ndim'], c['radius'], c['starts'][i], c['max_iterations'], c['characterize'], code_text(r)),
                              dict(kind='row', code=r, row=i, case=jsonable(c)))
            elif r not in (0, 98, 99):
                chk.violation('refine_com_arr:%s' % code_text(r).split(' (')[0],
                              'ndim=%d radius=%s start=%s max_iterations=%s characterize=%s: %s' % (
                                  c['ndim'], c['radius'], c['starts'][i], c['max_iterations'], c['characterize'], code_text(r)),
                              dict(kind='row', code=r, row=i, case=jsonable(c)))
        if premise_ok:
            for p in c['_problems']:
                chk.violation('refine_com:%s' % p[0], p[1], dict(kind='call', case=jsonable(c)))
            if c['_out']['python'] is not None and c['_out']['numba'] is not None:
                d = py_compare(c, c['_out'], c['_cols'])
                if d:
                    i, name, x, y = d[0]
                    chk.violation('engines differ: column %s' % name.split('_')[0],
                                  "engine='python' and engine='numba' return different %s for start %s: %r vs %r (ndim=%d radius=%s)" % (
                                      name, c['starts'][i], x, y, c['ndim'], c['radius']),
                                  dict(kind='row', code=-1, row=i, case=jsonable(c)))
        else:
            chk.tally('call with a zero-mass window (engine comparison not applicable)')
    return calls


def margin_probe():
    """outside the property's premise (start window not inside the image): recorded, not judged"""
    from trackpy.refine.center_of_mass import refine_com_arr
    img = (np.arange(100).reshape(10, 10) % 7 + 1).astype(np.int64)
    seen = []
    for st in ([[1, 5]], [[8, 5]]):
        for e in ('python', 'numba'):
            try:
                with np.errstate(all='ignore'):
                    r = refine_com_arr(img, img, (2, 2), np.array(st), engine=e, max_iterations=3)
                seen.append('%s start %s: returns row %s' % (e, st[0], np.round(r[0, :3], 3).tolist()))
            except Exception as ex:
                seen.append('%s start %s: %s' % (e, st[0], type(ex).__name__))
    return ("observation outside the premise (start closer than radius to the border, never produced by locate): " + '; '.join(seen) +
            " -- the first evaluation is not clipped; the kernels index image[coord - radius + mask] unchecked (wraps around at the low border)")


def jsonable(c):
    return {k: v for k, v in c.items() if not k.startswith('_')}


def large_radius_family(chk):
    """radii of 20 .. 130 pixels (mask offsets beyond the int8 / uint8 range): too large for the Coq model within
    the time budget, so the two engines are compared with each other and with an independent numpy evaluation of
    one window (max_iterations=1 from an exact start: position = centroid of the mask neighbourhood, mass = its sum)"""
    from trackpy.refine.center_of_mass import refine_com_arr
    from trackpy.masks import binary_mask
    rng = chk.rng
    cases = [((13, 13), (40, 44)), ((26, 26), (70, 66)), ((13, 13, 13), (36, 36, 38)), ((64, 64), (150, 150)), ((70, 3), (170, 40)), ((127, 2), (280, 30)), ((128, 3), (290, 30)), ((20, 20), (60, 60)),
             ((66, 2, 2), (150, 12, 12)), ((3, 65), (40, 160))]
    if chk.tier == 'thorough':
        cases += [((129, 2), (300, 20)), ((100, 100), (230, 230)), ((2, 2, 80), (12, 12, 200))]
    for radius, shape in cases:
        nd = len(shape)
        img = np.zeros(shape, dtype=np.int64)
        grid = np.indices(shape)
        for _ in range(3):
            c = [rng.randint(r + 2, s - r - 3) for r, s in zip(radius, shape)]
            d2 = sum(((g - ci) / (0.6 * r + 1.0)) ** 2 for g, ci, r in zip(grid, c, radius))
            img += (200 * np.exp(-d2)).astype(np.int64)
        img += np.array([rng.randint(0, 3) for _ in range(img.size)], dtype=np.int64).reshape(shape)
        img = img.astype(np.uint16)
        start = np.array([[rng.randint(r, s - 1 - r) for r, s in zip(radius, shape)]], dtype=float)
        for ch in (False, True):
            for iters in (1, 4):
                large_eval(chk, img, radius, start, ch, iters)


def large_eval(chk, img, radius, start, ch, iters):
    from trackpy.refine.center_of_mass import refine_com_arr
    from trackpy.masks import binary_mask
    shape, nd = img.shape, img.ndim
    info = dict(kind='large', radius=list(radius), shape=list(shape), start=start.tolist(), characterize=ch, max_iterations=iters, image=img.tolist())
    out = {}
    for eng in ('python', 'numba'):
        try:
            out[eng] = refine_com_arr(img, img, radius, start.copy(), max_iterations=iters, engine=eng, characterize=ch)
        except Exception as e:
            out[eng] = None
            chk.violation('large radius: engine raised', "engine=%s raised %r at radius %s" % (eng, e, radius), dict(info, engine=eng))
    chk.count(('large', tuple(radius), tuple(shape), start.tolist(), ch, iters), True)
    chk.tally('large-radius engine comparison (radius max %d)' % max(radius))
    if out['python'] is None or out['numba'] is None:
        return
    a, b = out['python'][0], out['numba'][0]
    if not np.allclose(a, b, rtol=1e-9, atol=1e-9, equal_nan=True):
        chk.violation('engines differ: large radius', "engine='python' and engine='numba' differ at radius %s (mask offsets beyond 127): %s vs %s" % (radius, a.tolist(), b.tolist()),
                      dict(info, python=a.tolist(), numba=b.tolist()))
    if iters == 1:
        mask = binary_mask(tuple(radius), nd)
        sl = tuple(slice(int(c) - r, int(c) + r + 1) for c, r in zip(start[0], radius))
        nb = img[sl].astype(float) * mask
        mass = nb.sum()
        cen = [float((nb * g).sum() / mass) + (int(c) - r) for g, c, r in zip(np.indices(nb.shape), start[0], radius)]
        # size = radius of gyration of the SAME neighbourhood (isotropic radii): sqrt(sum I r^2 / mass)
        exp_size = None
        if ch and len(set(radius)) == 1:
            r2 = sum((g - r) ** 2 for g, r in zip(np.indices(nb.shape), radius))
            exp_size = float(np.sqrt((nb * r2).sum() / mass))
        for eng in ('python', 'numba'):
            row = out[eng][0]
            if exp_size is not None and abs(row[nd + 1] - exp_size) > 1e-9 * max(1.0, exp_size):
                chk.violation('large radius: size not measured on the neighbourhood of position and mass',
                              "engine=%s at radius %s: reported size %r, radius of gyration of the mask neighbourhood the mass was measured on is %r "
                              "(lattice points exactly on the mask boundary, e.g. 5-12-13)" % (eng, radius, float(row[nd + 1]), exp_size), dict(info, engine=eng))
            if not (np.allclose(row[:nd], cen, rtol=1e-9, atol=1e-9) and abs(row[nd] - mass) <= 1e-6 * max(1.0, mass)):
                chk.violation('large radius: not the centroid / mass of the mask neighbourhood',
                              "engine=%s at radius %s: position %s mass %s, independent evaluation of the start window gives %s mass %s" % (
                                  eng, radius, row[:nd].tolist(), row[nd], cen, mass), dict(info, engine=eng))


def run(chk):
    common.quiet_trackpy()
    build(chk)
    chk.tally('generated kernels executed next to the kernel model' if STATE['gen_ok'] else 'generated kernels NOT executable (see proof-broken report)')
    n = 600 if chk.tier == "quick" else 5000
    calls = corpus() + [gen_call(chk.rng, chk.tier) for _ in range(n)]
    large_radius_family(chk)
    # the brightness-unit family is generated last so that the random stream of the families above is what it was
    n_units = 120 if chk.tier == "quick" else 800
    calls += [gen_call(chk.rng, chk.tier, units=True) for _ in range(n_units)]
    evaluate(chk, calls)
    for c in calls[:2] + calls[-2:]:
        s = jsonable(c)
        s['impl_python'] = None if c['_out']['python'] is None else c['_out']['python'].tolist()
        s['model_codes'] = c['_rows']
        chk.sample(json.loads(json.dumps(s, default=str).replace('NaN', 'null')))
    chk.notes.append(margin_probe())
    chk.coverage['rule'] = ("refine_com_arr / refine_com with engine='python' and engine='numba' on integer and dyadic-float images "
                            "(blobs, noise, sparse, ramps, negative values; uint8/uint16/int64/float64), 2-D and 3-D, equal and per-axis radii 1-5, "
                            "max_iterations in {-3,0,1..20}, shift_thresh in {0,1/8,1/4,0.4,1/2,0.6,3/4,1}, characterize on/off, 1-5 starts per call "
                            "(random, on the clipping bounds, corners, near the brightest pixel), plus a hand-made corpus. "
                            "Brightness-unit family (120 calls quick / 800 thorough + corpus): the same generators with the picture expressed in a unit of 2^e, "
                            "e in {-70,-60,-50,-44,-40,-34,-30,-27,-24,-20,+20,+40} (float64; exact scaling), i.e. window sums that are non-zero but far below / "
                            "around 1e-8, 1e-12, 1e-16 in absolute value, and large ones: rows judged by the model exactly like integer rows (mass / signal / raw_mass "
                            "exact in that unit), engines compared with an absolute slack scaled to the unit. One Coq case per feature row. "
                            "non-trivial = call with at least one row judged ok by the model with the premise (non-zero mass at every visited window) met; "
                            "distinct by content hash")
    chk.assumptions += [
        "numba is absent: engine='numba' executes the kernels interpreted; compiled execution is not covered",
        "the four numba kernels are translated from the current source by tools/py2coq_com.py (trusted, fail-closed; subset and conventions in its docstring: exact rationals for floats, guarded division, "
        "total array reads returning 0 outside the array, UnboundLocalError not modelled, ecc sliced out) into Gen/com_kernels.v; Proofs/COMGen.v proves the generated kernels equal to the generic kernel model "
        "(see Properties/C07.v for which kernels are closed by proof), and every generated case also runs the generated kernels by vm_compute against the kernel model",
        "_safe_center_of_mass, _refine, refine_com_arr and refine_com are translated from the current source by tools/py2coq_refine.py (trusted, fail-closed; subset and conventions in its docstring and in "
        "Model/PyRefine.v: arrays = shape + total index function, Python's negative-index wrap-around / slice truncation at the border not modelled, float division total (x/0 = 0, excluded by the non-zero-mass premise), "
        "in-place update of the private rounded coords rows not observable, UnboundLocalError not modelled, ecc sliced out, pandas / trackpy.utils / trackpy.masks calls are named primitives) into Gen/refine.v; "
        "Proofs/COMRefine.v proves the generated functions equal to the models the C07 theorems are about",
        "float arithmetic: positions and sizes compared within 2^-40 relative; break/shift decisions closer than 2^-40 to shift_thresh are counted as degenerate and skipped",
        "images are integers or dyadic rationals (sums exact in float64); general float images are covered only up to rounding by the direct engine comparison",
        "ecc (cos/sin masks) is compared between the engines but not against a model",
        "starts are inside [radius, shape-1-radius] (locate guarantees it by its margin); outside, the python engine raises and the kernels wrap around"]


def replay(chk, path):
    common.quiet_trackpy()
    build(chk)
    r = json.load(open(path))['replay']
    if r.get('kind') == 'large':
        img = np.array(r['image'], dtype=np.uint16)
        large_eval(chk, img, tuple(r['radius']), np.array(r['start'], dtype=float), r['characterize'], r['max_iterations'])
        print('replay: large-radius case radius', r['radius'], 'start', r['start'])
        return
    if r.get('kind') not in ('row', 'call'):
        print('replay: nothing executable in this replay file (proof/correspondence breakage): see its log field')
        return
    c = r['case']
    evaluate(chk, [c], tag='replay')
    print('replay: radius', c['radius'], 'shape', c['shape'], 'starts', c['starts'], 'max_iterations', c['max_iterations'],
          'shift_thresh', c['shift_thresh'], 'characterize', c['characterize'])
    for e in ('python', 'numba'):
        print('replay: engine=%s ->' % e, None if c['_out'][e] is None else c['_out'][e].tolist())
    print('replay: per-row monitor codes', c['_rows'], [code_text(x) for x in c['_rows']])
    if c['_rows']:
        s = np.round(arrays_of(c)[2]).astype(int).tolist()[r.get('row', 0)]
        a = c['_out']['python'] if c['_out']['python'] is not None else c['_out']['numba']
        b = c['_out']['numba'] if c['_out']['numba'] is not None else a
        print('replay: model final window centre:', common.coq_eval_raw(chk.work, IMPORTS + "\nOpen Scope Z_scope.", "model_window %s" % case_term(c, s, a[r.get('row', 0)], b[r.get('row', 0)])))
