"""C12 — adaptive search only ever shrinks the range of oversize groups.

Theorems (Properties/C12.v): adaptive = plain when every group fits; every
finally solved sub-group only contains pairs within its (reduced) range; a group
that fits is never split.
Tie: link_iter(adaptive_stop, adaptive_step) with MAX_SUB_NET_SIZE_ADAPTIVE lowered
on dense lattice clusters; the Coq model re-splits every oversize group itself
(asplit) and the monitor decides, leaf by leaf, that the implementation's links
are admissible for the leaf's range and have the cost of the verified optimum
with that range as null cost; SubnetOversizeException iff the model raises.

Tie (route T, adaptive glue): tools/py2coq_adaptive.py re-translates the CURRENT source of
adaptive_link_wrap (linking.py), split_subnet (subnet.py) and subnet_linker_drop (subnetlinker.py)
into coq/Gen/adaptive.v before the proofs are re-checked; Proofs/AdaptiveGen.v / AdaptiveGen2.v prove
the generated functions equal to the hand-written models (asplit_g / msplit / drop_links) and restate
the headline theorems for them (C12_generated_*, C03_generated_*).  A translation failure or a failing
re-proof is reported through chk.proof_broken and the correspondence run continues, so that a concrete
failing input is still searched for.  In addition the generated functions are executed (exact
rationals) next to the real adaptive_link_wrap over subnet_linker_drop on constructed subnets: same
raise, same links, same forward_cands left behind, and the same as the model predicts.
"""
import numpy as np, json, os, sys, hashlib
from fractions import Fraction
import common, linkgen
from common import cnat, cZ
from props import c02

IMPORTS = "From TP Require Import Model.Assign Model.Link Model.LinkCheck Model.Adaptive."
FUNC = ("fun c => match c with (m, mem, fr, out, (amax, p, q, sn, sd)) => "
        "acheck_run 700 {| a_max := amax; a_p := p; a_q := q; a_sn := sn; a_sd := sd |} m mem fr out end")
CODES = dict(c02.CODES)
CODES[2] = 'a link is not among the candidates allowed by the reduced range of its sub-group (or a source dropped by a split was linked)'
CODES[3] = 'a sub-group is not solved optimally for its reduced range'
CODES[5] = 'implementation returned labels although a still-oversize group reached a range <= adaptive_stop (model raises)'
CODES[8] = 'SubnetOversizeException raised although every oversize group can be split above adaptive_stop'
CODES[10] = 'model out of fuel'

TRANSLATOR = os.path.join(common.VERIF, 'tools', 'py2coq_adaptive.py')
GEN = os.path.join(common.COQ, 'Gen', 'adaptive.v')
STATE = dict(gen_ok=False)


# ---- route T: translator / build ----------------------------------------------------------
def regenerate(chk):
    """re-run tools/py2coq_adaptive.py on the CURRENT source (common.REPO); returns (ok, text-or-log)"""
    rc, out = common.sh([sys.executable, TRANSLATOR, '--repo', common.REPO, '--stdout'], timeout=60)
    if rc != 0:
        return False, out
    with common.Lock(os.path.join(common.COQ, '.build.lock')):
        old = open(GEN).read() if os.path.exists(GEN) else None
        if old != out:
            os.makedirs(os.path.dirname(GEN), exist_ok=True)
            tmp = GEN + '.tmp%d' % os.getpid()
            with open(tmp, 'w') as f:
                f.write(out)
            os.replace(tmp, GEN)
            chk.tally('Gen/adaptive.v rewritten (source differs from last run)')
        else:
            chk.tally('Gen/adaptive.v unchanged')
    return True, out


def ensure_vo(chk, targets, report):
    """make the given .vo files (needed by the correspondence run even when a proof of the cone is broken)"""
    with common.Lock(os.path.join(common.COQ, '.build.lock')):
        rc, out = common.sh('timeout 600 make -j8 %s 2>&1 | tail -40' % ' '.join(targets), timeout=630, cwd=common.COQ)
        for t in targets:
            vo = os.path.join(common.COQ, t)
            if not (os.path.exists(vo) and os.path.getmtime(vo) >= os.path.getmtime(vo[:-1])):
                if report:
                    chk.proof_broken(report, out)
                return False
    return True


MODEL_VO = ['Model/LinkCheck.vo', 'Model/Adaptive.vo']


def build(chk):
    """translator -> cone of Properties/C12.v.  A translation failure or a failing re-proof is reported through
    chk.proof_broken; the correspondence run continues either way so that a concrete failing input is still searched for."""
    STATE['gen_ok'] = False
    ok, text = regenerate(chk)
    if not ok:
        chk.proof_broken('translation tools/py2coq_adaptive.py (adaptive_link_wrap / split_subnet / subnet_linker_drop left the translatable subset)', text)
        chk.build = dict(obligations=0, discharged=0, assumptions=[], files=[], theorems=[])
        ensure_vo(chk, MODEL_VO, None)
        return False
    for attempt in range(3):
        b = chk.coq()
        if open(GEN).read() == text:
            break
        # another run (different TRACKPY_REPO) rewrote the generated file in between: redo
        chk.violations = [v for v in chk.violations if not v[0].startswith('proof:')]
        regenerate(chk)
    chk.notes.append('Gen/adaptive.v sha1 %s generated from %s' % (hashlib.sha1(text.encode()).hexdigest()[:12], common.REPO))
    if not b['ok']:
        ensure_vo(chk, MODEL_VO, None)
    STATE['gen_ok'] = ensure_vo(chk, ['Model/AdaptiveGenCheck.vo'], 'Gen/adaptive.v / Model/AdaptiveGenCheck.v (generated adaptive glue does not build)') \
        and open(GEN).read() == text
    return bool(b['ok'])


STEPS = [Fraction(1, 2), Fraction(3, 4), Fraction(7, 8), Fraction(15, 16)]
STOPS = [Fraction(1, 8), Fraction(5, 16), Fraction(1, 2), Fraction(9, 16), Fraction(3, 4), Fraction(29, 32), Fraction(31, 32)]


def gen(rng, tier):
    ndim = rng.choice([1, 2, 2, 2, 3])
    nfr = rng.randint(2, 4)
    # dense cluster(s) + sparse walkers
    pts = []
    for _ in range(rng.randint(1, 2)):
        c = [rng.randint(0, 40) for _ in range(ndim)]
        for _ in range(rng.randint(3, 7)):
            pts.append([ci + rng.randint(-5, 5) for ci in c])
    for _ in range(rng.randint(0, 4)):
        pts.append([rng.randint(60, 120) for _ in range(ndim)])
    pts = [list(p) for p in {tuple(p) for p in pts}]
    frames = []
    for t in range(nfr):
        if t:
            for p in pts:
                for k in range(ndim):
                    p[k] += rng.randint(-2, 2)
        vis = [list(p) for p in pts if rng.random() > 0.1]
        vis = [list(p) for p in {tuple(p) for p in vis}]
        rng.shuffle(vis)
        frames.append(np.array(vis, dtype=float).reshape(len(vis), ndim))
    sr = Fraction(rng.choice([4, 6, 8, 8, 10, 12]))
    if ndim >= 2 and rng.random() < 0.25:
        # per-axis ranges, powers of two: dividing the coordinates by them is exact, so the reduced ellipsoids are too
        sr = tuple(Fraction(rng.choice([4, 8, 16])) for _ in range(ndim))
    step = rng.choice(STEPS)
    stop_rel = rng.choice(STOPS)
    c = dict(frames=frames, sr=sr, memory=rng.choice([0, 0, 1, 2]), ndim=ndim, max_size=rng.choice([2, 3, 3, 4, 5]),
             strategy=rng.choice(['recursive', 'nonrecursive', 'numba', 'hybrid', 'hybrid', 'auto']), step=step, stop_rel=stop_rel)
    if rng.random() < 0.3:
        c['plain_limit'] = rng.randint(1, c['max_size'] - 1) if c['max_size'] > 1 else None
    return c


def is_aniso(sr):
    return isinstance(sr, tuple) and len(set(sr)) > 1


def scalar_sr(sr):
    return Fraction(sr[0]) if isinstance(sr, tuple) else Fraction(sr)


def degenerate(c):
    """a pair whose squared distance is within 1e-9 (relative) of some reduced range^2 without being equal: float sqrt could flip it"""
    aniso = is_aniso(c['sr'])
    r2 = Fraction(1) if aniso else scalar_sr(c['sr']) ** 2     # per-axis ranges: distances are measured in units of the ranges
    ranges = []
    k = 0
    while k < 60:
        ranges.append(r2 * c['step'] ** (2 * k))
        if c['step'] ** k <= c['stop_rel']:
            break
        k += 1
    fr = c['frames']
    for t in range(1, len(fr)):
        prev = [p for u in range(max(0, t - 1 - c['memory']), t) for p in fr[u]]
        for q in fr[t]:
            for p in prev:
                if aniso:
                    d2 = sum((Fraction(float(a) - float(b)) / r) ** 2 for a, b, r in zip(p, q, c['sr']))
                else:
                    d2 = Fraction(int(sum((a - b) ** 2 for a, b in zip(p, q))))
                for rr in ranges:
                    if d2 != rr and abs(d2 - rr) < rr * Fraction(1, 10 ** 9):
                        return True
    return False


def jsonable(c, out):
    d = c02.jsonable(c, out)
    d['adaptive_step'] = str(c['step']); d['adaptive_stop_rel'] = str(c['stop_rel'])
    if c.get('plain_limit') is not None:
        d['plain_limit'] = c['plain_limit']
    return d


def term(c, out):
    w, R2 = linkgen.metric_of(c['sr'], c['ndim'], 4)
    return "(%s, %s, %s, %s, (%s, %s, %s, %s, %s))" % (
        linkgen.cmetric(w, R2), cnat(c['memory']), linkgen.cframes(c['frames'][:len(out)], 4), linkgen.cobs(out),
        cnat(c['max_size']), cZ(c['step'].numerator), cZ(c['step'].denominator), cZ(c['stop_rel'].numerator), cZ(c['stop_rel'].denominator))


class record_ranges:
    """Harness-side wrapper (no change to /repo): logs the reduced range handed to split_subnet each time
    adaptive_link_wrap shrinks the range of an oversize group."""
    def __init__(self, log, faults=None):
        self.log = log
        self.faults = faults if faults is not None else []

    LINKERS = ['subnet_linker_recursive', 'subnet_linker_nonrecursive', 'subnet_linker_numba', 'subnet_linker_drop']

    def __enter__(self):
        from trackpy.linking import linking as L
        self.L, self.orig = L, L.split_subnet
        log, orig, faults = self.log, self.orig, self.faults
        in_force = {}          # id(source point) -> the range its candidates were last pruned at by split_subnet

        def split_subnet(source, dest, new_range):
            log.append(float(new_range))
            for sp in source:
                in_force[id(sp)] = float(new_range)
            return orig(source, dest, new_range)
        L.split_subnet = split_subnet

        # the subnet linkers are looked up by name when a Linker is built: wrap them to see with which range (= cost of
        # not linking) every group is solved.  A group produced by a split must be solved with the range of THAT split.
        self.saved = {}
        for name in self.LINKERS:
            fn = getattr(L, name)
            self.saved[name] = fn

            def wrapped(source_set, dest_set, search_range, *a, _fn=fn, **kw):
                want = {in_force.get(id(sp)) for sp in source_set}
                if len(want) == 1 and None not in want:
                    r = want.pop()
                    if float(search_range) != r and len(faults) < 5:
                        faults.append('a group of %d sources split off at range %r is solved with range %r as the cost of not linking' % (len(source_set), r, float(search_range)))
                elif want == {None}:
                    pass       # top-level group of this step
                return _fn(source_set, dest_set, search_range, *a, **kw)
            setattr(L, name, wrapped)

        # a new step starts with fresh top-level groups: forget what earlier steps recorded for remembered points
        self.orig_compute = None
        from trackpy.linking import subnet as SN
        self.SN, self.orig_compute = SN, SN.Subnets.compute

        def compute(subnets_obj, _orig=self.orig_compute):
            in_force.clear()
            return _orig(subnets_obj)
        SN.Subnets.compute = compute
        return self

    def __exit__(self, *a):
        self.L.split_subnet = self.orig
        for name, fn in self.saved.items():
            setattr(self.L, name, fn)
        self.SN.Subnets.compute = self.orig_compute


def ladder_fault(c, ranges, exact=True):
    """every reduced range must be search_range * adaptive_step^n for some n >= 1 whose predecessor is still above adaptive_stop"""
    # with per-axis ranges the code works in coordinates divided by the ranges: search_range 1, adaptive_stop/min(range)
    sr = Fraction(1) if is_aniso(c['sr']) else scalar_sr(c['sr'])
    step, stop = Fraction(c['step']), sr * Fraction(c['stop_rel'])
    for r in ranges:
        ok, cur, n = False, sr, 0
        while n < 400 and cur > stop:
            cur, n = cur * step, n + 1
            # the product is an exact float only while its odd part fits in 53 bits (e.g. 8*(15/16)^14 does not)
            fits = exact and cur.numerator < 2 ** 53 and (cur.denominator & (cur.denominator - 1)) == 0
            if (fits and Fraction(r) == cur) or (not fits and abs(Fraction(r) - cur) <= cur * Fraction(1, 10 ** 12)):
                ok = True; break
        if not ok:
            return 'range %r used for an oversize group is not search_range*adaptive_step^n (search_range=%s, adaptive_step=%s, adaptive_stop=%s)' % (r, sr, step, float(stop))
    return None


def run_impl(c, ranges=None, faults=None):
    stop = float((min(c['sr']) if isinstance(c['sr'], tuple) else c['sr']) * c['stop_rel'])   # a tuple of equal ranges is treated by the code as that one range
    with record_ranges(ranges if ranges is not None else [], faults):
        # c['plain_limit']: Linker.MAX_SUB_NET_SIZE set BELOW the adaptive limit (the default configuration has it above):
        # with adaptive search the limit in force is MAX_SUB_NET_SIZE_ADAPTIVE alone
        return linkgen.run_link_iter(c['frames'], c['sr'], memory=c['memory'], link_strategy=c['strategy'], max_size=c['max_size'],
                                     adaptive=(stop, float(c['step'])), plain_limit=c.get('plain_limit'))


def corpus():
    f = lambda xs: np.array([[float(x)] for x in xs])
    # the last shrink that crosses adaptive_stop is the one that makes every part fit (must NOT raise)
    c1 = dict(frames=[f([0, 10, 20]), f([1, 11, 21])], sr=Fraction(12), memory=0, ndim=1, max_size=2, strategy='recursive',
              step=Fraction(1, 2), stop_rel=Fraction(7, 12))
    # still oversize at a range below the stop: must raise
    c2 = dict(frames=[f([0, 1, 2, 3]), f([0, 1, 2, 3])], sr=Fraction(8), memory=0, ndim=1, max_size=2, strategy='recursive',
              step=Fraction(1, 2), stop_rel=Fraction(3, 4))
    return [c1, c2]


# ---- generated adaptive glue (route T) next to the real functions and the model -----------------------------
GENA_IMPORTS = "From TP Require Import Model.Assign Model.AdaptiveGenCheck."
GENA_FUNC = "check_gen_adaptive"
GENA_CODES = {0: 'ok',
              41: 'the generated adaptive_link_wrap / split_subnet / subnet_linker_drop (translated from the current source) make other links than the real functions (translator or vocabulary unfaithful)',
              42: 'the generated split_subnet leaves other forward_cands in the source points than the real one',
              43: 'the generated functions raise another exception / run out of fuel',
              44: 'the real adaptive_link_wrap raised SubnetOversizeException, the generated one returned',
              45: 'the generated adaptive_link_wrap differs from the model asplit_g over py_splitter on this input (contradicts C12_generated_adaptive_is_model)'}


def gen_sub_graph(rng, tier):
    """one subnet as a candidate graph: perfect-square costs (sqrt exact), sorted candidate lists, no null candidate"""
    ns = rng.randint(1, 6 if tier == 'quick' else 8)
    nd = rng.randint(1, 6 if tier == 'quick' else 8)
    R = rng.choice([4, 8, 8, 16])
    srcs = []
    for i in range(ns):
        ds = [d for d in range(nd) if rng.random() < 0.6][:8]
        srcs.append(sorted([(d, rng.randint(0, R) ** 2) for d in ds], key=lambda x: x[1]))
    return dict(srcs=srcs, nd=nd, R=R, step=str(rng.choice(STEPS)), stop_rel=str(rng.choice(STOPS)), max_size=rng.choice([1, 1, 2, 2, 3, 4, 30]))


def run_gen_adaptive(g):
    """the real adaptive_link_wrap over subnet_linker_drop; None when it raised SubnetOversizeException, else
    (links sorted by source, forward_cands left in every source point)"""
    import math
    from trackpy.linking import linking as L, subnetlinker as sl
    from trackpy.linking.utils import Point, SubnetOversizeException
    Point.reset_counter()
    dps = [Point(1, (float(j),)) for j in range(g['nd'])]
    sps = []
    for i, cs in enumerate(g['srcs']):
        p = Point(0, (float(i),))
        p.forward_cands = [(dps[d], math.sqrt(c)) for d, c in cs]
        sps.append(p)
    spos = {id(p): k for k, p in enumerate(sps)}
    dpos = {id(p): k for k, p in enumerate(dps)}
    try:
        used = sorted({d for cs in g['srcs'] for d, _ in cs})        # a subnet's destination set = the candidates of its sources
        spl, dpl = L.adaptive_link_wrap(set(sps), set(dps[d] for d in used), float(g['R']), sl.subnet_linker_drop,
                                        adaptive_stop=float(g['R'] * Fraction(g['stop_rel'])), adaptive_step=float(Fraction(g['step'])),
                                        max_size=g['max_size'])
    except SubnetOversizeException:
        return None
    links = sorted([[spos[id(s)], None if d is None else dpos[id(d)]] for s, d in zip(spl, dpl) if s is not None], key=lambda x: x[0])
    fcs = [[[dpos[id(dp)], int(round(dist ** 2))] for dp, dist in p.forward_cands] for p in sps]
    return links, fcs


def gen_adaptive_term(g, impl):
    cq = lambda x: "(Qmake (%d)%%Z %d%%positive)" % (Fraction(x).numerator, Fraction(x).denominator)
    cand = lambda d, c: "(Some %s, %s)" % (cnat(d), cZ(c))
    srcs = common.clist([common.clist([cand(d, c) for d, c in cs]) for cs in g['srcs']])
    step, rel = Fraction(g['step']), Fraction(g['stop_rel'])
    nums = "(%s, %s, %s)" % (cq(g['R']), cq(step), cq(g['R'] * rel))
    ints = "(%s, %s, %s, %s, %s)" % (cZ(g['R'] ** 2), cZ(step.numerator), cZ(step.denominator), cZ(rel.numerator), cZ(rel.denominator))
    if impl is None:
        it = 'None'
    else:
        links, fcs = impl
        it = "(Some (%s, %s))" % (common.clist(["(%s, %s)" % (cnat(s), 'None' if d is None else '(Some %s)' % cnat(d)) for s, d in links]),
                                  common.clist([common.clist([cand(d, c) for d, c in cs]) for cs in fcs]))
    used = sorted({d for cs in g['srcs'] for d, _ in cs})
    return "(%s, %s, %s, %s, %s, %s)" % (srcs, common.clist([cnat(j) for j in used]), nums, ints, cnat(g['max_size']), it)


def leaf_solver_harness(chk):
    """the solvers the adaptive search hands every group and sub-group to (subnet_linker_recursive / nonrecursive / numba), called
    directly on constructed groups whose distances are in small length units (2^-24, 2^-30: metres for micrometre steps): the
    answer must be the optimum with the range in force - squared - as the cost of leaving a source unlinked
    (C12 leaf_solved_optimally; the verified optimum is C02's check_choice).  In pixel units a perturbation of the null cost of
    the order of 1e-7 is invisible; here it is of the order of the range itself."""
    from props import c02
    n = 300 if chk.tier == 'quick' else 6000
    terms, graphs = [], []
    for k in range(n):
        g = c02.gen_graph(chk.rng, chk.tier)
        g['unit_exp'] = chk.rng.choice([-24, -30, -20])
        try:
            a = c02.run_graph(g)
        except Exception as e:
            chk.violation('leaf solver: exception', 'subnet linker %s raised %r on a group within limits' % (g['strategy'], e), dict(kind='leafgraph', graph=g))
            continue
        graphs.append((g, a)); terms.append(c02.graph_term(g, a))
        chk.tally('leaf solver called directly, distances in length unit 2^%d' % g['unit_exp'])
    res = common.coq_eval_lists(chk.work, c02.IMPORTS, c02.GRAPH_FUNC, terms, tag='leafgraphs')
    for (g, a), r in zip(graphs, res):
        chk.count(('leafgraph', g), len(g['srcs']) >= 3)
        if r != 0:
            chk.violation('leaf solver: %s' % c02.GRAPH_CODES.get(r, r), 'subnet_linker_%s (the solver of every adaptive sub-group), range and distances in unit 2^%d: %s'
                          % (g['strategy'], g['unit_exp'], c02.GRAPH_CODES.get(r, r)),
                          dict(kind='leafgraph', code=r, graph=g, impl_assignment={str(k): v for k, v in a.items()}))


def gen_harness(chk):
    """executes Gen/adaptive.v (when it builds) next to the real code and next to the model"""
    if not STATE['gen_ok']:
        chk.tally('generated adaptive glue not executable (translation / build failed): generated-code harness skipped')
        return
    n = 150 if chk.tier == 'quick' else 4000
    terms, cases = [], []
    for k in range(n):
        g = gen_sub_graph(chk.rng, chk.tier)
        try:
            impl = run_gen_adaptive(g)
        except Exception as e:
            chk.violation('adaptive_link_wrap over subnet_linker_drop: exception', 'adaptive_link_wrap raised %r' % e, dict(kind='genadaptive', graph=g)); continue
        terms.append(gen_adaptive_term(g, impl)); cases.append((g, impl))
        chk.tally('generated adaptive glue vs the real functions' + (' (raised)' if impl is None else ''))
    res = common.coq_eval_lists(chk.work, GENA_IMPORTS, GENA_FUNC, terms, tag='genadaptive')
    for (g, impl), r in zip(cases, res):
        chk.count(('genadaptive', g), len(g['srcs']) > g['max_size'])
        if r != 0:
            chk.violation('generated adaptive glue: %s' % GENA_CODES.get(r, r), 'adaptive_link_wrap / Gen.adaptive: %s' % GENA_CODES.get(r, r),
                          dict(kind='genadaptive', code=r, graph=g, impl=impl))


def run(chk):
    common.quiet_trackpy()
    build(chk)
    n = 150 if chk.tier == 'quick' else 5000
    cases = corpus()
    for k in range(n):
        cases.append(gen(chk.rng, chk.tier))
    terms, metas = [], []
    for c in cases:
        if linkgen.max_inrange(c['frames'], c['sr'], c['memory']) > 8:
            chk.tally('skipped: neighbour cap binding'); continue
        c02.safe_strategy(c)
        if degenerate(c):
            chk.tally('skipped: pair within 1e-9 of a reduced range (float boundary)'); continue
        ranges, faults = [], []
        out = run_impl(c, ranges, faults)
        why = ladder_fault(c, ranges) or (faults[0] if faults else None)
        if ranges:
            chk.tally('reduced ranges observed (deepest level %d)' % len(set(ranges)))
        if why:
            chk.violation('adaptive link_iter: reduced range off the ladder', why, dict(kind='adaptive', code=20, case=jsonable(c, out), ranges=ranges))
            continue
        terms.append(term(c, out)); metas.append((c, out))
        chk.tally('step=%s' % c['step']); chk.tally('limit=%d' % c['max_size']); chk.tally('per-axis ranges' if is_aniso(c['sr']) else 'one range')
        chk.tally('raised' if (out and out[-1] is None) else 'returned')
    res = common.coq_eval_lists(chk.work, IMPORTS, FUNC, terms)
    # how many were actually adaptive (some group oversize)? ask the plain monitor: code 5 there means a group exceeded the limit
    plain = common.coq_eval_lists(chk.work, c02.IMPORTS, c02.FUNC, [c02.case_term(c, out) for c, out in metas], tag='plain')
    for (c, out), r, pl in zip(metas, res, plain):
        adaptive_used = pl in (5, 3, 2, 8) or (out and out[-1] is None)
        chk.count(('adaptive', jsonable(c, out)), adaptive_used)
        chk.tally('some group oversize: split exercised' if adaptive_used else 'no group oversize (plain path)')
        if r != 0:
            chk.violation('adaptive link_iter: %s' % CODES.get(r, r),
                          'link_iter(%s, limit=%d, adaptive_step=%s, adaptive_stop=%s*search_range): %s' % (c['strategy'], c['max_size'], c['step'], c['stop_rel'], CODES.get(r, r)),
                          dict(kind='adaptive', code=r, case=jsonable(c, out)))
    # decimal steps (0.95 is the documented default): the reduced ranges are not exact floats, so the model is not run;
    # the ladder of ranges actually used is still checked (to 1e-12), in pixel units and in units of 2^10 and 2^-12 pixels
    for k in range(40 if chk.tier == 'quick' else 1200):
        c = gen(chk.rng, chk.tier)
        c['step'] = chk.rng.choice([Fraction(19, 20), Fraction(9, 10), Fraction(4, 5), Fraction(7, 10)])
        uexp = chk.rng.choice([0, 0, 10, -12])
        c['sr'] = tuple(r * Fraction(2) ** uexp for r in c['sr']) if isinstance(c['sr'], tuple) else c['sr'] * Fraction(2) ** uexp
        c['frames'] = [f * 2.0 ** uexp for f in c['frames']]
        if linkgen.max_inrange(c['frames'], c['sr'], c['memory']) > 8:
            continue
        c02.safe_strategy(c)
        ranges, faults = [], []
        out = run_impl(c, ranges, faults)
        chk.count(('ladder', jsonable(c, out)), bool(ranges))
        chk.tally('decimal step %s, unit 2^%d' % (c['step'], uexp))
        why = ladder_fault(c, ranges, exact=False) or (faults[0] if faults else None)
        if why:
            chk.violation('adaptive link_iter: reduced range off the ladder', why, dict(kind='adaptive', code=20, case=jsonable(c, out), ranges=ranges, decimal=True))
    if metas:
        chk.sample(jsonable(metas[0][0], metas[0][1]))
    # the generated adaptive glue (route T), executed
    gen_harness(chk)
    leaf_solver_harness(chk)
    chk.coverage['rule'] = ("dense lattice clusters + sparse walkers, 1-3 D, MAX_SUB_NET_SIZE_ADAPTIVE in 2..5, adaptive_step in {1/2,3/4,7/8,15/16} (exact in binary), "
                            "adaptive_stop/search_range in a dyadic set, memory 0-2, strategies recursive/nonrecursive/numba; non-trivial = a group exceeded the limit so the split or the raise was exercised")
    chk.assumptions += ["as C02", "isotropic search_range only (per-axis ranges divide coordinates by non-dyadic floats: boundary decisions of the split are then not exact)",
                        "adaptive_step restricted to binary fractions so that the reduced ranges are exact floats; cases with a pair within 1e-9 of a reduced range are skipped and counted",
                        "Gen/adaptive.v is produced by tools/py2coq_adaptive.py (trusted translator, fail-closed; subset and conventions in its docstring, vocabulary in "
                        "Model/PyAdaptive.v): points are indices, sets are lists passed by value (a callee's pop() is not seen by the caller), candidate distances are carried as "
                        "their exact squares, ranges are an abstract number type (theorems: any type agreeing with the model's integer tests on the ladder; instance: exact rationals), "
                        "recursion on explicit fuel; the translation is exercised by exact comparison of the generated adaptive_link_wrap / split_subnet / subnet_linker_drop with "
                        "the real functions (links, raise, forward_cands left behind) on constructed subnets"]


def replay(chk, path):
    common.quiet_trackpy()
    build(chk)
    rp0 = json.load(open(path))['replay']
    if rp0.get('kind') == 'leafgraph':
        from props import c02
        g = rp0['graph']
        g['srcs'] = [[tuple(x) for x in cs] for cs in g['srcs']]
        a = c02.run_graph(g)
        r = common.coq_eval_lists(chk.work, c02.IMPORTS, c02.GRAPH_FUNC, [c02.graph_term(g, a)])[0]
        chk.count(('replay', g), True)
        print('replay: leaf solver', g['strategy'], 'unit 2^%d' % g.get('unit_exp', 0), 'assignment', a, 'code', r, c02.GRAPH_CODES.get(r))
        if r != 0:
            chk.violation('leaf solver: %s' % c02.GRAPH_CODES.get(r, r), c02.GRAPH_CODES.get(r, r), dict(kind='leafgraph', code=r, graph=g))
        return
    if rp0.get('kind') == 'genadaptive':
        if not STATE['gen_ok']:
            print('replay: generated adaptive glue not executable'); return
        g = rp0['graph']
        g['srcs'] = [[tuple(x) for x in cs] for cs in g['srcs']]
        impl = run_gen_adaptive(g)
        r = common.coq_eval_lists(chk.work, GENA_IMPORTS, GENA_FUNC, [gen_adaptive_term(g, impl)])[0]
        chk.count(('genadaptive', g), True)
        print('replay: real adaptive_link_wrap over subnet_linker_drop', impl, 'code', r, GENA_CODES.get(r))
        if r != 0:
            chk.violation('generated adaptive glue: %s' % GENA_CODES.get(r, r), GENA_CODES.get(r, r), dict(kind='genadaptive', code=r, graph=g, impl=impl))
        return
    if rp0.get('kind') == 'proof-or-correspondence-broken':
        print('replay: nothing executable in this replay file (proof/correspondence breakage): see its log field'); return
    cj = json.load(open(path))['replay']['case']
    frames = linkgen.frames_from_json(cj['frames'])
    ndim = max([f.shape[1] for f in frames if f.size] or [1])
    c = dict(frames=[f.reshape(len(f), ndim) for f in frames], sr=(tuple(Fraction(x) for x in cj['search_range']) if isinstance(cj['search_range'], list) else Fraction(cj['search_range'])), memory=cj['memory'], ndim=ndim, max_size=cj['max_size'],
             strategy=cj['link_strategy'], step=Fraction(cj['adaptive_step']), stop_rel=Fraction(cj['adaptive_stop_rel']), plain_limit=cj.get('plain_limit'))
    ranges, faults = [], []
    out = run_impl(c, ranges, faults)
    rp = json.load(open(path))['replay']
    why = ladder_fault(c, ranges, exact=not rp.get('decimal')) or (faults[0] if faults else None)
    print('replay: reduced ranges used', ranges)
    if why:
        chk.count(('replay', cj), True)
        chk.violation('adaptive link_iter: reduced range off the ladder', why, dict(kind='adaptive', code=20, case=jsonable(c, out), ranges=ranges, decimal=rp.get('decimal', False)))
        return
    if rp.get('decimal'):
        chk.count(('replay', cj), True)
        print('replay: ladder respected'); return
    r = common.coq_eval_lists(chk.work, IMPORTS, FUNC, [term(c, out)])[0]
    chk.count(('replay', cj), True)
    print('replay: labels', out, 'monitor code', r, CODES.get(r))
    if r != 0:
        chk.violation('adaptive link_iter: %s' % CODES.get(r, r), CODES.get(r, r), dict(kind='adaptive', code=r, case=jsonable(c, out)))
