"""C18 -- drift is the mean frame-to-frame displacement, and subtracting it removes it.

Tie (route C): trackpy.compute_drift / subtract_drift are run on generated
trajectory tables (gaps, entering / leaving particles, missing frames, shuffled
rows, 2-D / 3-D, default / 'frame' / (frame, particle) indexes, int and float
columns).  For every position column the observed drift table, the corrected
positions (matched by a row id column) and the re-measured drift are embedded
as exact rationals into a Coq term and compared by Model/DriftSpec.check_case
  - with the executable model Model/Drift.v (correspondence), and
  - with the declarative statement itself (check_drift_spec, proved sound in
    Properties/C18.v: C18_monitor_sound) -- the monitor.
The harness additionally checks on the implementation's outputs: caller's table
(and the drift table handed in) untouched -- data, index values, index names,
columns, dtypes --, non-drift columns of the result identical, result position
== float(position) - float(drift of the frame) bit for bit (one correctly
rounded operation), order independence, rigid motion removed.

Route T.  tools/py2coq_drift.py re-translates the CURRENT text of compute_drift /
subtract_drift (trackpy/motion.py) and guess_pos_columns (trackpy/utils.py; the
text of pandas_sort is pinned) into coq/Gen/drift.v before the proofs are built
(pandas operations stay named primitives: the record `pandas` of
Model/PyDrift.v, interpreted with the meaning of Model/Drift.v for all position
columns at once).  Proofs/DriftGen.v proves the generated functions equal to the
hand-written model, column by column, for all inputs, and Properties/C18.v
restates the headline theorems for them (C18_gen_*).  A source that leaves the
translatable subset, or whose translation no longer satisfies those proofs, is
reported through chk.proof_broken; the correspondence run below still takes
place, so a concrete failing input is searched for as well.
"""
import json, os, sys, hashlib
import numpy as np
import pandas as pd
from fractions import Fraction
import common
from common import cZ, cQ, clist, copt, cbool

IMPORTS = "From TP Require Import Model.Drift Model.DriftSpec."
FUNC = "check_case"
CODES = {
    11: 'compute_drift: frames of the drift table differ from the model (frames with a same-particle consecutive-frame pair, ascending)',
    12: 'compute_drift: drift values differ from the model (cumulative sum of per-frame mean displacement)',
    13: 'compute_drift: frames of the drift table are not ascending',
    14: 'compute_drift: drift table does not have exactly the frames in which some particle was also seen in the previous frame',
    15: 'compute_drift: a drift value is not the previous value plus the mean displacement of its frame',
    21: 'subtract_drift: number of rows changed',
    22: 'subtract_drift: a position is not the input position minus the drift value of its frame (unchanged when the frame has none)',
    31: 're-measured drift: frames differ from the frames of the first measurement',
    32: 're-measured drift is not zero although every measured frame follows a measured one',
}
POSN = {2: ['y', 'x'], 3: ['z', 'y', 'x']}

TRANSLATOR = os.path.join(common.VERIF, 'tools', 'py2coq_drift.py')
GEN = os.path.join(common.COQ, 'Gen', 'drift.v')


# ---------------------------------------------------------------------------
# translator / build
# ---------------------------------------------------------------------------
def regenerate(chk):
    """re-run the translator on the current source; returns (ok, text-or-log)"""
    rc, out = common.sh([sys.executable, TRANSLATOR, '--repo', common.REPO, '--stdout'], timeout=60)
    if rc != 0:
        return False, out
    with common.Lock(os.path.join(common.COQ, '.build.lock')):
        old = open(GEN).read() if os.path.exists(GEN) else None
        if old != out:
            os.makedirs(os.path.dirname(GEN), exist_ok=True)
            tmp = GEN + '.tmp%d' % os.getpid()
            with open(tmp, 'w') as f:
                f.write(out)
            os.replace(tmp, GEN)
            chk.tally('Gen/drift.v rewritten (source differs from last run)')
        else:
            chk.tally('Gen/drift.v unchanged')
    return True, out


def ensure_model(chk):
    """the executable hand-written model is needed by the correspondence run even when the translation
    or a proof about the generated functions is broken"""
    def fresh(v):
        vo = os.path.join(common.COQ, v + 'o')
        return os.path.exists(vo) and os.path.getmtime(vo) >= os.path.getmtime(os.path.join(common.COQ, v))
    files = ('Model/Drift.v', 'Model/DriftSpec.v')
    if all(fresh(v) for v in files):
        return True
    with common.Lock(os.path.join(common.COQ, '.build.lock')):
        for v in files:
            rc, out = common.sh('timeout 300 coqc -Q . TP %s' % v, timeout=330, cwd=common.COQ)
            if rc != 0:
                chk.proof_broken(v, out)
                return False
    return True


def build(chk):
    """translator -> cone of Properties/C18.v; returns True when the executable model is available"""
    ok, text = regenerate(chk)
    if not ok:
        chk.proof_broken('translation tools/py2coq_drift.py (compute_drift / subtract_drift in trackpy/motion.py or '
                         'guess_pos_columns / pandas_sort in trackpy/utils.py left the translatable subset)', text)
        chk.build = dict(obligations=0, discharged=0, assumptions=[], files=[], theorems=[])
    else:
        for attempt in range(3):
            b = chk.coq()
            if open(GEN).read() == text:
                break
            # another run (different TRACKPY_REPO) rewrote the generated file in between: redo
            chk.violations = [v for v in chk.violations if not v[0].startswith('proof:')]
            regenerate(chk)
        chk.notes.append('Gen/drift.v sha1 %s generated from %s' % (hashlib.sha1(text.encode()).hexdigest()[:12], common.REPO))
        if not b['ok']:
            # say which statement about the generated functions no longer checks
            with common.Lock(os.path.join(common.COQ, '.build.lock')):
                rc, out = common.sh('timeout 600 make Proofs/DriftGen.vo 2>&1 | tail -25', timeout=630, cwd=common.COQ)
            chk.notes.append('make Proofs/DriftGen.vo (generated functions = model): ' + out[-2500:])
    return ensure_model(chk)


# ---------------------------------------------------------------------------
# generators
# ---------------------------------------------------------------------------
def dy(rng, lo=-4096, hi=4096, den=16):
    return rng.randint(lo, hi) / den


def gen_presence(rng, kind, P, F):
    pres = [[False] * F for _ in range(P)]
    for p in range(P):
        if kind in ('dense', 'rigid_dense'):
            pres[p] = [True] * F
        elif kind in ('gaps', 'rigid_gaps'):
            pres[p] = [rng.random() < 0.7 for _ in range(F)]
        elif kind in ('enter_leave', 'rigid_enter_leave', 'frame_gaps'):
            a = rng.randint(0, F - 1)
            b = rng.randint(a, F - 1)
            if rng.random() < 0.4:
                a = 0
            if rng.random() < 0.4:
                b = F - 1
            pres[p] = [a <= f <= b for f in range(F)]
        elif kind == 'sparse':
            pres[p] = [rng.random() < 0.3 for _ in range(F)]
        elif kind == 'chain':
            # particle p lives in frames p, p+1 (relay: every frame measured by one particle)
            pres[p] = [f in (p, p + 1) for f in range(F)]
    if kind == 'frame_gaps' or (kind.startswith('rigid') and rng.random() < 0.25):
        for f in rng.sample(range(F), min(F, rng.randint(1, 2))):
            for p in range(P):
                pres[p][f] = False
    return pres


def gen_case(rng, tier):
    big = tier == 'thorough' and rng.random() < 0.25
    kind = rng.choice(['dense', 'gaps', 'gaps', 'enter_leave', 'enter_leave', 'frame_gaps', 'frame_gaps', 'sparse', 'chain',
                       'rigid_dense', 'rigid_gaps', 'rigid_enter_leave'])
    ndim = rng.choice([2, 2, 3])
    P = rng.randint(1, 12 if big else 6)
    F = rng.randint(2, 20 if big else 9)
    if kind == 'chain':
        F = P + 1
    f0 = rng.choice([0, 0, 0, 1, 5, -3, 1000])
    pids = rng.sample(range(0, 60), P)
    pres = gen_presence(rng, kind, P, F)
    integer = rng.random() < 0.1
    den = 1 if integer else rng.choice([1, 2, 16])
    rows = []
    rigid = None
    if kind.startswith('rigid'):
        base = {pids[p]: [dy(rng, -2048, 2048, den) for _ in range(ndim)] for p in range(P)}
        c = {f0 + f: [dy(rng, -1024, 1024, den) for _ in range(ndim)] for f in range(F)}
        rigid = dict(base={str(k): v for k, v in base.items()}, c={str(k): v for k, v in c.items()})
        for p in range(P):
            for f in range(F):
                if pres[p][f]:
                    rows.append([pids[p], f0 + f, [base[pids[p]][k] + c[f0 + f][k] for k in range(ndim)]])
    else:
        common_step = [[dy(rng, -64, 64, den) for _ in range(ndim)] for _ in range(F)]
        for p in range(P):
            x = [dy(rng, -2048, 2048, den) for _ in range(ndim)]
            for f in range(F):
                x = [x[k] + common_step[f][k] + dy(rng, -32, 32, den) for k in range(ndim)]
                if pres[p][f]:
                    rows.append([pids[p], f0 + f, list(x)])
    # malformed / edge stream
    edge = None
    r = rng.random()
    if r < 0.03:
        edge = 'empty table'
        rows = []
    elif r < 0.06:
        edge = 'single row'
        rows = rows[:1]
    elif r < 0.09 and rows:
        edge = 'all rows in one frame'
        seen = set()
        rows = [[p, f0, x] for p, f, x in rows if not (p in seen or seen.add(p))]
    elif r < 0.17 and rows:
        edge = 'duplicated (particle, frame)'
        for _ in range(rng.randint(1, 3)):
            p, f, x = rng.choice(rows)
            rows.insert(rng.randint(0, len(rows)), [p, f, [dy(rng, -2048, 2048, den) for _ in range(ndim)]])
        rigid = None
    order = rng.choice(['shuffled', 'shuffled', 'by frame', 'by particle'])
    if order == 'shuffled':
        rng.shuffle(rows)
    elif order == 'by frame':
        rows.sort(key=lambda t: (t[1], t[0]))
    rows = [[p, f, x, rng.randint(1, 1000) / 4.0, i] for i, (p, f, x) in enumerate(rows)]
    sub_mode = rng.choice(['own', 'own', 'explicit', 'user', 'user'])
    case = dict(kind=kind, edge=edge, ndim=ndim, rows=rows, order=order,
                index=rng.choice(['default', 'default', 'frame', 'multi', 'other', 'shuffled_range', 'frame_stale', 'multi_stale']),
                pos_dtype='int' if integer else 'float',
                frame_dtype='float' if rng.random() < 0.05 else 'int',
                pos_columns=(rng.sample(POSN[ndim], ndim) if rng.random() < 0.3 else None),
                col_seed=rng.randint(0, 10 ** 6), sub_mode=sub_mode, rigid=rigid,
                perm_seed=rng.randint(0, 10 ** 6))
    if sub_mode == 'user':
        case['user'] = dict(drop=rng.random() < 0.7, extra=rng.random() < 0.6, replace=rng.random() < 0.4,
                            cols=rng.random() < 0.3, seed=rng.randint(0, 10 ** 6), den=den)
    if rng.random() < 0.2:
        # position columns under other names (y_um, x_um: positions converted to microns), handed over through pos_columns;
        # the drift table then carries those names and subtract_drift must shift exactly the columns the drift table names
        case['suffix'] = rng.choice(['_um', '_px', '0'])
        if case['sub_mode'] == 'own':
            case['sub_mode'] = 'explicit'         # subtract_drift(traj) alone has no way to learn the names
    return case


def corpus():
    """known tricky cases (run first)"""
    out = []

    def mk(rows, ndim=2, **kw):
        rows = [[p, f, list(x), 1.0 + i, i] for i, (p, f, x) in enumerate(rows)]
        c = dict(kind='corpus', edge=None, ndim=ndim, rows=rows, order='given', index='default', pos_dtype='float',
                 frame_dtype='int', pos_columns=None, col_seed=0, sub_mode='own', rigid=None, perm_seed=1)
        c.update(kw)
        return c
    two = [(0, 0, (0., 0.)), (0, 1, (2., 1.)), (1, 0, (1., 1.)), (1, 1, (2., 1.))]
    # F8 (DESIGN section 4): table indexed by 'frame' as filter_stubs returns it; caller's index name must survive
    out.append(mk(two, index='frame', name='F8 filter_stubs-style index, compute_drift'))
    out.append(mk(two, index='frame', sub_mode='explicit', name='F8 filter_stubs-style index, subtract_drift(traj, drift)'))
    # F9 pair subtract_drift -> compute_drift / subtract_drift: (frame, particle) index next to equally named columns
    out.append(mk(two, index='multi', name='F9 (frame, particle)-indexed table'))
    # non-gapless: frames 0,1,2,5,6 (re-measured drift legitimately non-zero at 6)
    gap = [(0, 0, (0., 0.)), (0, 1, (2., 1.)), (0, 2, (3., 3.)), (1, 1, (5., 5.)), (1, 2, (6., 5.)), (1, 5, (9., 9.)),
           (1, 6, (9., 10.)), (2, 9, (0., 0.))]
    out.append(mk(gap, name='frames 0,1,2,5,6,9: frame 6 measured, 5 not'))
    out.append(mk(gap[::-1], name='same, rows reversed'))
    # duplicated (particle, frame)
    out.append(mk([(0, 0, (0., 0.)), (0, 1, (2., 1.)), (0, 1, (7., 7.)), (0, 2, (3., 3.))], edge='duplicated (particle, frame)', name='duplicate row'))
    # no pair at all, single row, empty
    out.append(mk([(0, 0, (0., 0.)), (1, 2, (2., 1.))], name='no displacement at all'))
    out.append(mk([(3, 4, (1., 2.))], name='single row'))
    out.append(mk([], name='empty table'))
    # integer positions, 3-D, relay of particles
    out.append(mk([(0, 0, (0, 0, 1)), (0, 1, (1, 2, 3)), (1, 1, (1, 1, 1)), (1, 2, (1, 2, 5)), (2, 2, (0, 0, 0)), (2, 3, (3, 3, 3))],
                  ndim=3, pos_dtype='int', name='3-D integer relay'))
    # mean not representable (thirds), negative frames, user drift with missing and extra frames
    thirds = [(p, f, (float(p * p + f * (p + 1)), float(3 * p - f))) for p in range(3) for f in range(-2, 3)]
    out.append(mk(thirds, name='thirds, negative frames'))
    out.append(mk(thirds, sub_mode='user', user=dict(drop=True, extra=True, replace=False, cols=True, seed=5, den=16), name='user drift'))
    return out


# ---------------------------------------------------------------------------
# implementation side
# ---------------------------------------------------------------------------
def build_table(case):
    ndim = case['ndim']
    names = POSN[ndim]
    rows = case['rows']
    data = {}
    pdt = np.int64 if case['pos_dtype'] == 'int' else np.float64
    for k, nm in enumerate(names):
        data[nm] = np.array([r[2][k] for r in rows], dtype=pdt)
    data['mass'] = np.array([r[3] for r in rows], dtype=np.float64)
    data['frame'] = np.array([r[1] for r in rows], dtype=np.float64 if case['frame_dtype'] == 'float' else np.int64)
    data['particle'] = np.array([r[0] for r in rows], dtype=np.int64)
    data['rid'] = np.array([r[4] for r in rows], dtype=np.int64)
    data['tag'] = np.array(['r%d' % r[4] for r in rows], dtype=object)
    cols = list(data)
    import random
    random.Random(case['col_seed']).shuffle(cols)
    df = pd.DataFrame({c: data[c] for c in cols}, columns=cols)
    idx = case['index']
    if idx == 'frame':
        df.index = pd.Index(df['frame'].values, name='frame')
    elif idx == 'multi':
        df.index = pd.MultiIndex.from_arrays([df['frame'].values, df['particle'].values], names=['frame', 'particle'])
    elif idx == 'frame_stale' and len(df):
        # index NAMED 'frame' whose labels are an earlier numbering (a sub-movie cut out and renumbered through the column):
        # the frame numbers are the column's, the index is only a label
        df.index = pd.Index(df['frame'].values.max() - df['frame'].values + 3, name='frame')
    elif idx == 'multi_stale':
        df.index = pd.MultiIndex.from_arrays([df['frame'].values + 5, df['particle'].values], names=['frame', 'particle'])
    elif idx == 'other':
        df.index = pd.Index(np.arange(len(df)) * 3 + 7, name='foo')
    elif idx == 'shuffled_range':
        perm = list(range(len(df)))
        random.Random(case['col_seed'] + 1).shuffle(perm)
        df.index = pd.Index(perm)
    return df


def snapshot(df):
    return dict(values={c: np.asarray(df[c].values).copy() for c in df.columns}, columns=list(df.columns),
                dtypes=[str(t) for t in df.dtypes], index=df.index.copy(deep=True), names=list(df.index.names))


def changed(df, snap):
    """what differs between a table and its snapshot (None if nothing)"""
    if list(df.columns) != snap['columns']:
        return 'columns'
    if [str(t) for t in df.dtypes] != snap['dtypes']:
        return 'dtypes'
    if list(df.index.names) != snap['names']:
        return 'index names'
    if len(df.index) != len(snap['index']) or not df.index.equals(snap['index']):
        return 'index values'
    for c in snap['columns']:
        if not same_values(df[c].values, snap['values'][c]):
            return 'data'
    return None


def same_values(a, b):
    """bitwise-level equality of two column value arrays (numeric: same dtype and equal incl. NaN; other: equal as lists)"""
    a, b = np.asarray(a), np.asarray(b)
    if a.dtype != b.dtype or a.shape != b.shape:
        return False
    if a.dtype.kind in 'fiub':
        return bool(np.array_equal(a, b, equal_nan=(a.dtype.kind == 'f')))
    return list(a) == list(b)


def user_drift(d, case):
    import random
    u = case['user']
    rng = random.Random(u['seed'])
    d = d.copy()
    if u['drop'] and len(d) > 0:
        keep = [i for i in range(len(d)) if rng.random() < 0.6]
        d = d.iloc[keep]
    if u['replace'] and len(d) > 0:
        d = d.copy()
        for c in d.columns:
            d[c] = [rng.randint(-512, 512) / u['den'] for _ in range(len(d))]
    if u['extra']:
        fr = [r[1] for r in case['rows']] or [0]
        cand = [f for f in range(min(fr) - 2, max(fr) + 3) if f not in set(d.index)]
        extra = sorted(rng.sample(cand, min(len(cand), rng.randint(1, 3))))
        e = pd.DataFrame({c: [rng.randint(-512, 512) / u['den'] for _ in extra] for c in d.columns},
                         index=pd.Index(extra, name='frame'), columns=d.columns)
        d = pd.concat([d.astype(float), e.astype(float)]).sort_index()
        d.index.name = 'frame'
    if u['cols'] and len(d.columns) > 1:
        d = d[[c for c in d.columns][1:]]
    return d


def tolerance(case):
    n = len(case['rows']) + 2
    M = max([1.0] + [abs(v) for r in case['rows'] for v in r[2]])
    if case.get('user'):
        M = max(M, 512.0)
    # values up to n*2M, at most 2n roundings (unit 2^-53) per output, headroom 64, re-measurement x4
    return Fraction(4 * 64 * 4 * n * n) * Fraction(M) * Fraction(1, 2 ** 53)


def keys_unique(case):
    ks = [(r[0], r[1]) for r in case['rows']]
    return len(set(ks)) == len(ks)


def ctable(case, k):
    return clist(["(mkRow %s %s %s %s)" % (cZ(r[0]), cZ(r[1]), cQ(float(r[2][k])), cZ(r[4])) for r in case['rows']])


def cdrift(frames, vals):
    return clist(["(%s, %s)" % (cZ(f), cQ(float(v))) for f, v in zip(frames, vals)])


def int_frames(index):
    fr = []
    for f in index:
        if float(f) != int(f):
            raise ValueError('non-integral frame %r in drift index' % (f,))
        fr.append(int(f))
    return fr


def run_case(case):
    """returns (python-level violations [(signature, text)], coq terms [(column, term)], info)"""
    import trackpy as tp
    viol = []
    info = {}
    ndim = case['ndim']
    names = POSN[ndim]
    traj = build_table(case)
    snap = snapshot(traj)
    uniq = keys_unique(case)
    tol = tolerance(case)
    ftol = float(tol)
    pc = case['pos_columns']
    sfx = case.get('suffix') or ''
    ren = {nm: nm + sfx for nm in names}
    unren = {v: k for k, v in ren.items()}

    class _API:
        """the two functions as the caller uses them; with a suffix the table is handed over under the other column names and the
        results are read back under the standard ones"""
        @staticmethod
        def compute_drift(tr, pos_columns=None):
            if not sfx:
                return tp_real.compute_drift(tr) if pos_columns is None else tp_real.compute_drift(tr, pos_columns=pos_columns)
            res = tp_real.compute_drift(tr.rename(columns=ren), pos_columns=[ren[c] for c in (pos_columns or names)])
            return res.rename(columns=unren)

        @staticmethod
        def subtract_drift(tr, drift=None):
            if not sfx:
                return tp_real.subtract_drift(tr) if drift is None else tp_real.subtract_drift(tr, drift)
            if drift is None:
                drift = _API.compute_drift(tr)
            return tp_real.subtract_drift(tr.rename(columns=ren), drift.rename(columns=ren)).rename(columns=unren)
    tp_real = tp
    tp = _API
    # ---- compute_drift
    d = tp.compute_drift(traj) if pc is None else tp.compute_drift(traj, pos_columns=list(pc))
    ch = changed(traj, snap)
    if ch:
        viol.append(('compute_drift:caller table changed (%s)' % ch, 'compute_drift changed the caller\'s table: %s (index names now %r)' % (ch, list(traj.index.names))))
        traj = build_table(case)
    want_cols = list(pc) if pc is not None else names
    if list(d.columns) != want_cols:
        viol.append(('compute_drift:columns', 'drift table has columns %r, expected the position columns %r' % (list(d.columns), want_cols)))
        return viol, [], info
    if d.isna().values.any():
        viol.append(('compute_drift:NaN', 'drift table contains NaN for finite positions'))
        return viol, [], info
    dfr = int_frames(d.index)
    info['drift_frames'] = dfr
    info['gapless'] = all(b == a + 1 for a, b in zip(dfr, dfr[1:]))
    # order independence, directly on the implementation
    if uniq and len(traj) > 1:
        perm = np.random.RandomState(case['perm_seed']).permutation(len(traj))
        d2 = tp.compute_drift(traj.iloc[perm]) if pc is None else tp.compute_drift(traj.iloc[perm], pos_columns=list(pc))
        if int_frames(d2.index) != dfr or list(d2.columns) != list(d.columns) or \
                (len(d) and np.abs(d2.values - d.values).max() > ftol):
            viol.append(('compute_drift:order dependent', 'compute_drift gives a different table after permuting the rows (perm_seed %d)' % case['perm_seed']))
    # ---- subtract_drift
    mode = case['sub_mode']
    if mode == 'own':
        dsub = d if pc is None else tp.compute_drift(traj)
        out = tp.subtract_drift(traj)
        dsnap = None
    else:
        dsub = d if mode == 'explicit' else user_drift(d, case)
        dsnap = snapshot(dsub)
        out = tp.subtract_drift(traj, dsub)
    ch = changed(traj, snap)
    if ch:
        viol.append(('subtract_drift:caller table changed (%s)' % ch, 'subtract_drift changed the caller\'s table: %s (index names now %r)' % (ch, list(traj.index.names))))
        traj = build_table(case)
    if dsnap is not None:
        ch = changed(dsub, dsnap)
        if ch:
            viol.append(('subtract_drift:drift table changed (%s)' % ch, 'subtract_drift changed the drift table handed in: %s' % ch))
    if out is traj:
        viol.append(('subtract_drift:returned the caller object', 'subtract_drift returned the caller\'s own DataFrame object (inplace=False)'))
    if list(out.columns) != snap['columns']:
        viol.append(('subtract_drift:columns', 'result columns %r differ from the input columns %r' % (list(out.columns), snap['columns'])))
        return viol, [], info
    if sorted(out['rid'].values.tolist()) != sorted(traj['rid'].values.tolist()):
        viol.append(('subtract_drift:rows', 'result does not consist of the input rows (row ids %r)' % (out['rid'].values.tolist(),)))
        return viol, [], info
    if any(nm in out.columns and out[nm].isna().values.any() for nm in names):
        viol.append(('subtract_drift:NaN', 'result has NaN positions for finite input positions (frames present in the table: %r, frames of the drift table: %r)' % (
            sorted(set(int(r[1]) for r in case['rows'])), [float(f) for f in dsub.index])))
        return viol, [], info
    o = out.reset_index(drop=True).set_index('rid', drop=False)
    t = traj.reset_index(drop=True).set_index('rid', drop=False)
    if len(set(t.index)) == len(t):
        o = o.loc[t.index]
        dcols = list(dsub.columns)
        for c in snap['columns']:
            if c in dcols:
                continue
            a, b = o[c].values, t[c].values
            if not same_values(a, b):
                viol.append(('subtract_drift:other column changed', 'column %r (not a drift column) differs between input and result' % c))
        # bit-exact: one correctly rounded subtraction per entry
        fr = t['frame'].values
        for c in dcols:
            dm = {float(f): float(v) for f, v in zip(dsub.index, dsub[c].values)}
            exp = np.array([float(x) - dm.get(float(f), 0.0) for x, f in zip(t[c].values, fr)], dtype=float)
            if not np.array_equal(o[c].values.astype(float), exp):
                bad = int(np.nonzero(o[c].values.astype(float) != exp)[0][0])
                viol.append(('subtract_drift:not position minus drift of the frame',
                             'column %r row id %d: result %r, position %r, drift of frame %r is %r' % (
                                 c, int(t.index[bad]), float(o[c].values[bad]), float(t[c].values[bad]), float(fr[bad]), dm.get(float(fr[bad])))))
                break
    # ---- re-measure
    redo = None
    if mode in ('own', 'explicit') and uniq:
        redo = tp.compute_drift(out)
        if list(redo.columns) != names:
            redo = redo[names] if set(redo.columns) == set(names) else None
    # ---- rigid motion removed
    if case.get('rigid') and uniq and mode in ('own', 'explicit') and info['gapless'] and dfr \
            and str(dfr[0] - 1) in case['rigid']['c']:
        base, cc = case['rigid']['base'], case['rigid']['c']
        f00 = dfr[0] - 1
        ok_frames = set(dfr) | {f00}
        for _, r in o.iterrows():
            f = int(r['frame'])
            if f in ok_frames:
                for k, nm in enumerate(names):
                    want = base[str(int(r['particle']))][k] + cc[str(f00)][k]
                    if abs(float(r[nm]) - want) > ftol:
                        viol.append(('subtract_drift:rigid motion not removed',
                                     'rigid motion: particle %d frame %d column %s is %r, expected offset + c(first measured frame - 1) = %r' % (
                                         int(r['particle']), f, nm, float(r[nm]), want)))
                        break
                else:
                    continue
                break
        info['rigid_checked'] = True
    # ---- coq terms, one per position column
    terms = []
    orid = out['rid'].values.tolist()
    for k, nm in enumerate(names):
        if nm in d.columns:
            obs_d = cdrift(dfr, d[nm].values)
        else:
            continue
        if nm in dsub.columns:
            ds = cdrift(int_frames(dsub.index), dsub[nm].values)
        else:
            ds = "[]"
        obs_s = clist(["(%s, %s)" % (cZ(i), cQ(float(v))) for i, v in zip(orid, out[nm].values)])
        obs_r = "None" if redo is None else "(Some %s)" % cdrift(int_frames(redo.index), redo[nm].values)
        terms.append((nm, "((%s, %s, %s, %s, %s, %s, %s) : case_t)" % (cbool(uniq), cQ(tol), ctable(case, k), obs_d, ds, obs_s, obs_r)))
    info['n_pairs'] = len(dfr)
    info['redo'] = redo is not None
    return viol, terms, info


def nontrivial(case, info):
    return len(info.get('drift_frames', [])) >= 2 and len(case['rows']) >= 4


def process(chk, cases):
    allterms, owners = [], []
    for case in cases:
        try:
            viol, terms, info = run_case(case)
        except Exception as e:
            import traceback
            chk.violation('exception:%s' % type(e).__name__,
                          'compute_drift / subtract_drift raised %s: %s' % (type(e).__name__, str(e)[:200]),
                          dict(case=case, traceback=traceback.format_exc()[-1500:]))
            chk.count(json.dumps(case, sort_keys=True), False)
            continue
        chk.count(json.dumps(case, sort_keys=True), nontrivial(case, info))
        chk.tally('kind=' + case['kind'])
        chk.tally('index=' + case['index'])
        if case.get('suffix'):
            chk.tally('position columns under other names (pos_columns given)')
        chk.tally('ndim=%d' % case['ndim'])
        chk.tally('subtract mode=' + case['sub_mode'])
        if case['edge']:
            chk.tally('edge: ' + case['edge'])
        if case['pos_dtype'] == 'int':
            chk.tally('integer position columns')
        if case['frame_dtype'] == 'float':
            chk.tally('float frame column')
        if case['pos_columns'] is not None:
            chk.tally('explicit pos_columns order')
        if info.get('drift_frames') is not None:
            chk.tally('drift empty' if not info['drift_frames'] else ('gapless' if info['gapless'] else 'not gapless (re-measured drift may be non-zero)'))
        if info.get('redo') and info.get('gapless') and info.get('drift_frames'):
            chk.tally('re-measured zero checked')
        if info.get('rigid_checked'):
            chk.tally('rigid motion removal checked')
        for sig, text in viol:
            chk.violation(sig, text, dict(case=case))
        for nm, t in terms:
            allterms.append(t)
            owners.append((case, nm))
    res = common.coq_eval_lists(chk.work, IMPORTS, FUNC, allterms, shard=150)
    for (case, nm), r in zip(owners, res):
        if r != 0:
            chk.violation('model:%d' % r, 'column %s: %s' % (nm, CODES.get(r, r)), dict(case=case, column=nm, code=r))
    return len(allterms)


def run(chk):
    common.quiet_trackpy()
    if not build(chk):
        return
    n = 260 if chk.tier == 'quick' else 3000
    cases = corpus() + [gen_case(chk.rng, chk.tier) for _ in range(n)]
    nt = process(chk, cases)
    chk.sample(dict(case=cases[3]))
    chk.sample(dict(case=cases[len(corpus())]))
    chk.tally('coq column-cases', nt)
    chk.coverage['rule'] = (
        "corpus (DESIGN section 4 witnesses F8/F9, non-gapless table, duplicates, empty/single-row, 3-D integer relay, thirds, user drift) then "
        "generated tables: 1-6 (thorough: -12) particles x 2-9 (-20) frames, kinds dense / random gaps / enter-leave / whole frames missing / sparse / "
        "relay chain / rigid motion (exact base+c), dyadic or integer positions, rows shuffled / by frame / by particle, index default / named 'frame' / "
        "(frame, particle) / named other / permuted range, shuffled column order, extra float / int / string columns, explicit pos_columns order, "
        "edge stream (empty, single row, one frame, duplicated (particle, frame), float frame column); subtract_drift with drift=None, with the "
        "measured table, and with a user table (frames dropped / added / values replaced / column subset). "
        "Each position column is one Coq case (model + declarative monitor). non-trivial = at least 4 rows and at least 2 measured frames; distinct by content")
    chk.assumptions += [
        "route T: Gen/drift.v is produced from the current trackpy/motion.py (compute_drift, subtract_drift) and trackpy/utils.py (guess_pos_columns; pandas_sort pinned textually) by tools/py2coq_drift.py (trusted, fail-closed; subset, conventions and the list of pandas primitives in its docstring and in Model/PyDrift.v); the primitives carry the meaning of Model/Drift.v for all position columns at once (DriftI), smoothing (rolling mean) stays uninterpreted; Proofs/DriftGen.v proves generated = model column by column, incl. the caller's table being returned unchanged (inplace=False)",
        "one position column at a time: pandas diff / groupby.mean / cumsum / Series.sub act column-wise with row mask and groups depending only on particle and frame; the harness compares every position column with the scalar model and checks the set and order of drift columns",
        "float results are compared with the exact rational model within an a-priori bound 4*64*4*(n+2)^2*max|pos|*2^-53 (inputs are dyadic with <= 4 fractional bits, magnitudes <= 2^12); subtract_drift's result is additionally checked bit-exactly as position - drift (a single rounded operation)",
        "pandas primitives modelled by their meaning: sort_values on two keys is stable, groupby sorts keys, Series.sub(level='frame', fill_value=0) aligns on the frame level and leaves frames without a value unchanged (exercised by the run, not proved)",
        "smoothing = 0 only; NaN positions and tables without a particle column are outside the model; inplace=True is not exercised",
        "caller-table immutability (data, index values, index names, dtypes) and non-drift columns are checked on the implementation only (no theorem)",
        "tables with a duplicated (particle, frame) are compared with the model only (the declarative statement and the theorems assume a trajectory table)",
    ]


def replay(chk, path):
    common.quiet_trackpy()
    if not build(chk):
        return
    r = json.load(open(path))['replay']
    if 'case' not in r:
        print('replay: nothing executable in this replay file (proof/correspondence breakage): see its log field')
        return
    case = r['case']
    try:
        viol, terms, info = run_case(case)
    except Exception as e:
        print('replay: implementation raised', repr(e))
        chk.violation('exception:%s' % type(e).__name__, 'compute_drift / subtract_drift raised %r' % (e,), dict(case=case))
        return
    chk.count(json.dumps(case, sort_keys=True), True)
    print('replay: table\n', build_table(case))
    print('replay: info', info)
    for sig, text in viol:
        print('replay: harness monitor:', text)
        chk.violation(sig, text, dict(case=case))
    res = common.coq_eval_lists(chk.work, IMPORTS, FUNC, [t for _, t in terms])
    for (nm, _), code in zip(terms, res):
        print('replay: column %s coq code %d %s' % (nm, code, CODES.get(code, 'ok')))
        if code != 0:
            chk.violation('model:%d' % code, 'column %s: %s' % (nm, CODES.get(code, code)), dict(case=case, column=nm, code=code))
