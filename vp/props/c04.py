"""C04 — linking jobs are isolated from one another and reproducible.

Theorems (Properties/C04.v): in the model with per-linker id counters every
schedule gives each job its solo outputs (non-interference by induction over the
schedule); the shared-counter model (code before the fix) is refuted by a
witness schedule.
Tie: real generators (link_iter, link_df_iter, find_link_iter) and complete
tp.link calls are interleaved by generated schedules (corpus first: the witness
schedule); every job's labels are compared with its solo run (partition
equality; on difference the Coq monitor decides whether it is a cost tie) and
replayed by the monitor (labels unique per frame, no label shared by two
trajectories, optimal).
"""
import os, json
import numpy as np, pandas as pd, json
from fractions import Fraction
import common, linkgen
from common import cnat
from props import c02, c11

IMPORTS = c02.IMPORTS
FUNC = c02.FUNC
CODES = c02.CODES


class Img(np.ndarray):
    pass


def blob_movie(rng, nframes, amp=200, bg=0, late=False, width=64):
    """small uint8 blob movie for find_link_iter (blobs of amplitude amp on a constant background bg).
    width < 64: a narrow channel (the relocation window around a lost feature then spans the whole image width)"""
    n = rng.randint(2, 4)
    pos = [[rng.randint(12, 52), rng.randint(12, 52) if width == 64 else width // 2] for _ in range(n)]
    # keep blobs apart
    for i in range(n):
        pos[i][0] = 12 + (i * 14) % 42
    frames = []
    yy, xx = np.mgrid[0:64, 0:width]
    # births and deaths: a blob may appear only in a later frame (a trajectory born while other jobs are running)
    # or vanish before the end
    born = [rng.choice([0, 0, 1, 2]) for _ in pos]
    dies = [rng.choice([99, 99, 99, 2, 3]) for _ in pos]
    if all(b > 0 for b in born):
        born[0] = 0
    if late:
        born[-1] = rng.randint(1, max(1, nframes - 1)); dies[-1] = 99
    for t in range(nframes):
        img = np.zeros((64, width)) + bg
        for k, p in enumerate(pos):
            if born[k] <= t < dies[k]:
                img += amp * np.exp(-((yy - p[0]) ** 2 + (xx - p[1]) ** 2) / (2 * 2.0 ** 2))
            p[1] += rng.randint(-2, 2) if width == 64 else rng.randint(-1, 1)
            p[1] = min(max(p[1], 10), 54) if width == 64 else min(max(p[1], width // 2 - 2), width // 2 + 2)
        im = np.clip(img, 0, 255).astype(np.uint8).view(Img)
        im.frame_no = t
        frames.append(im)
    return frames


def make_job(rng, kind, late=False, width=64):
    if kind == 'find_link':
        amp, bg = rng.choice([(200, 0), (60, 0), (100, 120), (40, 0), (120, 60)])
        nfr = rng.randint(3 if late else 2, 5)
        # detections withheld from the linker in frames after the first (forces relocation from the image)
        withhold = {t: rng.choice(['all', 'first', 'none']) for t in range(1, nfr)}
        images = blob_movie(rng, nfr, amp=amp, bg=bg, late=late, width=width)
        job = dict(kind=kind, images=images, memory=rng.choice([0, 1]), amp=amp, bg=bg, withhold=withhold)
        if rng.random() < 0.35:
            # float64 frames held in memory (a normalised movie) and band-pass preprocessing, as find_link(preprocess=True)
            # installs it: the frames stay the caller's, whatever the preprocessing does with them
            fl = []
            for im in images:
                g = (np.asarray(im, dtype=np.float64) / 255.0).view(Img)
                g.frame_no = im.frame_no
                fl.append(g)
            job['images'] = fl
            job['bandpass'] = True
        return job
    q = rng.random() < 0.4
    fr = linkgen.gen_movie(rng, quarter=q, nframes=rng.randint(2, 6))
    ndim = fr[0].shape[1]
    sr = linkgen.gen_range(rng, ndim, quarter=q, aniso=(ndim > 1 and rng.random() < 0.3))
    job = c02.safe_strategy(dict(kind=kind, frames=fr, sr=sr, memory=rng.choice([0, 1, 2, 3]), ndim=ndim, max_size=linkgen.LIMIT,
                                 strategy=rng.choice(['recursive', 'nonrecursive', 'numba'])))
    # a table job may leave pos_columns to the guess (needs 2 or 3 dimensions and a non-empty first frame)
    job['guess_pos'] = kind == 'df_iter' and ndim >= 2 and len(fr[0]) > 0 and rng.random() < 0.5
    return job


def start(job):
    import trackpy as tp
    k = job['kind']
    if k == 'find_link':
        from trackpy.linking.find_link import find_link_iter
        wh = job.get('withhold', {})

        def before_link(coords, image, **kw):
            mode = wh.get(getattr(image, 'frame_no', None), 'none')
            if mode == 'all':
                return coords[:0]
            if mode == 'first' and len(coords):
                return coords[1:]
            return coords
        if job.get('bandpass'):
            from trackpy.preprocessing import bandpass
            return find_link_iter(job['images'], 4, 9, memory=job['memory'], before_link=before_link,
                                  proc_func=lambda x: bandpass(x, 1, 9, None))
        return find_link_iter(job['images'], 4, 9, memory=job['memory'], before_link=before_link)
    srf = job.get('sr_obj', linkgen.sr_float(job['sr']))
    if k == 'iter':
        return tp.link_iter(iter([f.copy() for f in job['frames']]), srf, memory=job['memory'], link_strategy=job['strategy'])
    cols = ['x', 'y', 'z'][:job['ndim']][::-1]
    if k == 'df_iter':
        dfs = job.get('_dfs') or [pd.DataFrame({**{c: f[:, i] for i, c in enumerate(cols)}, 'frame': t}) for t, f in enumerate(job['frames'])]
        if job.get('guess_pos'):
            # pos_columns left to link_df_iter's guess (from ITS first frame: ['y','x'], or ['z','y','x'] when there is a 'z')
            return tp.link_df_iter(dfs, srf, memory=job['memory'], link_strategy=job['strategy'])
        return tp.link_df_iter(dfs, srf, pos_columns=cols, memory=job['memory'], link_strategy=job['strategy'])
    raise ValueError(k)


def advance(job, gen):
    k = job['kind']
    out = next(gen)
    if k == 'find_link':
        t, feat = out
        if feat is None:
            return []
        return [(round(float(r['y']), 3), round(float(r['x']), 3), int(r['particle'])) for _, r in feat.iterrows()]
    if k == 'iter':
        return [int(x) for x in out[1]]
    job.setdefault('_kept', []).append(out)          # the caller keeps the yielded table (list(gen)); read again at the end
    return [int(x) for x in out['particle'].values]


def whole(job):
    import trackpy as tp
    cols = ['x', 'y', 'z'][:job['ndim']][::-1]
    rows = [[*map(float, p), t] for t, f in enumerate(job['frames']) for p in f]
    df = pd.DataFrame(rows, columns=cols + ['frame'])
    # the caller keeps ONE pos_columns list per dimensionality and hands it to every call (a module-level constant in an
    # analysis script): it is an argument like the table, and a call must leave it as it was
    shared_cols = POS_COLUMNS.setdefault(job['ndim'], list(cols))
    if shared_cols != cols:
        raise ArgumentModified('the pos_columns list handed to an earlier trackpy.link call now reads %r (was %r)' % (shared_cols, cols))
    out = tp.link(df, job.get('sr_obj', linkgen.sr_float(job['sr'])), pos_columns=shared_cols, memory=job['memory'], link_strategy=job['strategy'])
    if shared_cols != cols:
        bad = list(shared_cols)
        shared_cols[:] = cols
        raise ArgumentModified('trackpy.link changed the pos_columns list it was given: %r -> %r (later calls handed the same list link other columns)' % (cols, bad))
    return [[int(x) for x in out[out['frame'] == t]['particle'].values] for t in range(len(job['frames']))]


POS_COLUMNS = {}


class ArgumentModified(Exception):
    pass


def nsteps(job):
    if job['kind'] == 'whole':
        return 1
    return len(job['images']) if job['kind'] == 'find_link' else len(job['frames'])


def share_ranges(jobs):
    """anisotropic ranges are handed over as float64 ndarrays; jobs with the same range share ONE array object
    (a caller reusing its parameter array): nobody may modify it"""
    shared = {}
    for job in jobs:
        if job['kind'] != 'find_link' and isinstance(job['sr'], tuple):
            key = tuple(job['sr'])
            if key not in shared:
                shared[key] = np.array([float(r) for r in job['sr']], dtype=np.float64)
            job['sr_obj'] = shared[key]
    return shared


def run_schedule(jobs, sched):
    from trackpy.linking.utils import SubnetOversizeException
    shared = share_ranges(jobs)
    gens, outs = {}, {j: [] for j in range(len(jobs))}
    dead = set()
    # table jobs of one 'share_tables' group are given THE SAME list of per-frame DataFrame objects (re-linking the
    # frames one has in memory with other parameters)
    groups = {}
    img_before = {id(im): np.array(im, copy=True) for job in jobs if job['kind'] == 'find_link' for im in job['images']}
    for job in jobs:
        if job['kind'] == 'find_link' and '_images0' not in job:
            job['_images0'] = [np.array(im, copy=True) for im in job['images']]       # as handed over, for the replay file
    for job in jobs:
        job.pop('_kept', None); job.pop('_dfs', None)
        g = job.get('share_tables')
        if g is not None and job['kind'] == 'df_iter':
            if g not in groups:
                cols = ['x', 'y', 'z'][:job['ndim']][::-1]
                groups[g] = [pd.DataFrame({**{c: f[:, i] for i, c in enumerate(cols)}, 'frame': t}) for t, f in enumerate(job['frames'])]
            job['_dfs'] = groups[g]
    for j in sched:
        job = jobs[j]
        if j in dead:
            continue
        try:
            if job['kind'] == 'whole':
                outs[j] = whole(job)
                continue
            if j not in gens:
                gens[j] = start(job)
            outs[j].append(advance(job, gens[j]))
        except SubnetOversizeException:
            dead.add(j); outs[j].append(None)
    for key, arr in shared.items():
        if [float(x) for x in key] != arr.tolist():
            outs['_modified_argument'] = (list(map(float, key)), arr.tolist())
    # the frames handed to find_link jobs are the caller's data (no preprocessing: the linker works on them directly);
    # two jobs may be given the same frame objects
    for job in jobs:
        if job['kind'] == 'find_link':
            for t, im in enumerate(job['images']):
                if not np.array_equal(np.asarray(im), img_before[id(im)]):
                    outs['_modified_frames'] = t
    # labels a table job has handed out must still be there when everything has finished
    for j, job in enumerate(jobs):
        if job['kind'] == 'df_iter' and job.get('_kept'):
            late = [[int(x) for x in o['particle'].values] if 'particle' in o.columns else None for o in job['_kept']]
            early = [o for o in outs[j] if o is not None]
            if late != early[:len(late)]:
                outs['_aliasing'] = (j, early, late)
        job.pop('_kept', None); job.pop('_dfs', None)
    return outs


def partition_of(job, out):
    if job['kind'] == 'find_link':
        groups = {}
        for t, feats in enumerate(out):
            for (y, x, lb) in feats:
                groups.setdefault(lb, []).append((t, y, x))
        return sorted(sorted(g) for g in groups.values())
    return c11.partition([o for o in out if o is not None])


def labels_injective(job, out):
    """distinct trajectories never share a label: within a frame labels are unique (both job kinds)"""
    for t, o in enumerate(out):
        if o is None:
            continue
        labs = [x[2] for x in o] if job['kind'] == 'find_link' else o
        if len(set(labs)) != len(labs):
            return 'label used twice in step %d: %s' % (t, labs)
    return None


def jsonable_jobs(jobs, sched, outs=None):
    js = []
    for job in jobs:
        d = {k: v for k, v in job.items() if k not in ('frames', 'images', 'sr', 'sr_obj', '_kept', '_dfs', '_images0')}
        if 'frames' in job:
            d['frames'] = [f.tolist() for f in job['frames']]
            d['search_range'] = [str(x) for x in job['sr']] if isinstance(job['sr'], tuple) else str(job['sr'])
        if 'images' in job:
            d['images'] = 'blob movie %d frames' % len(job['images'])
            # the frames themselves (grey levels 0..255; float64 jobs hold these divided by 255), so that the schedule can be replayed
            d['images_u8'] = [np.rint(np.asarray(im, dtype=np.float64) * (255.0 if job.get('bandpass') else 1.0)).astype(int).tolist() for im in job.get('_images0', job['images'])]
            d['withhold'] = {str(k): v for k, v in job.get('withhold', {}).items()}
        js.append(d)
    return dict(jobs=js, schedule=sched, outputs=None if outs is None else {str(k): v for k, v in outs.items()})


def corpus():
    """the witness schedule of C04_shared_counter_refuted (defect F1, fixed): job 0 advances two frames
    with a newborn each, job 1 starts, job 0 advances"""
    f = lambda xs: np.array([[float(x)] for x in xs])
    j0 = dict(kind='iter', frames=[f([0, 10, 20]), f([0, 10, 20, 30]), f([0, 10, 20, 30, 40])], sr=Fraction(2), memory=0, ndim=1, max_size=linkgen.LIMIT, strategy='recursive')
    j1 = dict(kind='iter', frames=[f([0])], sr=Fraction(2), memory=0, ndim=1, max_size=linkgen.LIMIT, strategy='recursive')
    return [([j0, j1], [0, 0, 1, 0])]


def run(chk):
    with linkgen.size_limit(linkgen.LIMIT):
        return _run(chk)


def audit_shared_state(chk):
    """route T for the hypothesis of C04_isolation: the linking code keeps no state that two jobs can both reach,
    beyond the reviewed inventory vp/shared_state_expected.json"""
    import importlib.util
    spec = importlib.util.spec_from_file_location('audit_shared_state', os.path.join(common.VERIF, 'tools', 'audit_shared_state.py'))
    mod = importlib.util.module_from_spec(spec); spec.loader.exec_module(mod)
    try:
        inv = mod.audit(common.REPO)
    except SyntaxError as e:
        chk.proof_broken('shared-state inventory: source does not parse', str(e)); return
    exp = json.load(open(os.path.join(common.VERIF, 'vp', 'shared_state_expected.json')))['entries']
    known = {(e['kind'], e['file'], e['name']): set(e['where']) for e in exp}
    new = []
    for it in inv:
        k = (it['kind'], it['file'], it['name'])
        extra = set(it['where']) - known.get(k, set()) if k in known else set(it['where'])
        if extra:
            new.append('%s %s %s (%s)' % (it['kind'], it['file'], it['name'], '; '.join(sorted(extra))))
    chk.tally('shared-state inventory: %d reviewed entries, %d new' % (len(inv) - len(new), len(new)))
    chk.coverage['shared_state_inventory'] = ['%s %s %s' % (it['kind'], it['file'], it['name']) for it in inv]
    if new:
        chk.proof_broken('C04_isolation hypothesis (jobs share no state): process-wide state not in the reviewed inventory: ' + ' | '.join(new),
                         json.dumps(dict(new=new, inventory=inv), indent=1))


def memo_tables():
    """every trackpy.utils.memo object of the modules a find_link job calls into: (qualified name, memo)"""
    import importlib
    from trackpy.utils import memo
    out = []
    for mn in ('trackpy.masks', 'trackpy.uncertainty', 'trackpy.preprocessing', 'trackpy.feature', 'trackpy.find', 'trackpy.refine.center_of_mass'):
        mod = importlib.import_module(mn)
        for nm, obj in sorted(vars(mod).items()):
            if isinstance(obj, memo) and getattr(obj.func, '__module__', None) == mn:
                out.append((mn + '.' + nm, obj))
    return out


def same_value(a, b):
    if isinstance(a, (tuple, list)) and isinstance(b, (tuple, list)):
        return len(a) == len(b) and all(same_value(x, y) for x, y in zip(a, b))
    if isinstance(a, np.ndarray) or isinstance(b, np.ndarray):
        a, b = np.asarray(a), np.asarray(b)
        return a.shape == b.shape and a.dtype == b.dtype and bool(np.array_equal(a, b, equal_nan=(a.dtype.kind in 'fc')))
    return a == b


def memo_purity():
    """the memoised tables (masks, kernels, coordinate moments) are handed out by reference and shared by every job of the
    process: each cached value must still be what the undecorated function computes.  -> list of (table, args)"""
    bad = []
    n = 0
    for name, m in memo_tables():
        for args, val in list(m.cache.items()):
            n += 1
            try:
                fresh = m.func(*args)
            except Exception:
                continue
            if not same_value(val, fresh):
                bad.append((name, repr(args)))
    return n, bad


def _run(chk):
    common.quiet_trackpy()
    chk.coq()
    audit_shared_state(chk)
    rng = chk.rng
    n = 160 if chk.tier == 'quick' else 2500
    cases = corpus()
    for k in range(n):
        if rng.random() < 0.12:
            # two find_link jobs on different movies (bright / dim), detections withheld so that both relocate from their images
            jobs = [make_job(rng, 'find_link'), make_job(rng, 'find_link')]
            sched = [j for j, job in enumerate(jobs) for _ in range(nsteps(job))]
            rng.shuffle(sched)
        elif rng.random() < 0.12:
            # the same in-memory frames linked by two table jobs with different parameters (sequentially or interleaved);
            # the caller keeps every yielded table: what the first job handed out must not change when the second runs
            a = make_job(rng, 'df_iter')
            while sum(len(f) for f in a['frames']) < 4 or len(a['frames']) < 2:
                a = make_job(rng, 'df_iter')
            a['guess_pos'] = False
            b = dict(a, memory=rng.choice([0, 1, 2, 3]))
            if isinstance(a['sr'], tuple):
                b['sr'] = tuple(r * rng.choice([Fraction(1, 2), Fraction(2)]) for r in a['sr'])
            else:
                b['sr'] = a['sr'] * rng.choice([Fraction(1, 2), Fraction(3, 2), Fraction(2)])
            b = c02.safe_strategy(b)
            a['share_tables'] = b['share_tables'] = 1
            jobs = [a, b]
            sched = [j for j, job in enumerate(jobs) for _ in range(nsteps(job))]
            if rng.random() < 0.5:
                rng.shuffle(sched)
        elif rng.random() < 0.1:
            # two find_link jobs given THE SAME frame objects (narrow channel: the relocation window spans the whole
            # image width), each withholding other detections: a job must not write into the frames it is given
            a = make_job(rng, 'find_link', width=rng.choice([17, 19, 21]))
            b = dict(a, withhold={t: rng.choice(['all', 'first', 'none']) for t in range(1, len(a['images']))}, memory=rng.choice([0, 1]))
            jobs = [a, b]
            sched = [j for j, job in enumerate(jobs) for _ in range(nsteps(job))]
            if rng.random() < 0.6:
                rng.shuffle(sched)
        elif rng.random() < 0.15:
            # a find_link job in which a trajectory is born in a later frame, while another job (of any kind) starts
            # and advances in between: the newborn must get an id from ITS job
            a = make_job(rng, 'find_link', late=True)
            kd = rng.choice(['iter', 'df_iter', 'whole', 'find_link'])
            b = make_job(rng, kd) if kd != 'whole' else dict(make_job(rng, 'iter'), kind='whole')
            jobs = [a, b]
            sched = [j for j, job in enumerate(jobs) for _ in range(nsteps(job))]
            rng.shuffle(sched)
            if sched[0] != 0:
                sched.remove(0); sched.insert(0, 0)
        elif rng.random() < 0.4:
            # targeted: a job with memory holding vanished particles, a small job started in between
            a = make_job(rng, rng.choice(['iter', 'df_iter']))
            while len(a['frames']) < 4:
                a = make_job(rng, a['kind'])
            a['memory'] = rng.choice([1, 2, 3])
            for t in range(1, len(a['frames']) - 1):
                if len(a['frames'][t]) > 1 and rng.random() < 0.6:
                    drop = rng.randrange(len(a['frames'][t]))
                    a['frames'][t] = np.delete(a['frames'][t], drop, axis=0)
            b = make_job(rng, 'iter')
            b['frames'] = [f[:rng.randint(1, 3)] for f in b['frames'][:rng.randint(1, 3)]]
            jobs = [a, b] if rng.random() < 0.7 else [a, dict(b, kind='whole')]
            na = nsteps(a)
            cut = rng.randint(1, na - 1)
            rest = [0] * (na - cut) + [1] * (nsteps(jobs[1]) - 1)
            rng.shuffle(rest)
            sched = [0] * cut + [1] + rest
        elif rng.random() < 0.12:
            # two table jobs of DIFFERENT dimensionality that both leave pos_columns to the guess, in either order,
            # sequentially or interleaved: what one job guessed must not be remembered for the other
            def table_job(nd):
                for _ in range(200):
                    j = make_job(rng, 'df_iter')
                    if j['ndim'] == nd and len(j['frames'][0]) > 0:
                        j['guess_pos'] = True
                        return j
                return None
            a, b = table_job(2), table_job(3)
            if a is None or b is None:
                continue
            jobs = [a, b] if rng.random() < 0.5 else [b, a]
            sched = [j for j, job in enumerate(jobs) for _ in range(nsteps(job))]
            if rng.random() < 0.5:
                rng.shuffle(sched)
        else:
            nj = rng.choice([2, 2, 3])
            kinds = [rng.choice(['iter', 'iter', 'df_iter', 'whole'] + (['find_link', 'find_link'] if rng.random() < 0.3 else [])) for _ in range(nj)]
            jobs = [make_job(rng, kd) if kd != 'whole' else dict(make_job(rng, 'iter'), kind='whole') for kd in kinds]
            sched = [j for j, job in enumerate(jobs) for _ in range(nsteps(job))]
            rng.shuffle(sched)
        if any(j['kind'] != 'find_link' and linkgen.max_inrange(j['frames'], j['sr'], j['memory']) > 8 for j in jobs):
            continue
        if any(j['kind'] == 'whole' and sum(len(f) for f in j['frames']) == 0 for j in jobs):
            continue   # tp.link on a table without any row is outside the property (nothing to label)
        # prior-call history: sometimes run a complete unrelated call first
        if rng.random() < 0.2:
            extra = dict(make_job(rng, 'iter'), kind='whole')
            if sum(len(f) for f in extra['frames']) > 0:
                sched = [len(jobs)] + sched
                jobs = jobs + [extra]
        cases.append((jobs, sched))
    terms, metas = [], []
    for jobs, sched in cases:
        try:
            inter = run_schedule(jobs, sched)
            solo = {j: run_schedule(jobs, [x for x in sched if x == j])[j] for j in range(len(jobs))}
            again = run_schedule(jobs, sched)
        except ArgumentModified as e:
            chk.violation('argument list modified', str(e), dict(kind='schedule', case=jsonable_jobs(jobs, sched)))
            continue
        except Exception as e:
            chk.violation('schedule raised', 'interleaved jobs raised %r' % e, dict(kind='schedule', case=jsonable_jobs(jobs, sched)))
            continue
        if any(j['kind'] == 'find_link' for j in jobs):
            ntab, badtab = memo_purity()
            chk.tally('memoised tables compared with a fresh computation after a schedule with find_link jobs')
            chk.coverage['memo_tables_checked'] = max(chk.coverage.get('memo_tables_checked', 0), ntab)
            if badtab:
                chk.violation('memoised table modified', 'after schedule %s the shared memoised table %s%s no longer equals what the function computes: a job wrote into an array '
                              'that every later job in the process is handed' % (sched, badtab[0][0], badtab[0][1]),
                              dict(kind='schedule', case=jsonable_jobs(jobs, sched), tables=badtab))
                for name, m in memo_tables():
                    m.cache.clear()
        if '_modified_argument' in inter:
            chk.violation('search_range array modified', 'a linking call modified the search_range array it was given: %s -> %s (other jobs using the same array are affected)' % inter.pop('_modified_argument'),
                          dict(kind='schedule', case=jsonable_jobs(jobs, sched)))
        if '_modified_frames' in inter:
            tt = inter.pop('_modified_frames')
            chk.violation('find_link job: frame array modified', 'a find_link_iter job wrote into frame %d it was given (schedule %s): other jobs reading the same frames are affected' % (tt, sched),
                          dict(kind='schedule', case=jsonable_jobs(jobs, sched)))
        if '_aliasing' in inter:
            jj, early, late = inter.pop('_aliasing')
            chk.violation('table job: labels already handed out changed afterwards',
                          'link_df_iter job %d under schedule %s: the tables it yielded carried labels %s and carry %s after the other jobs ran' % (jj, sched, early, late),
                          dict(kind='schedule', job=jj, case=jsonable_jobs(jobs, sched)))
        for o in (solo, again):
            if isinstance(o, dict):
                o.pop('_modified_argument', None); o.pop('_aliasing', None); o.pop('_modified_frames', None)
        for v in solo.values():
            if isinstance(v, dict):
                v.pop('_modified_argument', None); v.pop('_aliasing', None); v.pop('_modified_frames', None)
        chk.count(('sched', jsonable_jobs(jobs, sched)), len(set(sched)) >= 2 and len(sched) >= 4)
        chk.tally('jobs=%d' % len(jobs))
        for j, job in enumerate(jobs):
            chk.tally('job kind=' + job['kind'])
            why = labels_injective(job, inter[j])
            if why:
                chk.violation('interleaved job: label shared', 'job %d (%s) under schedule %s: %s' % (j, job['kind'], sched, why),
                              dict(kind='schedule', job=j, case=jsonable_jobs(jobs, sched, inter)))
                continue
            same = partition_of(job, inter[j]) == partition_of(job, solo[j]) and partition_of(job, inter[j]) == partition_of(job, again[j])
            if job['kind'] == 'find_link':
                if not same:
                    chk.violation('find_link job: partition depends on other jobs', 'find_link_iter job %d: partition differs from its solo / repeated run under schedule %s' % (j, sched),
                                  dict(kind='schedule', job=j, case=jsonable_jobs(jobs, sched, inter), solo=solo[j]))
                continue
            if job['kind'] == 'whole' and inter[j] == [None]:
                # a complete tp.link call that raised SubnetOversizeException: must do so in every history
                chk.tally('whole job raised oversize')
                if solo[j] != [None] or again[j] != [None]:
                    # equal-cost ties are broken by Python set order (object addresses): with memory the remembered set, hence
                    # later subnet sizes, can differ between identical calls.  Only flag when the job alone never raises.
                    more = [run_schedule(jobs, [j])[j] for _ in range(6)]
                    if any(m == [None] for m in more):
                        chk.tally('whole job raises in some identical solo runs (tie-dependent subnet size)')
                        continue
                    chk.violation('whole job: raise depends on other jobs', 'tp.link raised SubnetOversizeException only in some histories (schedule %s)' % sched,
                                  dict(kind='schedule', job=j, case=jsonable_jobs(jobs, sched, inter), solo=solo[j]))
                continue
            c = dict(frames=job['frames'], sr=job['sr'], memory=job['memory'], max_size=linkgen.LIMIT, strategy=job['strategy'], ndim=job['ndim'])
            terms.append(c02.case_term(c, inter[j])); metas.append((jobs, sched, j, inter, solo, same))
            if not same:
                chk.tally('partition differs from solo run (monitor decides tie)')
    res = common.coq_eval_lists(chk.work, IMPORTS, FUNC, terms)
    for (jobs, sched, j, inter, solo, same), r in zip(metas, res):
        if r != 0:
            chk.violation('interleaved job: %s' % CODES.get(r, r),
                          'job %d (%s, memory=%d) under schedule %s: %s%s' % (j, jobs[j]['kind'], jobs[j]['memory'], sched, CODES.get(r, r),
                                                                                '' if same else ' (partition differs from solo run)'),
                          dict(kind='schedule', job=j, code=r, case=jsonable_jobs(jobs, sched, inter), solo=solo[j]))
    if cases:
        chk.sample(jsonable_jobs(cases[0][0], cases[0][1]))
    chk.coverage['rule'] = ("2-3 jobs (link_iter / link_df_iter / find_link_iter generators, complete tp.link calls, optional prior unrelated call) with random interleavings of their steps; "
                            "each job compared with its solo and repeated run and replayed by the Coq monitor; non-trivial = >= 2 jobs and >= 4 steps")
    chk.assumptions += ["single-threaded interleaving at generator yield points (the only interleaving Python generators allow)", "as C02 for the monitor"]


def replay(chk, path):
    with linkgen.size_limit(linkgen.LIMIT):
        return _replay(chk, path)


def _replay_find_link(chk, r, cj):
    """a schedule with find_link jobs: rebuilt from the recorded frames, judged at Python level (frames and memoised
    tables untouched, labels injective, partition equal to the solo and to the repeated run)"""
    jobs = []
    for d in cj['jobs']:
        if 'images_u8' in d:
            ims = []
            for t, a in enumerate(d['images_u8']):
                g = np.array(a, dtype=np.uint8)
                g = (g.astype(np.float64) / 255.0) if d.get('bandpass') else g
                g = g.view(Img); g.frame_no = t
                ims.append(g)
            jobs.append(dict(kind='find_link', images=ims, memory=d['memory'], withhold={int(k): v for k, v in d.get('withhold', {}).items()},
                             bandpass=bool(d.get('bandpass'))))
        elif 'frames' in d:
            fr = linkgen.frames_from_json(d['frames'])
            ndim = d['ndim']
            jobs.append(dict(kind=d['kind'], frames=[f.reshape(len(f), ndim) for f in fr], sr=(tuple(Fraction(x) for x in d['search_range']) if isinstance(d['search_range'], list) else Fraction(d['search_range'])),
                             memory=d['memory'], ndim=ndim, max_size=linkgen.LIMIT, strategy=d['strategy'], guess_pos=d.get('guess_pos', False)))
        else:
            print('replay: this replay file predates the recording of find_link frames; rerun with the recorded seed'); return
    sched = cj['schedule']
    for name, m in memo_tables():
        m.cache.clear()
    inter = run_schedule(jobs, sched)
    solo = {j: run_schedule(jobs, [x for x in sched if x == j])[j] for j in range(len(jobs))}
    chk.count(('replay', 'find_link schedule'), True)
    ntab, badtab = memo_purity()
    print('replay: schedule', sched, 'frames modified:', inter.get('_modified_frames'), 'memoised tables changed:', badtab)
    if '_modified_frames' in inter:
        chk.violation('find_link job: frame array modified', 'a find_link_iter job wrote into frame %d it was given (schedule %s)' % (inter['_modified_frames'], sched), r)
    if badtab:
        chk.violation('memoised table modified', 'shared memoised table %s%s no longer equals what the function computes' % badtab[0], r)
    for j, job in enumerate(jobs):
        if job['kind'] != 'find_link':
            continue
        why = labels_injective(job, inter[j])
        same = partition_of(job, inter[j]) == partition_of(job, solo[j])
        print('replay: find_link job', j, 'labels injective:', why is None, 'partition equals solo run:', same)
        if why:
            chk.violation('interleaved job: label shared', why, r)
        elif not same:
            chk.violation('find_link job: partition depends on other jobs', 'find_link_iter job %d: partition differs from its solo run under schedule %s' % (j, sched), r)


def _replay(chk, path):
    common.quiet_trackpy()
    chk.coq()
    r = json.load(open(path))['replay']
    cj = r['case']
    jobs = []
    if any('frames' not in d for d in cj['jobs']):
        return _replay_find_link(chk, r, cj)
    for d in cj['jobs']:
        fr = linkgen.frames_from_json(d['frames'])
        ndim = d['ndim']
        jobs.append(dict(kind=d['kind'], frames=[f.reshape(len(f), ndim) for f in fr], sr=(tuple(Fraction(x) for x in d['search_range']) if isinstance(d['search_range'], list) else Fraction(d['search_range'])), memory=d['memory'], ndim=ndim,
                         max_size=linkgen.LIMIT, strategy=d['strategy']))
    inter = run_schedule(jobs, cj['schedule'])
    j = r.get('job', 0)
    job = jobs[j]
    c = dict(frames=job['frames'], sr=job['sr'], memory=job['memory'], max_size=linkgen.LIMIT, strategy=job['strategy'], ndim=job['ndim'])
    res = common.coq_eval_lists(chk.work, IMPORTS, FUNC, [c02.case_term(c, inter[j])])
    chk.count(('replay', cj), True)
    print('replay: job', j, 'labels', inter[j], 'monitor code', res[0], CODES.get(res[0]))
    if res[0] != 0:
        chk.violation('interleaved job: %s' % CODES.get(res[0]), CODES.get(res[0]), dict(kind='schedule', job=j, code=res[0], case=jsonable_jobs(jobs, cj['schedule'], inter)))
