"""C08 — locate's output obeys its documented filters and bounds.

Tie (route C, no hooks).  Per generated image and parameter set:
  * `locate` is run "unrestricted" (minmass m0, maxsize s0, no topn) and again
    with (m1 >= m0, s1 <= s0, topn).  Every row of the second table must be,
    bit for bit in every column (ep included), a distinct row of the first.
  * Coq (`Model/LocateTailCheck.check_locate`) then runs, on the exact rational
    values of the returned floats:
      10+ the verified monitor (mass > minmass, size < maxsize, inside the
          image, pairwise separation, ep sign) on the unrestricted table,
      20+ the model's ep against the reported ep (noise / black level measured
          by repeating locate's head with trackpy's public functions),
      30+ the verified check "second table is a selection of the first"
          (filters, at most topn, the most massive ones, nothing else removed),
      40+ the model's filter/topn on the first table against the second
          (sound by Properties/C08.C08_restriction_commutes),
      50+ the model's whole tail (where_close on refine_com's rows, rescale,
          filters) against the first table.
  * `where_close` is also driven directly on lattice points with tied
    intensities, exact duplicates and pairs exactly at the separation.
  * Static error on ALL its columns: a family of images whose features are darker
    than the measured background (dim blobs next to a bright plateau, noise
    textures) is run with parameter sets that take `_static_error`'s anisotropic
    branch (diameter (9,11), (5,7), ...; noise_size (1,1.5) with a scalar
    diameter).  Every column named ep / ep_* of every table is checked entry by
    entry: not negative (here, and by the verified monitor), and equal to the
    array model `Model/StaticError.locate_ep` (column names and order included,
    `Model/StaticErrorCheck.check_se`).  The public `static_error` is called
    directly (masses <0, 0, NaN, inf; scalar and per-frame noise; both branches)
    and compared with `Model/StaticError.static_error` the same way.

Route T.  tools/py2coq_tail.py re-translates the CURRENT text of trackpy/uncertainty.py
(measure_noise, _root_sum_x_squared, _static_error, static_error) and of trackpy/feature.py
(locate from the statement after the refine_com call to its return; batch) into
coq/Gen/tail.v before the proofs are built (numpy / scipy / pandas operations stay named
primitives: Model/PyTail.v).  Proofs/TailGen.v proves the generated functions equal to
the hand-written models for all inputs and Properties/C08.v restates the headline theorems
for them (C08_gen_*).  A source that leaves the translatable subset, or whose translation
no longer satisfies those proofs, is reported through chk.proof_broken; the correspondence
run still runs (on the hand-written executable models), so that a concrete failing input is
searched for as well.
"""
import json, math, os, sys, hashlib
import numpy as np
from fractions import Fraction
import common, c08gen
from common import cnat, clist, copt, cbool


def cQ(x):
    """exact rational literal (hexadecimal: Coq parses it several times faster
    than decimal); float / int / Fraction"""
    if isinstance(x, float):
        x = Fraction(*x.as_integer_ratio())
    x = Fraction(x)
    n, d = x.numerator, x.denominator
    return "(Qmake (%s0x%x)%%Z 0x%x%%positive)" % ('-' if n < 0 else '', abs(n), d)

IMPORTS = "From TP Require Import Model.LocateTail Model.LocateTailCheck."
TRANSLATOR = os.path.join(common.VERIF, 'tools', 'py2coq_tail.py')
GEN = os.path.join(common.COQ, 'Gen', 'tail.v')
MODEL_FILES = ('Model/LocateTail.v', 'Model/LocateTailSpec.v', 'Model/LocateTailCheck.v', 'Model/Dilation.v', 'Model/COM.v',
               'Model/LocatePipe.v', 'Model/StaticError.v', 'Model/StaticErrorCheck.v', 'Model/LocatePipeCheck.v')


# ------------------------------------------------------------ translator / build
def regenerate(chk):
    """re-run the translator on the current source; returns (ok, text-or-log)"""
    rc, out = common.sh([sys.executable, TRANSLATOR, '--repo', common.REPO, '--stdout'], timeout=60)
    if rc != 0:
        return False, out
    with common.Lock(os.path.join(common.COQ, '.build.lock')):
        old = open(GEN).read() if os.path.exists(GEN) else None
        if old != out:
            os.makedirs(os.path.dirname(GEN), exist_ok=True)
            tmp = GEN + '.tmp%d' % os.getpid()
            with open(tmp, 'w') as f:
                f.write(out)
            os.replace(tmp, GEN)
            chk.tally('Gen/tail.v rewritten (source differs from last run)')
        else:
            chk.tally('Gen/tail.v unchanged')
    return True, out


def ensure_model(chk):
    """the executable hand-written models are needed by the correspondence run even when the translation
    or a proof about the generated functions is broken"""
    def fresh(v):
        vo = os.path.join(common.COQ, v + 'o')
        return os.path.exists(vo) and os.path.getmtime(vo) >= os.path.getmtime(os.path.join(common.COQ, v))
    if all(fresh(v) for v in MODEL_FILES):
        return True
    with common.Lock(os.path.join(common.COQ, '.build.lock')):
        rc, out = common.sh('timeout 900 make %s 2>&1 | tail -25' % ' '.join(v + 'o' for v in MODEL_FILES), timeout=930, cwd=common.COQ)
    if not all(fresh(v) for v in MODEL_FILES):
        chk.proof_broken('executable models of C08', out)
        return False
    return True


def build(chk):
    """translator -> cone of Properties/C08.v; returns True when the executable models are available"""
    ok, text = regenerate(chk)
    if not ok:
        chk.proof_broken('translation tools/py2coq_tail.py (trackpy/uncertainty.py, or the tail of locate / batch in '
                         'trackpy/feature.py, left the translatable subset)', text)
        chk.build = dict(obligations=0, discharged=0, assumptions=[], files=[], theorems=[])
    else:
        for attempt in range(3):
            b = chk.coq()
            if open(GEN).read() == text:
                break
            # another run (different TRACKPY_REPO) rewrote the generated file in between: redo
            chk.violations = [v for v in chk.violations if not v[0].startswith('proof:')]
            regenerate(chk)
        chk.notes.append('Gen/tail.v sha1 %s generated from %s' % (hashlib.sha1(text.encode()).hexdigest()[:12], common.REPO))
        if not b['ok']:
            # say which statement about the generated functions no longer checks
            with common.Lock(os.path.join(common.COQ, '.build.lock')):
                rc, out = common.sh('timeout 600 make Proofs/TailGen.vo 2>&1 | tail -25', timeout=630, cwd=common.COQ)
            chk.notes.append('make Proofs/TailGen.vo (generated functions = models): ' + out[-2500:])
    return ensure_model(chk)
FUNC = "check_locate"
WC_FUNC = "fun c => match c with (sep, pts, drop) => check_wc sep pts drop end"
SE_IMPORTS = "From Coq Require Import String.\nFrom TP Require Import Model.LocateTail Model.StaticError Model.StaticErrorCheck."
SE_FUNC = "check_se (Qmake 1%Z 1000000000%positive)"
SE_CODES = {1: 'number of ep columns differs from the model of _static_error',
            2: 'name / order of an ep column differs from the model',
            3: 'an ep column does not have one entry per feature',
            11: 'NaN/inf pattern of an ep entry differs from noise/mass*noise_size*coord_moment, negative -> NaN',
            12: 'value of an ep entry differs from noise/mass*noise_size*coord_moment'}

CODES = {
    11: 'returned feature has mass <= minmass', 12: 'returned feature has size >= maxsize',
    13: 'returned feature lies outside the image', 14: 'two returned features are closer than separation',
    15: 'ep is negative', 16: 'ep is 0 although the measured background noise is positive',
    21: 'ep NaN/inf pattern differs from noise/(raw_mass-N*black_level)*geometry of the same row',
    22: 'ep value differs from noise/(raw_mass-N*black_level)*geometry of the same row', 23: 'number of ep columns differs',
    31: 'restricted result keeps a feature with mass <= minmass', 32: 'restricted result keeps a feature with size >= maxsize',
    33: 'a feature passing minmass/maxsize is missing although topn is not set',
    34: 'more than topn features returned', 35: 'fewer than topn features returned although more pass the filters',
    36: 'harness: mask length', 37: 'topn result is not the topn most massive of the unrestricted result',
    41: 'restricted result differs from the model (row set)', 42: 'restricted result differs from the model (masses)',
    51: 'unrestricted result differs from the model tail (where_close / rescale / filter on refine_com rows)',
}


# ------------------------------------------------------------ float emission
def fval(x):
    x = float(x)
    if math.isnan(x):
        return 'FNaN'
    if math.isinf(x):
        return 'FPInf' if x > 0 else 'FNInf'
    return '(FVal %s)' % cQ(x)


def optq(x):
    x = float(x)
    return 'None' if (math.isnan(x) or math.isinf(x)) else '(Some %s)' % cQ(x)


def row_term(pos, mass, size, raw):
    return '(mkrow %s %s %s %s)' % (clist([cQ(float(p)) for p in pos]), cQ(float(mass)), cQ(float(size)), cQ(float(raw)))


def fkey(v):
    v = float(v)
    return 'nan' if math.isnan(v) else v.hex()



# ------------------------------------------------- static error, all columns
def ep_columns(df):
    return [c for c in df.columns if c == 'ep' or str(c).startswith('ep_')]


def sqrt_table(radius):
    """(argument, float result) of the square roots _root_sum_x_squared takes"""
    from trackpy.masks import x_squared_masks
    nd = len(radius)
    m = x_squared_masks(tuple(int(r) for r in radius), nd)
    r2 = np.sum(m, axis=tuple(range(1, nd + 1)))
    return clist(['(%s, %s)' % (cQ(int(v)), cQ(float(np.sqrt(v)))) for v in r2])


def negative_entries(cols):
    """[(column, row, value)] of entries that are negative (-inf included)"""
    bad = []
    for name, vals in cols:
        for i, v in enumerate(np.asarray(vals, dtype=float)):
            if v < 0:
                bad.append((str(name), i, float(v)))
    return bad


def se_locate(h, base, info):
    """Coq term comparing locate's ep columns with Model/StaticError.locate_ep, and
    the direct sign findings"""
    cols = ep_columns(base)
    viol = []
    raws = base['raw_mass'].values.astype(float)
    nz, bl, npx = h['noise'], h['black'], h['npx']
    keep = []
    for i, raw in enumerate(raws):
        if np.isfinite(bl):
            m = raw - npx * bl
            if m < 0:
                info['darker_than_background'] = info.get('darker_than_background', 0) + 1
            if abs(m) < 1e-6 * (abs(raw) + abs(npx * bl)):
                continue
        keep.append(i)
    keep = keep[:60]
    if len(cols) > 1:
        info['aniso_ep'] = True
        for c in cols:
            v = base[c].values.astype(float)
            info['aniso_ep_nan'] = info.get('aniso_ep_nan', 0) + int(np.isnan(v).sum())
            info['aniso_ep_pos'] = info.get('aniso_ep_pos', 0) + int((v > 0).sum())
    obs = clist(['("%s"%%string, %s)' % (c, clist([fval(base[c].values[i]) for i in keep])) for c in cols])
    term = '(SELocate %s %s %s %s %s %s %s)' % (
        sqrt_table(h['radius']), clist([common.cZ(int(r)) for r in h['radius']]),
        clist([cQ(float(x)) for x in h['noise_size']]), fval(bl), fval(nz),
        clist([cQ(float(raws[i])) for i in keep]), obs)
    return term, viol


def run_static_error(w):
    """direct call of trackpy.static_error; returns (columns or None, info)"""
    import pandas as pd
    from trackpy.uncertainty import static_error
    mass = np.array(w['mass'], dtype=float)
    diameter = tuple(w['diameter']) if isinstance(w['diameter'], list) else w['diameter']
    ns = tuple(w['noise_size']) if isinstance(w['noise_size'], list) else w['noise_size']
    feats = pd.DataFrame({'mass': mass})
    if w['frames'] is not None:
        feats['frame'] = w['frames']
        noise = pd.DataFrame({'noise': [float(x) for x in w['noise']]}, index=pd.Index(range(len(w['noise'])), name='frame'))
    else:
        noise = float(w['noise'])
    info = {}
    try:
        ep = static_error(feats, noise, diameter, ns, ndim=w['ndim'])
    except ValueError as e:
        if 'Multi-dimensional indexing' not in str(e):
            raise
        info['pandas_multidim'] = True       # N_S[:, np.newaxis] on a Series: pandas >= 2 refuses
        if w['frames'] is not None:
            return None, info
        ep = static_error(c08gen.ArrFeatures(mass), noise, diameter, ns, ndim=w['ndim'])
    if isinstance(ep, pd.Series):
        cols = [(ep.name, ep.values.astype(float))]
    else:
        cols = [(c, ep[c].values.astype(float)) for c in ep.columns]
    return cols, info


def se_static_term(w, cols):
    nd = len(w['diameter']) if isinstance(w['diameter'], list) else w['ndim']
    diam = [int(d) for d in (w['diameter'] if isinstance(w['diameter'], list) else [w['diameter']] * nd)]
    ns = [float(x) for x in (w['noise_size'] if isinstance(w['noise_size'], list) else [w['noise_size']] * nd)]
    if w['frames'] is None:
        noise = '(NScalar %s)' % fval(w['noise'])
    else:
        noise = '(NSeries %s)' % clist([fval(w['noise'][f]) for f in w['frames']])
    obs = clist(['("%s"%%string, %s)' % (n, clist([fval(v) for v in vals])) for n, vals in cols])
    return '(SEStatic %s %s %s %s %s %s)' % (
        sqrt_table([d // 2 for d in diam]), clist([fval(m) for m in w['mass']]), noise,
        clist([common.cZ(d) for d in diam]), clist([cQ(x) for x in ns]), obs)



# --------------------------------------------------- measure_noise (model glue)
NOISE_IMPORTS = "From TP Require Import Model.Dilation Model.LocatePipe Model.LocatePipeCheck."
NOISE_FUNC = "check_noise (Qmake 1%Z 1000000000%positive)"
NOISE_CODES = {11: 'black level: NaN on one side only', 12: 'black level differs from the mean of the raw pixels without signal under the mask',
               21: 'noise: NaN on one side only', 22: 'noise differs from the standard deviation of those pixels'}


def arr_term(a):
    if a.ndim == 0:
        return '(Leaf %s)' % common.cZ(int(a))
    return '(Node %s)' % clist([arr_term(x) for x in a])


def image_term(a):
    return '{| shape := %s; data := %s |}' % (clist([common.cZ(int(n)) for n in a.shape]), arr_term(a))


def gen_noise_case(rng):
    rs = np.random.RandomState(rng.randrange(2 ** 31))
    if rng.random() < 0.75:
        shape = (rng.randint(6, 13), rng.randint(6, 13))
    else:
        shape = (rng.randint(4, 6), rng.randint(5, 7), rng.randint(5, 7))
    radius = tuple(rng.choice([1, 1, 2, 3]) for _ in shape)
    dens = rng.choice([0.0, 0.01, 0.03, 0.08, 0.2, 0.5])
    im = (rs.randint(1, 200, shape) * (rs.rand(*shape) < dens)).astype(np.uint8)
    r = rng.random()
    if r < 0.5:
        raw = rs.randint(0, 256, shape).astype(np.int16)
    elif r < 0.8:                                   # signed raw frame: locate hands measure_noise the clipped image and the raw one
        raw = rs.randint(-120, 200, shape).astype(np.int16)
        if rng.random() < 0.5:
            im = raw.clip(min=0) * (rs.rand(*shape) < max(dens, 0.05))
    else:
        raw = im.copy()
    return dict(image=np.asarray(im).tolist(), raw=np.asarray(raw).tolist(), radius=list(radius))


def run_noise_case(w):
    from trackpy.uncertainty import measure_noise
    from trackpy.masks import binary_mask
    from scipy.ndimage import binary_dilation
    im = np.array(w['image'], dtype=np.int16)
    raw = np.array(w['raw'], dtype=np.int16)
    radius = tuple(w['radius'])
    black, noise = measure_noise(im, raw, radius)
    # exact variance of the pixels trackpy itself calls background: key of the sqrt table
    bg = ~binary_dilation(im, structure=binary_mask(radius, im.ndim))
    vs = [int(v) for v in raw[bg]]
    table = []
    if len(vs) >= 2:
        mean = Fraction(sum(vs), len(vs))
        var = sum((Fraction(v) - mean) ** 2 for v in vs) / len(vs)
        table.append('(%s, %s)' % (cQ(var), cQ(float(np.sqrt(float(var))))))
    term = '(mk_ncase %s %s %s %s %s %s)' % (clist(table), image_term(im), image_term(raw),
                                           clist([common.cZ(r) for r in radius]), optq(black), optq(noise))
    return term, len(vs)


# --------------------------------------------------------------- one case
def image_to_json(im):
    if np.issubdtype(im.dtype, np.integer):
        return dict(dtype=str(im.dtype), shape=list(im.shape), data=[int(x) for x in im.ravel()])
    return dict(dtype=str(im.dtype), shape=list(im.shape), data=[float(x).hex() for x in im.ravel()])


def image_from_json(j):
    if j['dtype'].startswith(('uint', 'int')):
        return np.array(j['data'], dtype=j['dtype']).reshape(j['shape'])
    return np.array([float.fromhex(x) for x in j['data']], dtype=j['dtype']).reshape(j['shape'])


def kw_to_json(kw):
    return {k: (list(v) if isinstance(v, tuple) else v) for k, v in kw.items()}


def kw_from_json(j):
    return {k: (tuple(v) if isinstance(v, list) else v) for k, v in j.items()}


def pick_restriction(rng, base, m0, s0, iso, characterize):
    """(m1, s1, topn) with m1 >= m0, s1 <= s0"""
    masses = sorted(float(x) for x in base['mass'].values)
    n = len(masses)
    m0v = 0.0 if m0 is None else m0
    r = rng.random()
    if n == 0 or r < 0.25:
        m1 = m0
    elif r < 0.5:
        m1 = rng.choice(masses)                                   # exactly a mass: '>' must exclude it
    elif r < 0.8:
        k = rng.randrange(n)
        m1 = (masses[k] + masses[min(k + 1, n - 1)]) / 2.
    elif r < 0.9:
        m1 = masses[-1] * 1.5 + 1                                 # removes everything
    else:
        m1 = m0v + rng.choice([0.0, 1e-9, 1.0])
    if m1 is not None and m1 < m0v:
        m1 = m0
    s1 = s0
    if iso and characterize and n > 0:
        sizes = sorted(float(x) for x in base['size'].values)
        r = rng.random()
        if r < 0.2:
            s1 = rng.choice(sizes)                                # exactly a size: '<' must exclude it
        elif r < 0.45:
            k = rng.randrange(n)
            s1 = (sizes[k] + sizes[min(k + 1, n - 1)]) / 2.
        elif r < 0.5:
            s1 = sizes[0] / 2.
        if s1 is not None and s0 is not None and s1 > s0:
            s1 = s0
    r = rng.random()
    if r < 0.3:
        topn = None
    elif r < 0.5:
        topn = 1
    elif r < 0.6:
        topn = 2
    else:
        topn = rng.randint(1, max(1, n + 2))
    return m1, s1, topn


def pick_base_filters(rng, h, characterize):
    """filters of the 'unrestricted' run: mostly the defaults"""
    pre = h['pre']
    m0 = s0 = None
    if len(pre) and rng.random() < 0.25:
        ms = sorted(float(x) / h['scale_factor'] for x in pre['mass'].values)
        m0 = rng.choice([ms[len(ms) // 4], ms[0], -1.0, ms[len(ms) // 2]])
    if len(pre) and characterize and h['isotropic'] and rng.random() < 0.15:
        ss = sorted(float(x) for x in pre['size'].values)
        s0 = ss[(3 * len(ss)) // 4] + rng.choice([0.0, 0.01])
    return m0, s0


def match_rows(sub, full, cols):
    """each row of `sub` to a distinct row of `full` with identical values in
    `cols`; among identical rows the last unused one.  returns list of indices
    into full, or None + the offending row"""
    pool = {}
    fv = full[cols].values
    for i in range(len(full)):
        pool.setdefault(tuple(fkey(v) for v in fv[i]), []).append(i)
    res = []
    sv = sub[cols].values
    for i in range(len(sub)):
        lst = pool.get(tuple(fkey(v) for v in sv[i]))
        if not lst:
            return None, i
        res.append(lst.pop())
    return res, None


def tail_margin_ok(h, m0, s0):
    """the exact model and the float implementation take the same decisions in
    where_close / the minmass filter when every decisive quantity has a margin
    far above rounding (the 1e-7 slack of query_pairs included)"""
    pre = h['pre']
    n = len(pre)
    if n == 0:
        return True
    sep = np.array(h['separation'], dtype=float)
    if not np.all(sep > 0):
        return True
    P = pre[h['pos_columns']].values / sep
    M = pre['mass'].values
    d2 = ((P[:, None, :] - P[None, :, :]) ** 2).sum(-1)
    iu = np.triu_indices(n, 1)
    if np.any(np.abs(d2[iu] - 1.0) < 1e-5):
        return False
    closep = d2 < 1
    s = P.sum(1)
    for i, j in zip(*iu):
        if closep[i, j] and M[i] == M[j]:
            if not np.array_equal(P[i], P[j]) and abs(s[i] - s[j]) < 1e-9 * (1 + abs(s[i])):
                return False
    sc = M / h['scale_factor']
    m0v = 0.0 if m0 is None else m0
    if np.any(np.abs(sc - m0v) <= 1e-9 * np.maximum(1.0, np.abs(sc))):
        return False
    return True


def run_case(case, chk=None):
    """returns dict(term=..., info=..., viol=[(signature, text)])"""
    import trackpy as tp
    import warnings
    im = case['image']
    kw = dict(case['kw'])
    m0, s0, m1, s1, topn = case['m0'], case['s0'], case['m1'], case['s1'], case['topn']
    viol = []
    characterize = kw.get('characterize', True)
    with warnings.catch_warnings():
        warnings.simplefilter('ignore')
        h = c08gen.head(im, **kw)
        base = tp.locate(im, minmass=m0, maxsize=s0, **kw)
        if case.get('pick') is not None:                      # restriction drawn from the base table
            m1, s1, topn = pick_restriction(case['pick'], base, m0, s0, h['isotropic'], characterize)
            case.update(m1=m1, s1=s1, topn=topn, pick=None)
        restr = tp.locate(im, minmass=m1, maxsize=s1, topn=topn, **kw)
    info = dict(n_pre=len(h['pre']), n_base=len(base), n_restr=len(restr), ndim=h['ndim'],
                isotropic=h['isotropic'], topn=topn)
    pos = h['pos_columns']
    # every ep column of both tables, entry by entry: never negative
    for tname, tab in (('unrestricted', base), ('restricted', restr)):
        bad = negative_entries([(c, tab[c].values) for c in ep_columns(tab)]) if len(tab) else []
        if bad:
            viol.append(('locate: negative static error in column %s' % bad[0][0],
                         '%s table: column %s row %d = %r (%d negative entries in %s)' % (
                             (tname,) + bad[0] + (len(bad), ep_columns(tab)))))
    # every position of both tables inside the image (directly: the Coq monitor is not reached when a
    # size / ecc column is NaN, as it is for the F18 witnesses on the unrepaired code)
    for tname, tab in (('unrestricted', base), ('restricted', restr)):
        if len(tab):
            P = tab[pos].values.astype(float)
            hi = np.array(h['shape'], dtype=float) - 1
            out = np.isfinite(P) & ((P < 0) | (P > hi))
            if out.any():
                i = int(np.argwhere(out.any(1))[0][0])
                viol.append(('locate: returned feature lies outside the image',
                             '%s table: feature at %s, image shape %s' % (tname, [float(x) for x in P[i]], list(h['shape']))))
            if np.isnan(P).any():
                info['nan_position'] = True
    if len(base) == 0:
        if len(restr) != 0:
            viol.append(('locate: restricted result has rows although the unrestricted result is empty',
                         'locate with stricter filters returned %d rows, the unrestricted call none' % len(restr)))
        info['empty'] = True
    cols = list(base.columns)
    if len(restr) and len(base):
        if list(restr.columns) != cols:
            viol.append(('locate: restricted result has different columns than the unrestricted result',
                         'columns %s vs %s' % (list(restr.columns), cols)))
            return dict(term=None, info=info, viol=viol)
    num = base[cols].values.astype(float) if len(base) else np.zeros((0, len(cols)))
    finite_cols = [c for c in cols if c in pos or c in ('mass', 'raw_mass') or c.startswith('size')]
    if len(base) and not np.all(np.isfinite(base[finite_cols].values.astype(float))):
        info['nonfinite'] = True
        return dict(term=None, info=info, viol=viol)
    # restricted rows must be unchanged rows of the unrestricted table
    if len(restr) and len(base):
        idx, bad = match_rows(restr, base, cols)
        if idx is None:
            r = restr.iloc[bad]
            viol.append(('locate: restricted result contains a row that is not in the unrestricted result (value changed or row invented)',
                         'row %s of locate(minmass=%r, maxsize=%r, topn=%r) is not a row of locate(minmass=%r, maxsize=%r)'
                         % (dict(r), m1, s1, topn, m0, s0)))
            return dict(term=None, info=info, viol=viol)
    else:
        idx = []
    mask = [False] * len(base)
    for i in idx:
        mask[i] = True
    iso_size = characterize and h['isotropic']
    epcols = ['ep'] if 'ep' in cols else [c for c in ['ep_' + cc for cc in pos] if c in cols]   # by NAME, in axis order

    def rows_of(df, with_ep):
        out = []
        for i in range(len(df)):
            r = df.iloc[i]
            t = row_term([r[c] for c in pos], r['mass'], r['size'] if iso_size else 0.0,
                         r['raw_mass'] if characterize else 0.0)
            if with_ep:
                t = '(%s, %s)' % (t, clist([fval(r[c]) for c in epcols]))
            out.append(t)
        return out

    rows0 = rows_of(base, True)
    # ep correspondence rows (safe margin on raw_mass - N*black)
    eprows = []
    noise_pos = False
    if characterize and len(base):
        nz, bl = h['noise'], h['black']
        noise_pos = bool(np.isfinite(nz) and nz > 0)
        for i in range(len(base)):
            raw = float(base['raw_mass'].values[i])
            eps = [float(base[c].values[i]) for c in epcols]
            if np.isfinite(nz) and np.isfinite(bl):
                m = raw - h['npx'] * bl
                if abs(m) < 1e-6 * (abs(raw) + abs(h['npx'] * bl)):
                    info['ep_degenerate'] = info.get('ep_degenerate', 0) + 1
                    continue
            eprows.append('(%s, %s)' % (cQ(raw), clist([fval(e) for e in eps])))
            for e in eps:
                if e == 0 and not noise_pos:
                    info['ep_zero_noise_zero'] = info.get('ep_zero_noise_zero', 0) + 1
                elif math.isnan(e):
                    info['ep_nan'] = info.get('ep_nan', 0) + 1
                elif e > 0:
                    info['ep_pos'] = info.get('ep_pos', 0) + 1
    # whole tail from refine_com's rows
    pre_term = 'None'
    pre = h['pre']
    info['dropped_by_where_close_or_filter'] = len(pre) - len(base)
    if len(pre) <= 160 and tail_margin_ok(h, m0, s0):
        keycols = [c for c in pre.columns if c not in ('mass', 'signal')]
        if len(base):
            pidx, bad = match_rows(base, pre, keycols)
        else:
            pidx, bad = [], None
        if pidx is None:
            viol.append(('locate: unrestricted result contains a row that refine_com did not produce',
                         'row %s' % dict(base.iloc[bad])))
        else:
            sf = h['scale_factor']
            okmass = all(float(base['mass'].values[k]) == float(pre['mass'].values[i]) / sf for k, i in enumerate(pidx))
            if not okmass:
                viol.append(('locate: mass is not refine_com mass / scale_factor', 'mass column of the result is not mass/scale_factor'))
            pmask = [False] * len(pre)
            for i in pidx:
                pmask[i] = True
            pre_term = '(Some (%s, %s, %s))' % (cQ(sf), clist(rows_of(pre, False)), clist([cbool(b) for b in pmask]))
            info['tail'] = True
    else:
        info['tail_degenerate_or_large'] = True
    mm0 = 0.0 if m0 is None else float(m0)
    mm1 = 0.0 if m1 is None else float(m1)
    term = '(mk_lcase %s %s %s %s %s %s %s %s %s %s %s %s %s %s %s %s %s)' % (
        clist([cQ(int(n)) for n in h['shape']]), clist([cQ(float(s)) for s in h['separation']]),
        cQ(mm0), copt(s0, lambda v: cQ(float(v))), clist(rows0), cbool(noise_pos),
        optq(h['noise']) if characterize else 'None', optq(h['black']) if characterize else 'None',
        cQ(h['npx']) if characterize else cQ(0), clist([cQ(c) for c in h['cs']]) if characterize else '[]',
        cQ(Fraction(1, 10 ** 9)), clist(eprows),
        cQ(mm1), copt(s1, lambda v: cQ(float(v))), copt(topn, cnat), clist([cbool(b) for b in mask]), pre_term)
    se_term = None
    if characterize and len(base):
        se_term, v2 = se_locate(h, base, info)
        viol = viol + v2
    return dict(term=term, info=info, viol=viol, se_term=se_term)


def case_json(case):
    return dict(image=image_to_json(case['image']), kw=kw_to_json(case['kw']), m0=case['m0'], s0=case['s0'],
                m1=case['m1'], s1=case['s1'], topn=case['topn'], origin=case.get('origin', 'generated'))


def case_from_json(j):
    return dict(image=image_from_json(j['image']), kw=kw_from_json(j['kw']), m0=j['m0'], s0=j['s0'], m1=j['m1'],
                s1=j['s1'], topn=j['topn'], origin=j.get('origin'), pick=None)


# ----------------------------------------------------------------- corpus
def corpus():
    """known tricky cases; F2/F3 are the DESIGN section 4 witnesses"""
    cs = []
    rs = np.random.RandomState(7)
    tex = rs.randint(0, 256, (64, 64)).astype(np.uint8)
    cs.append(dict(origin='F2 uint8 noise texture, diameter 7', image=tex, kw=dict(diameter=7), m0=None, s0=None, m1=None, s1=None, topn=None))
    cs.append(dict(origin='F2 texture, topn 5', image=tex, kw=dict(diameter=7), m0=None, s0=None, m1=300.0, s1=None, topn=5))
    # F3: 3-D, anisotropic diameter, minmass removing 1 of 3 features
    g = np.meshgrid(np.arange(20), np.arange(32), np.arange(32), indexing='ij')
    vol = np.zeros((20, 32, 32))
    for c, a in [((6, 8, 8), 100.), ((10, 20, 22), 200.), ((13, 10, 22), 240.)]:
        vol += a * np.exp(-(((g[0] - c[0]) / 1.2) ** 2 + ((g[1] - c[1]) / 2.) ** 2 + ((g[2] - c[2]) / 2.) ** 2) / 2.)
    vol = vol.astype(np.uint8)
    cs.append(dict(origin='F3 3-D diameter (5,7,7), minmass removes 1 of 3', image=vol, kw=dict(diameter=(5, 7, 7)), m0=None, s0=None,
                   m1='median', s1=None, topn=None))
    cs.append(dict(origin='F3 3-D diameter (5,7,7), topn 2', image=vol, kw=dict(diameter=(5, 7, 7)), m0=None, s0=None,
                   m1=None, s1=None, topn=2))
    cs.append(dict(origin='2-D anisotropic noise_size, minmass', image=tex, kw=dict(diameter=5, noise_size=(1, 2)), m0=None, s0=None,
                   m1='median', s1=None, topn=3))
    # identical blobs: equal masses at the topn cut
    g2 = np.meshgrid(np.arange(48), np.arange(48), indexing='ij')
    tw = np.zeros((48, 48))
    for c in [(10, 10), (10, 30), (30, 12), (34, 34)]:
        tw += 200 * np.exp(-((g2[0] - c[0]) ** 2 + (g2[1] - c[1]) ** 2) / 8.)
    tw8 = tw.astype(np.uint8)
    for n in (1, 2, 3):
        cs.append(dict(origin='four identical blobs, zero background, topn %d' % n, image=tw8, kw=dict(diameter=9), m0=None, s0=None, m1=None, s1=None, topn=n))
    cs.append(dict(origin='identical blobs, preprocess off (ep = 0: zero noise)', image=tw8, kw=dict(diameter=9, preprocess=False), m0=None, s0=None, m1=None, s1=None, topn=2))
    # flat-topped blobs: several maxima per blob refine to nearby positions
    fl = np.minimum(tw, 120).astype(np.uint8)
    cs.append(dict(origin='flat-topped blobs (duplicates after refinement)', image=fl, kw=dict(diameter=7, preprocess=False), m0=None, s0=None, m1=None, s1=None, topn=3))
    cs.append(dict(origin='flat-topped blobs, small separation', image=fl, kw=dict(diameter=5, separation=3.0, preprocess=False), m0=None, s0=None, m1='median', s1=None, topn=None))
    cs.append(dict(origin='everything filtered', image=tw8, kw=dict(diameter=9), m0=None, s0=None, m1=1e9, s1=None, topn=None))
    cs.append(dict(origin='maxsize exactly a size', image=tex, kw=dict(diameter=5, preprocess=False), m0=None, s0=None, m1=None, s1='median', topn=4))
    cs.append(dict(origin='float noise image', image=rs.rand(40, 40), kw=dict(diameter=5), m0=None, s0=None, m1='median', s1=None, topn=None))
    # anisotropic static error with features darker than the measured background: dim blobs
    # next to a bright plateau (bandpass leaves ~0 inside the plateau, so measure_noise takes
    # its raw pixels as background), and the F2 texture
    g3 = np.meshgrid(np.arange(56), np.arange(60), indexing='ij')
    pl = np.zeros((56, 60))
    pl[:22, :] = 220.
    for c, a in [((34, 12), 40.), ((40, 30), 25.), ((33, 47), 60.), ((47, 44), 30.)]:
        pl += a * np.exp(-((g3[0] - c[0]) ** 2 + (g3[1] - c[1]) ** 2) / 8.)
    pl8 = np.clip(pl, 0, 255).astype(np.uint8)
    for kw in (dict(diameter=(9, 11)), dict(diameter=(5, 7)), dict(diameter=9, noise_size=(1, 1.5)),
               dict(diameter=(9, 11), preprocess=False, percentile=0)):
        cs.append(dict(origin='aniso ep: dim blobs next to a bright plateau, %s' % kw, image=pl8, kw=dict(kw), m0=None, s0=None,
                       m1=None, s1=None, topn=None))
        cs.append(dict(origin='aniso ep: F2 noise texture, %s' % kw, image=tex, kw=dict(kw), m0=None, s0=None,
                       m1='median', s1=None, topn=None))
    # F18 witnesses (fixed 7e846f3): signed frames with a negative pixel next to the maximum; before the clip the
    # centroid left the image (x = -48 / x = -3).  Demand: every returned feature inside the image (monitor code 13)
    w9 = np.zeros((9, 9), dtype=np.int16)
    w9[4, 1] = 50
    w9[4, 2] = -49
    cs.append(dict(origin='F18 9x9 int16, 50 at [4,1], -49 at [4,2], diameter 3, preprocess off', image=w9,
                   kw=dict(diameter=3, preprocess=False, engine='python'), m0=0, s0=None, m1=None, s1=None, topn=None))
    w9b = w9.copy()
    w9b[1, 6] = 10                # a second, faint pixel: the bright one stays above the percentile threshold after the clip
    cs.append(dict(origin='F18 9x9 int16 witness plus a faint pixel at [1,6] (feature survives the fix)', image=w9b,
                   kw=dict(diameter=3, preprocess=False, engine='python'), m0=0, s0=None, m1=None, s1=None, topn=None))
    w3 = np.array([[0, 0, 0], [0, 5, -4], [0, 0, 0]], dtype=np.int16)
    cs.append(dict(origin='F18 3x3 int16 [[0,0,0],[0,5,-4],[0,0,0]], diameter 3, percentile 0', image=w3,
                   kw=dict(diameter=3, preprocess=False, percentile=0, engine='python'), m0=0, s0=None, m1=None, s1=None, topn=None))
    return cs


def resolve_symbolic(case):
    """'median' filters of corpus cases -> the value taken from the unrestricted table"""
    import trackpy as tp, warnings
    if case['m1'] == 'median' or case['s1'] == 'median':
        with warnings.catch_warnings():
            warnings.simplefilter('ignore')
            b = tp.locate(case['image'], minmass=case['m0'], maxsize=case['s0'], **case['kw'])
        if case['m1'] == 'median':
            case['m1'] = float(np.sort(b['mass'].values)[len(b) // 2]) if len(b) else None
        if case['s1'] == 'median':
            case['s1'] = float(np.sort(b['size'].values)[len(b) // 2]) if len(b) else None
    case['pick'] = None
    return case


# ------------------------------------------------------------- where_close
def run_wc(w):
    import pandas as pd
    from trackpy.find import where_close
    pts = np.array(w['pts'], dtype=float)
    sep = tuple(w['sep']) if isinstance(w['sep'], list) else w['sep']
    pos = pd.DataFrame(pts, columns=['z', 'y', 'x'][-pts.shape[1]:]) if w['as_frame'] else pts
    d = where_close(pos, sep, np.array(w['intensity']))
    return sorted(int(x) for x in d)


def wc_exact_ok(w):
    """float decisions of where_close equal the exact ones (lattice inputs:
    margins are large; verified per case in exact arithmetic)"""
    sep = w['sep'] if isinstance(w['sep'], list) else [w['sep']] * len(w['pts'][0])
    if any(s == 0 for s in sep):
        return True
    P = [[Fraction(x) / Fraction(s) for x, s in zip(p, sep)] for p in w['pts']]
    Pf = np.array(w['pts'], dtype=float) / np.array(sep, dtype=float)
    n = len(P)
    for i in range(n):
        for j in range(i + 1, n):
            d2 = sum((a - b) ** 2 for a, b in zip(P[i], P[j]))
            if d2 != 1 and abs(d2 - 1) < Fraction(1, 10 ** 5):
                return False
            if d2 < 1 and w['intensity'][i] == w['intensity'][j]:
                se = sum(P[i]) - sum(P[j])
                sf = float(np.sum(Pf[i])) - float(np.sum(Pf[j]))
                if (se > 0) != (sf > 0):
                    return False
    return True


def wc_term(w, drop):
    nd = len(w['pts'][0])
    sep = w['sep'] if isinstance(w['sep'], list) else [w['sep']] * nd
    pts = clist(['(%s, %s)' % (clist([cQ(float(x)) for x in p]), cQ(float(i))) for p, i in zip(w['pts'], w['intensity'])])
    return '(%s, %s, %s)' % (clist([cQ(float(s)) for s in sep]), pts, clist([cnat(d) for d in drop]))


# --------------------------------------------------------------------- run
def report(chk, case, res, code=None):
    cj = case_json(case)
    for sig, text in res['viol']:
        chk.violation(sig, '%s: %s [%s]' % (sig, text, case.get('origin', 'generated')), dict(kind='locate', case=cj, info=res['info']))
    if code:
        what = CODES.get(code, 'code %d' % code)
        kind = 'monitor' if code < 20 or 30 <= code < 40 else 'correspondence'
        chk.violation('locate:%s' % what,
                      'locate(%s, minmass=%r/%r, maxsize=%r/%r, topn=%r): %s [%s]' % (
                          kw_to_json(case['kw']), case['m0'], case['m1'], case['s0'], case['s1'], case['topn'], what, case.get('origin', 'generated')),
                      dict(kind='locate', code=code, via=kind, case=cj, info=res['info']))


def report_se(chk, case, res, code):
    if code:
        what = SE_CODES.get(code, 'code %d' % code)
        chk.violation('locate ep columns:%s' % what,
                      'locate(%s): %s [%s]' % (kw_to_json(case['kw']), what, case.get('origin', 'generated')),
                      dict(kind='locate', se_code=code, via='correspondence', case=case_json(case), info=res['info']))


def tally_info(chk, case, info):
    chk.tally('ndim=%d' % info['ndim'])
    chk.tally('isotropic' if info['isotropic'] else 'anisotropic diameter')
    chk.tally('preprocess=%s' % case['kw'].get('preprocess', True))
    chk.tally('image dtype=%s' % case['image'].dtype)
    if info.get('empty'):
        chk.tally('unrestricted result empty')
    if info.get('nonfinite'):
        chk.tally('skipped: non-finite feature values')
    if info.get('nan_position'):
        chk.tally('tables with a NaN position (counted, not judged)')
    if info.get('tail'):
        chk.tally('whole-tail correspondence run')
    if info.get('tail_degenerate_or_large'):
        chk.tally('whole-tail correspondence skipped (margin below rounding / > 160 rows)')
    if info.get('dropped_by_where_close_or_filter', 0) > 0:
        chk.tally('cases where dedupe/filter removed refine_com rows')
    chk.tally('refine_com rows removed before output', info.get('dropped_by_where_close_or_filter', 0))
    chk.tally('features in unrestricted results', info['n_base'])
    chk.tally('features in restricted results', info['n_restr'])
    for k in ('ep_degenerate', 'ep_zero_noise_zero', 'ep_nan', 'ep_pos'):
        if info.get(k):
            chk.tally({'ep_degenerate': 'ep rows skipped: raw_mass - N*black within rounding of 0',
                       'ep_zero_noise_zero': 'ep = 0 with measured noise exactly 0 (accepted: exact value of the formula)',
                       'ep_nan': 'ep NaN', 'ep_pos': 'ep > 0'}[k], info[k])
    if info.get('aniso_ep'):
        chk.tally('tables with ep_<axis> columns (anisotropic branch of _static_error)')
        chk.tally('ep_<axis> entries NaN', info.get('aniso_ep_nan', 0))
        chk.tally('ep_<axis> entries > 0', info.get('aniso_ep_pos', 0))
    if info.get('darker_than_background'):
        chk.tally('features darker than the measured background (raw_mass < N*black_level)', info['darker_than_background'])
        if info.get('aniso_ep'):
            chk.tally('anisotropic tables containing features darker than the background')
    t = info['topn']
    chk.tally('topn: none' if t is None else ('topn binding' if t < info['n_base'] else 'topn not binding'))


def run(chk):
    common.quiet_trackpy()
    if not build(chk):
        return
    rng = chk.rng
    n = 150 if chk.tier == 'quick' else 1500
    cases, terms, results = [], [], []
    todo = [resolve_symbolic(c) for c in corpus()]
    for k in range(n):
        im, kind = c08gen.gen_image(rng, chk.tier)
        kw = c08gen.gen_params(rng, im)
        todo.append(dict(image=im, kw=kw, origin='generated:' + kind, m0='pick', s0=None, m1=None, s1=None, topn=None))
    na = 40 if chk.tier == 'quick' else 400
    for k in range(na):
        im, kind, kw = c08gen.gen_aniso(rng)
        todo.append(dict(image=im, kw=kw, origin='generated:' + kind, m0='pick', s0=None, m1=None, s1=None, topn=None))
    import random
    for case in todo:
        try:
            if case['m0'] == 'pick':
                import warnings
                with warnings.catch_warnings():
                    warnings.simplefilter('ignore')
                    h = c08gen.head(case['image'], **case['kw'])
                if len(h['pre']) > 250:
                    chk.tally('skipped: more than 250 refine_com rows')
                    continue
                case['m0'], case['s0'] = pick_base_filters(rng, h, case['kw'].get('characterize', True))
                case['pick'] = random.Random(rng.randrange(2 ** 31))
            res = run_case(case)
        except Exception as e:
            import traceback
            chk.violation('locate: exception', 'locate raised %r on %s [%s]' % (e, kw_to_json(case['kw']), case.get('origin')),
                          dict(kind='locate', case=case_json(dict(case, m1=None if case.get('pick') else case['m1'])), traceback=traceback.format_exc()))
            continue
        tally_info(chk, case, res['info'])
        chk.tally('image kind=' + case['origin'].split(':')[-1] if case['origin'].startswith('generated') else 'corpus case')
        if res['term'] is None:
            report(chk, case, res)
            chk.count(('locate', case_json(case)), False)
            continue
        cases.append(case); terms.append(res['term']); results.append(res)
    # balance the shards: cost of a case ~ (rows of the table)^2 + (refine_com rows)^2
    shard = 12 if chk.tier == 'quick' else 30
    nb = max(1, -(-len(terms) // shard))
    order = sorted(range(len(terms)), key=lambda i: -(results[i]['info']['n_base'] ** 2 + results[i]['info']['n_pre'] ** 2 + 50))
    buckets = [[] for _ in range(nb)]
    for r, i in enumerate(order):
        buckets[r % nb if (r // nb) % 2 == 0 else nb - 1 - r % nb].append(i)
    order = [i for b in buckets for i in b]
    cases = [cases[i] for i in order]; terms = [terms[i] for i in order]; results = [results[i] for i in order]
    codes = common.coq_eval_lists(chk.work, IMPORTS, FUNC, terms, shard=-(-len(terms) // nb) if terms else shard, tag='loc')
    for case, res, code in zip(cases, results, codes):
        chk.count(('locate', case_json(case)), res['info']['n_base'] >= 3)
        report(chk, case, res, code)
    # all ep columns against the array model of _static_error / locate's ep block
    se = [(case, res) for case, res in zip(cases, results) if res.get('se_term')]
    se_codes = common.coq_eval_lists(chk.work, SE_IMPORTS, SE_FUNC, [r['se_term'] for _, r in se], shard=40, tag='se')
    for (case, res), code in zip(se, se_codes):
        chk.tally('ep columns compared with Model/StaticError.locate_ep')
        report_se(chk, case, res, code)
    # static_error called directly
    ns = 120 if chk.tier == 'quick' else 2500
    sws, sterms = [], []
    for k in range(ns):
        w = c08gen.gen_static_error(rng)
        try:
            cols, sinfo = run_static_error(w)
        except Exception as e:
            chk.violation('static_error: exception', 'static_error raised %r on %s' % (e, w), dict(kind='static_error', case=w))
            continue
        if sinfo.get('pandas_multidim'):
            chk.tally('static_error: 2-D branch raises on a pandas Series (N_S[:, np.newaxis]); re-run with ndarray mass' if cols is not None
                      else 'static_error: 2-D branch raises on a pandas Series (per-frame noise: not re-runnable)')
        if cols is None:
            continue
        chk.tally('static_error: %s' % ('column ep' if len(cols) == 1 and cols[0][0] == 'ep' else 'columns ' + '/'.join(str(c) for c, _ in cols)))
        bad = negative_entries(cols)
        if bad:
            chk.violation('static_error: negative entry in column %s' % bad[0][0],
                          'static_error(mass=%s, noise=%s, diameter=%s, noise_size=%s): column %s row %d = %r' % (
                              (w['mass'], w['noise'], w['diameter'], w['noise_size']) + bad[0]), dict(kind='static_error', case=w))
        sws.append(w); sterms.append(se_static_term(w, cols))
    sres = common.coq_eval_lists(chk.work, SE_IMPORTS, SE_FUNC, sterms, shard=150, tag='sef')
    for w, r in zip(sws, sres):
        chk.count(('static_error', json.dumps(w, default=str)), len(w['mass']) >= 3)
        if r != 0:
            chk.violation('static_error:%s' % SE_CODES.get(r, 'code %d' % r),
                          'static_error(mass=%s, noise=%s, diameter=%s, noise_size=%s, frames=%s): %s' % (
                              w['mass'], w['noise'], w['diameter'], w['noise_size'], w['frames'], SE_CODES.get(r, r)),
                          dict(kind='static_error', case=w, code=r))
    if sws:
        chk.sample(dict(static_error=sws[0]))
    # measure_noise against the model used by the composed model of locate
    nn = 80 if chk.tier == 'quick' else 1200
    nws, nterms = [], []
    for k in range(nn):
        w = gen_noise_case(rng)
        try:
            t, nbg = run_noise_case(w)
        except Exception as e:
            chk.violation('measure_noise: exception', 'measure_noise raised %r' % e, dict(kind='measure_noise', case=w))
            continue
        chk.tally('measure_noise: %s background pixels' % ('no' if nbg == 0 else 'one' if nbg == 1 else 'several'))
        nws.append((w, nbg)); nterms.append(t)
    nres = common.coq_eval_lists(chk.work, NOISE_IMPORTS, NOISE_FUNC, nterms, shard=100, tag='noise')
    for (w, nbg), r in zip(nws, nres):
        chk.count(('measure_noise', json.dumps(w)), nbg >= 2)
        if r != 0:
            chk.violation('measure_noise:%s' % NOISE_CODES.get(r, 'code %d' % r),
                          'measure_noise(image, raw, %s) on a %s image: %s' % (w['radius'], 'x'.join(str(n) for n in np.array(w['image']).shape), NOISE_CODES.get(r, r)),
                          dict(kind='measure_noise', case=w, code=r))
    for case in cases[:2]:
        cj = case_json(case); cj['image'] = dict(dtype=cj['image']['dtype'], shape=cj['image']['shape'], data='(omitted)')
        chk.sample(cj)
    # where_close directly
    nw = 300 if chk.tier == 'quick' else 6000
    wcs, wterms = [], []
    for k in range(nw):
        w = c08gen.gen_wc(rng, chk.tier)
        if not wc_exact_ok(w):
            chk.tally('where_close: skipped, float/exact margin')
            continue
        try:
            d = run_wc(w)
        except Exception as e:
            chk.violation('where_close: exception', 'where_close raised %r' % e, dict(kind='where_close', case=w))
            continue
        wcs.append((w, d)); wterms.append(wc_term(w, d))
        chk.tally('where_close: dropped something' if d else 'where_close: nothing dropped')
    wres = common.coq_eval_lists(chk.work, IMPORTS, WC_FUNC, wterms, tag='wc')
    for (w, d), r in zip(wcs, wres):
        chk.count(('wc', w), len(w['pts']) >= 3)
        if r != 0:
            chk.violation('where_close: dropped set differs from the model (one of each close pair, the dimmer, ties by coordinate sum then index)',
                          'where_close(%s, %s, %s) dropped %s' % (w['pts'], w['sep'], w['intensity'], d), dict(kind='where_close', case=w, impl_drop=d))
    if wcs:
        chk.sample(dict(where_close=wcs[0][0], dropped=wcs[0][1]))
    chk.coverage['rule'] = (
        "images: uint8/uint16/float noise textures, few-grey-level images, Gaussian blobs (clean, noisy, flat-topped, identical twins), 2-D and 3-D; "
        "diameter 3-9 isotropic or per-axis, separation default/smaller/larger/per-axis/non-integer, percentile 0-99, preprocess on/off, noise_size scalar or per-axis, "
        "threshold, smoothing_size, max_iterations, characterize on/off, engine; unrestricted run with (mostly default) minmass/maxsize, second run with minmass raised "
        "(incl. exactly a returned mass), maxsize lowered (incl. exactly a returned size), topn 1..n+2; corpus of DESIGN section 4 witnesses F2/F3, equal masses at the topn cut, "
        "flat peaks, empty results. where_close: lattice points (integer / quarter pixel), duplicates, 3-4-5 boundary pairs, tied intensities, DataFrame and ndarray input. "
        "static error on all columns: 2-D uint8 images with a bright flat plateau and dim blobs beside it (clean / noisy), dense and sparse noise textures, with "
        "diameter (9,11),(11,9),(5,7),(7,5) or scalar diameter with noise_size (1,1.5),(1.5,1), preprocess on/off, percentile 0/20/64: every ep / ep_<axis> column of both tables checked entry by entry "
        "(sign; names, order and values against Model/StaticError.locate_ep); static_error called directly with masses <0, 0, NaN, inf, -1e-3, scalar / per-frame noise (0, NaN, negative included), "
        "isotropic / anisotropic diameter and noise_size, 2-D and 3-D. "
        "measure_noise directly: 2-D / 3-D uint8 images 4-13 px, signal density 0-50 %, radii 1-3 per axis, raw image different from the processed one (also signed raw frames with negative pixels and their clipped copy as processed image), against Model/LocatePipe.measure_noise (none / one / several background pixels). "
        "topn >= 1 only (topn=0 returns the whole table: Python slice [-0:], outside the property). non-trivial = unrestricted result with >= 3 features / >= 3 points")
    chk.assumptions += [
        "Gen/tail.v is produced from the current trackpy/uncertainty.py and trackpy/feature.py (tail of locate after the refine_com call; batch) by "
        "tools/py2coq_tail.py (trusted, fail-closed; subset, conventions and the list of numpy / scipy / pandas primitives in its docstring and in "
        "Model/PyTail.v); where_close itself (find.py) is a named primitive here (translated for C06: Gen/find.v); locate's head is pinned textually "
        "where it defines the variables the tail reads; batch with output / meta / after_locate at their default None; the pandas / numpy primitives "
        "carry the meaning of the hand-written models (index labels by position after reset_index, concat(axis=1) only for identical indexes, "
        "argsort as the stable insertion sort), each exercised by the correspondence",
        "everything before the tail (bandpass, grey_dilation, refine_com) is taken from trackpy itself by repeating locate's head; 'inside the image' is monitored on outputs, its proof belongs to C07",
        "query_pairs(1 - 1e-7) is modelled as 'rescaled distance < 1'; cases with a pair within 1e-5 of the boundary are excluded from the exact where_close comparison and counted",
        "ep: exact rational formula compared with the float result to 1e-9 relative; rows with |raw_mass - N*black| below 1e-6 of its terms are excluded from the value comparison (sign still monitored)",
        "ep = 0 is accepted when the measured background noise is exactly 0 (exact value of noise/mass*geometry); with positive noise ep must be > 0, +inf or NaN",
        "np.argsort default sort is not stable: rows of equal mass at the topn cut are treated as interchangeable",
        "engine='numba' runs interpreted (numba absent)",
        "np.sqrt in _root_sum_x_squared enters the array model as the table (sum of x^2 over trackpy's own mask -> its float root); the model computes the sums from its own mask model, a different sum finds no table entry and is reported",
        "static_error's 2-D branch indexes N_S[:, np.newaxis]: on a pandas >= 2 Series this raises ValueError (counted, not a C08 violation); that branch is then run with an ndarray mass through a minimal features object, per-frame noise tables cannot be run that way and are counted",
        "'inside the image' for the whole preprocess=False integer pipeline is proved (Properties/C08.v C08_inside_image) for every integer image, negative pixels included (locate clips at zero since 7e846f3; the pipeline without the clip is refuted: C08_inside_without_clip_refuted); on the implementation it is monitored on every output table, the F18 witnesses are corpus cases"]


def replay(chk, path):
    common.quiet_trackpy()
    if not build(chk):
        return
    r = json.load(open(path))['replay']
    if r.get('kind') == 'locate':
        case = case_from_json(r['case'])
        res = run_case(case)
        code = 0
        if res['term'] is not None:
            code = common.coq_eval_lists(chk.work, IMPORTS, FUNC, [res['term']])[0]
        chk.count(('locate', r['case']), True)
        print('replay: locate kw=%s minmass=%r->%r maxsize=%r->%r topn=%r: %s; code %d %s; direct findings: %s' % (
            kw_to_json(case['kw']), case['m0'], case['m1'], case['s0'], case['s1'], case['topn'], res['info'], code,
            CODES.get(code, 'ok' if code == 0 else '?'), [v[0] for v in res['viol']]))
        report(chk, case, res, code)
        if res.get('se_term'):
            sc = common.coq_eval_lists(chk.work, SE_IMPORTS, SE_FUNC, [res['se_term']], tag='se')[0]
            print('replay: ep columns against Model/StaticError.locate_ep: code %d %s' % (sc, SE_CODES.get(sc, 'ok' if sc == 0 else '?')))
            report_se(chk, case, res, sc)
    elif r.get('kind') == 'static_error':
        w = r['case']
        cols, sinfo = run_static_error(w)
        chk.count(('static_error', json.dumps(w, default=str)), True)
        if cols is None:
            print('replay: static_error raised the pandas multi-dimensional indexing error (per-frame noise): nothing to compare')
        else:
            bad = negative_entries(cols)
            sc = common.coq_eval_lists(chk.work, SE_IMPORTS, SE_FUNC, [se_static_term(w, cols)], tag='sef')[0]
            print('replay: static_error columns %s; negative entries %s; model comparison code %d %s' % (
                [(str(c), [float(x) for x in v]) for c, v in cols], bad, sc, SE_CODES.get(sc, 'ok' if sc == 0 else '?')))
            if bad:
                chk.violation('static_error: negative entry in column %s' % bad[0][0], 'column %s row %d = %r' % bad[0], dict(kind='static_error', case=w))
            if sc:
                chk.violation('static_error:%s' % SE_CODES.get(sc, 'code %d' % sc), 'static_error differs from the model', dict(kind='static_error', case=w, code=sc))
    elif r.get('kind') == 'measure_noise':
        w = r['case']
        t, nbg = run_noise_case(w)
        code = common.coq_eval_lists(chk.work, NOISE_IMPORTS, NOISE_FUNC, [t], tag='noise')[0]
        chk.count(('measure_noise', json.dumps(w)), True)
        print('replay: measure_noise, %d background pixels: code %d %s' % (nbg, code, NOISE_CODES.get(code, 'ok' if code == 0 else '?')))
        if code:
            chk.violation('measure_noise:%s' % NOISE_CODES.get(code, 'code %d' % code), 'measure_noise differs from the model', dict(kind='measure_noise', case=w, code=code))
    elif r.get('kind') == 'where_close':
        w = r['case']
        d = run_wc(w)
        code = common.coq_eval_lists(chk.work, IMPORTS, WC_FUNC, [wc_term(w, d)])[0]
        chk.count(('wc', w), True)
        print('replay: where_close dropped', d, 'model agrees' if code == 0 else 'MODEL DIFFERS')
        if code:
            chk.violation('where_close: dropped set differs from the model (one of each close pair, the dimmer, ties by coordinate sum then index)',
                          'where_close dropped %s' % d, dict(kind='where_close', case=w, impl_drop=d))
    else:
        print('replay: nothing executable in this replay file (proof/correspondence breakage): see its log field')
