"""C13 — link_partial re-links a frame range without corrupting labels elsewhere.

Tie (route C).  trackpy.link_partial is run on generated tables (movie +
valid old labelling + link_range + search range for the re-linking).  What
link_iter yields inside link_partial is recorded by wrapping the name
`trackpy.linking.partial.link_iter` (no source change).  Three layers look at
the implementation's own output:

 * Coq, Model/PartialCheck.check_case: the model of link_partial (clamp, copy,
   mask assignment, reconnect_traj_patch) is run on the same table / range /
   recorded in-range ids, its partition is compared with the implementation's
   labels, and the verified monitor (Properties/C13.v, C13_monitor_sound) is run
   on the implementation's labels.
 * a Python transcription of the specification (union-find over the three join
   rules, same-side reading) evaluated on the implementation's labels; it does
   not share code with the model.
 * structural checks: rows/values preserved (tracked by a payload column),
   caller's table untouched, helper column dropped, rows ordered by frame, the
   in-range part of the result equals an independent tp.link of the range.

Tie (route T).  tools/py2coq_partial.py re-translates the CURRENT text of
trackpy/linking/partial.py (reconnect_traj_patch, link_partial) into
coq/Gen/partial.v before the proofs are built; Proofs/Partial2.v proves the
generated functions equal to the hand-written model and re-proves the C13
theorems for them (Properties/C13.v, C13_gen_*).  A source that leaves the
translatable subset, or whose translation no longer satisfies those proofs, is
reported through chk.proof_broken; the correspondence run below still takes
place, so a concrete failing input is searched for as well.
"""
import json, itertools, os, sys, hashlib
import numpy as np
import common
from common import cZ, cnat, clist, cbool

IMPORTS = "From TP Require Import Model.Partial Model.PartialCheck."
FUNC = ("fun c => match c with (tin, lr, order, ids, lab, raised) => "
        "check_case tin lr order ids lab raised end")
CODES = {0: 'ok', 1: 'implementation returned for an empty table', 2: 'output rows are not a permutation of the input rows',
         3: 'output rows are not ordered by frame',
         4: 'implementation returned although the model raises (range does not meet the table / start >= stop)',
         5: 'implementation raised although the model returns',
         6: 'frames handed to link_iter differ from range(start, stop) clamped to the table',
         7: 'wrong number of labels', 8: 'in-range ids do not fit the rows of their frame',
         9: 'a label occurs twice within one frame',
         10: 'grouping of rows differs from the model of link_partial (labels joined/separated wrongly)',
         11: 'verified monitor rejects the labels (specification violated)',
         20: 'hypotheses not met (nothing claimed)'}


TRANSLATOR = os.path.join(common.VERIF, 'tools', 'py2coq_partial.py')
GEN = os.path.join(common.COQ, 'Gen', 'partial.v')


# ----------------------------------------------------------------------------
# translator / build
# ----------------------------------------------------------------------------
def regenerate(chk):
    """re-run the translator on the current source; returns (ok, text-or-log)"""
    rc, out = common.sh([sys.executable, TRANSLATOR, '--repo', common.REPO, '--stdout'], timeout=60)
    if rc != 0:
        return False, out
    with common.Lock(os.path.join(common.COQ, '.build.lock')):
        old = open(GEN).read() if os.path.exists(GEN) else None
        if old != out:
            os.makedirs(os.path.dirname(GEN), exist_ok=True)
            tmp = GEN + '.tmp%d' % os.getpid()
            with open(tmp, 'w') as f:
                f.write(out)
            os.replace(tmp, GEN)
            chk.tally('Gen/partial.v rewritten (source differs from last run)')
        else:
            chk.tally('Gen/partial.v unchanged')
    return True, out


def ensure_model(chk):
    """Model/PartialCheck.vo (hand-written model + monitor, executable) is needed by the correspondence
    run even when the translation or a proof about the generated functions is broken"""
    def fresh(v):
        vo = os.path.join(common.COQ, v + 'o')
        return os.path.exists(vo) and os.path.getmtime(vo) >= os.path.getmtime(os.path.join(common.COQ, v))
    files = ('Model/Partial.v', 'Model/PartialCheck.v')
    if all(fresh(v) for v in files):
        return True
    with common.Lock(os.path.join(common.COQ, '.build.lock')):
        for v in files:
            rc, out = common.sh('timeout 300 coqc -Q . TP %s' % v, timeout=330, cwd=common.COQ)
            if rc != 0:
                chk.proof_broken(v, out)
                return False
    return True


def build(chk):
    """translator -> cone of Properties/C13.v; returns True when the executable model is available"""
    ok, text = regenerate(chk)
    if not ok:
        chk.proof_broken('translation tools/py2coq_partial.py (trackpy/linking/partial.py left the translatable subset)', text)
        chk.build = dict(obligations=0, discharged=0, assumptions=[], files=[], theorems=[])
    else:
        for attempt in range(3):
            b = chk.coq()
            if open(GEN).read() == text:
                break
            # another run (different TRACKPY_REPO) rewrote the generated file in between: redo
            chk.violations = [v for v in chk.violations if not v[0].startswith('proof:')]
            regenerate(chk)
        chk.notes.append('Gen/partial.v sha1 %s generated from %s' % (hashlib.sha1(text.encode()).hexdigest()[:12], common.REPO))
        if not b['ok']:
            # say which statement about the generated functions no longer checks
            with common.Lock(os.path.join(common.COQ, '.build.lock')):
                rc, out = common.sh('timeout 600 make Proofs/Partial2.vo 2>&1 | tail -25', timeout=630, cwd=common.COQ)
            chk.notes.append('make Proofs/Partial2.vo (generated functions = model): ' + out[-2500:])
    return ensure_model(chk)


# ----------------------------------------------------------------------------
# generators
# ----------------------------------------------------------------------------
def gen_movie(rng, nframes, dense=False):
    """list (per frame) of lists of (y, x) floats: random walkers with births and deaths"""
    box = rng.choice([8.0, 15.0, 30.0]) if not dense else 6.0
    step = rng.choice([0.5, 1.0, 2.0, 3.0])
    parts = [[rng.uniform(0, box), rng.uniform(0, box)] for _ in range(rng.randint(1, 5))]
    alive = [True] * len(parts)
    p_die = rng.choice([0.0, 0.1, 0.25])
    p_born = rng.choice([0.0, 0.3, 0.5])
    p_blink = rng.choice([0.0, 0.0, 0.15])
    frames = []
    for t in range(nframes):
        if t > 0:
            for k, p in enumerate(parts):
                if alive[k]:
                    if rng.random() < 0.1:      # a jump: breaks links for small search ranges
                        p[0] += rng.uniform(-4 * step, 4 * step); p[1] += rng.uniform(-4 * step, 4 * step)
                    else:
                        p[0] += rng.uniform(-step, step); p[1] += rng.uniform(-step, step)
                    if rng.random() < p_die:
                        alive[k] = False
            if rng.random() < p_born and len(parts) < 8:
                parts.append([rng.uniform(0, box), rng.uniform(0, box)]); alive.append(True)
        vis = [list(p) for k, p in enumerate(parts) if alive[k] and rng.random() >= p_blink]
        if rng.random() < 0.08:
            vis = []
        frames.append(vis)
    if not any(frames):
        frames[0] = [[1.0, 1.0]]
    return frames


def random_valid_labelling(rng, counts):
    """arbitrary valid history: tracks on consecutive frames, unique per frame"""
    labs, nxt, prev = [], 0, []
    for n in counts:
        pool = list(prev)
        rng.shuffle(pool)
        cur = []
        for _ in range(n):
            if pool and rng.random() < 0.7:
                cur.append(pool.pop())
            else:
                cur.append(nxt); nxt += 1
        rng.shuffle(cur)
        labs.append(cur); prev = cur
    return labs


def rename_ids(rng, labs):
    ids = sorted(set(x for l in labs for x in l))
    mode = rng.choice(['id', 'shuffle', 'offset', 'sparse', 'low'])
    if mode == 'id':
        m = {i: i for i in ids}
    elif mode == 'shuffle':
        tgt = list(ids); rng.shuffle(tgt); m = dict(zip(ids, tgt))
    elif mode == 'offset':
        o = rng.choice([1, 2, 3, 100]); m = {i: i + o for i in ids}
    elif mode == 'sparse':
        tgt = rng.sample(range(0, 3 * len(ids) + 3), len(ids)); m = dict(zip(ids, tgt))
    else:
        tgt = rng.sample(range(0, len(ids) + 2), len(ids)); m = dict(zip(ids, tgt))
    return [[m[x] for x in l] for l in labs]


def link_labelling(frames, frame_nos, sr):
    """old labels from trackpy.link without memory"""
    import pandas as pd, trackpy as tp
    rows = [(t, p[0], p[1], k) for t, fr in zip(frame_nos, frames) for k, p in enumerate(fr)]
    df = pd.DataFrame(rows, columns=['frame', 'y', 'x', 'k'])
    out = tp.link(df, sr)
    labs = [[None] * len(fr) for fr in frames]
    pos = {t: i for i, t in enumerate(frame_nos)}
    for t, k, p in zip(out['frame'], out['k'], out['particle']):
        labs[pos[int(t)]][int(k)] = int(p)
    return labs


def gen_case(rng, tier):
    nframes = rng.choice([1, 2, 3, 4, 5, 6, 7, 5, 6, 7] + ([8, 9] if tier != 'quick' else []))
    frames = gen_movie(rng, nframes, dense=rng.random() < 0.3)
    t0 = rng.choice([0, 0, 0, 1, 5, -3])
    frame_nos = list(range(t0, t0 + nframes))
    sr_old = rng.choice([0.7, 1.5, 3.0, 6.0])
    how = rng.choice(['link', 'link', 'random-valid'])
    if how == 'link':
        labs = link_labelling(frames, frame_nos, sr_old)
    else:
        labs = random_valid_labelling(rng, [len(f) for f in frames])
    labs = rename_ids(rng, labs)
    valid = True
    bad = rng.random()
    if bad < 0.04:
        valid = False; how += '+invalid'
        flat = [(i, k) for i, l in enumerate(labs) for k in range(len(l))]
        i, k = rng.choice(flat)
        kind = rng.choice(['dup', 'gap', 'neg'])
        if kind == 'dup' and len(labs[i]) > 1:
            labs[i][k] = labs[i][(k + 1) % len(labs[i])]
        elif kind == 'gap' and i + 2 < len(labs) and labs[i + 2]:
            labs[i + 2][0] = labs[i][k]
        else:
            labs[i][k] = -1
    a = rng.randint(t0 - 1, t0 + max(0, nframes - 2))
    b = a + rng.choice([1, 2, 2, 3, 3, 4, 5, 12])
    u = rng.random()
    if u < 0.02:
        b = a - rng.choice([0, 1])                  # start >= stop
    elif u < 0.04:
        a = t0 + nframes + rng.choice([0, 2]); b = a + 2      # beyond the table
    elif u < 0.06:
        b = t0 - rng.choice([0, 1]); a = b - 2               # before the table
    sr_new = rng.choice([0.7, 1.5, 3.0, 6.0, 12.0])
    if rng.random() < 0.25:
        # per-dimension range (y, x) with unequal power-of-two entries: pre-dividing the coordinates is then exact, and the
        # links inside the range are judged against linking the pre-divided rows with the scalar range 1
        a0 = rng.choice([0.5, 1.0, 2.0, 4.0, 8.0])
        sr_new = (a0, rng.choice([v for v in [0.5, 1.0, 2.0, 4.0, 8.0, 16.0] if v != a0]))
    memory = rng.choice([0, 0, 0, 0, 1])
    c = dict(frame_nos=frame_nos, frames=frames, labels=labs, link_range=[a, b], search_range=sr_new, memory=memory,
             how=how, valid=valid, sr_old=sr_old)
    decorate(rng, c)
    return c


def decorate(rng, c):
    n = sum(len(f) for f in c['frames'])
    perm = list(range(n))
    if rng.random() < 0.7:
        rng.shuffle(perm)
    c['row_order'] = perm
    c['index'] = rng.choice(['range', 'shuffled', 'duplicate', 'offset', 'str'])
    c['index_seed'] = rng.randint(0, 10 ** 6)


def build_table(c):
    import pandas as pd
    rows = []
    for t, fr, ls in zip(c['frame_nos'], c['frames'], c['labels']):
        for p, l in zip(fr, ls):
            rows.append((p[1], p[0], int(l), int(t)))
    rows = [rows[i] for i in c.get('row_order', range(len(rows)))]
    df = pd.DataFrame(rows, columns=['x', 'y', 'particle', 'frame'])
    df['x'] = df['x'].astype(float); df['y'] = df['y'].astype(float)
    df['particle'] = df['particle'].astype(np.int64); df['frame'] = df['frame'].astype(np.int64)
    n = len(df)
    df['rid'] = np.arange(n)
    df['mass'] = [100.0 + 0.5 * i for i in range(n)]
    r = np.random.RandomState(c.get('index_seed', 0))
    kind = c.get('index', 'range')
    if kind == 'shuffled':
        df.index = r.permutation(n)
    elif kind == 'duplicate' and n:
        df.index = r.randint(0, max(1, n // 2), n)
    elif kind == 'offset':
        df.index = np.arange(n) + 1000
    elif kind == 'str':
        df.index = ['r%d' % i for i in r.permutation(n)]
    return df


# ----------------------------------------------------------------------------
# implementation
# ----------------------------------------------------------------------------
def run_impl(df, c):
    import trackpy as tp
    import trackpy.linking.partial as P
    rec = []
    orig = P.link_iter

    def wrap(coords_iter, search_range, **kw):
        for i, ids in orig(coords_iter, search_range, **kw):
            rec.append((int(i), [int(x) for x in ids]))
            yield i, ids
    P.link_iter = wrap
    kw = {}
    if c.get('memory'):
        kw['memory'] = c['memory']
    try:
        try:
            out = tp.link_partial(df, c['search_range'], tuple(c['link_range']), **kw)
            return dict(raised=None, out=out, rec=rec)
        except Exception as e:
            return dict(raised='%s: %s' % (type(e).__name__, e), out=None, rec=rec)
    finally:
        P.link_iter = orig


def independent_range_partition(df, c, s, e):
    """partition (by rid) of the rows of frames s..e-1 under a fresh tp.link of just those rows"""
    import trackpy as tp
    sub = df[(df['frame'] >= s) & (df['frame'] < e)].drop(columns=['particle'])
    if len(sub) == 0:
        return set()
    kw = {}
    if c.get('memory'):
        kw['memory'] = c['memory']
    sr = c['search_range']
    if isinstance(sr, (tuple, list)):
        # a per-dimension range is exactly a rescaling (C03_rescale_in_range): link the pre-divided rows with range 1, a
        # path through the linker that never sees the tuple
        sub = sub.copy()
        for col, r in zip(['y', 'x'], sr):
            sub[col] = sub[col] / float(r)
        sr = 1.0
    o = tp.link(sub, sr, **kw)
    return partition(dict(zip(o['rid'].tolist(), o['particle'].tolist())))


def partition(d):
    g = {}
    for k, v in d.items():
        g.setdefault(v, []).append(k)
    return set(frozenset(x) for x in g.values())


# ----------------------------------------------------------------------------
# Python transcription of the specification (independent of the Coq model)
# ----------------------------------------------------------------------------
def spec_classes(rows, s, e):
    """rows: list of (rid, frame, old, new); returns the partition demanded by the three join rules"""
    parent = {r[0]: r[0] for r in rows}

    def find(x):
        while parent[x] != x:
            parent[x] = parent[parent[x]]; x = parent[x]
        return x

    def union(x, y):
        parent[find(x)] = find(y)
    for r1, r2 in itertools.combinations(rows, 2):
        for (i1, f1, o1, n1), (i2, f2, o2, n2) in ((r1, r2), (r2, r1)):
            before1, before2 = f1 < s, f2 < s
            after1, after2 = f1 >= e, f2 >= e
            in1, in2 = s <= f1 < e, s <= f2 < e
            if before1 and before2 and o1 == o2: union(i1, i2)
            if after1 and after2 and o1 == o2: union(i1, i2)
            if in1 and in2 and n1 == n2: union(i1, i2)
            if f1 == s and before2 and o1 == o2: union(i1, i2)
            if f1 == e - 1 and after2 and o1 == o2: union(i1, i2)
    return partition({i: find(i) for i in parent})


def old_valid(rows):
    byid = {}
    for rid, f, o in rows:
        if o < 0:
            return False
        byid.setdefault(o, []).append(f)
    for o, fs in byid.items():
        if len(set(fs)) != len(fs) or max(fs) - min(fs) + 1 != len(fs):
            return False
    return True


# ----------------------------------------------------------------------------
# one case through all layers
# ----------------------------------------------------------------------------
def jsonable(c):
    return {k: c[k] for k in ('frame_nos', 'frames', 'labels', 'link_range', 'search_range', 'memory', 'how', 'valid',
                              'row_order', 'index', 'index_seed') if k in c}


def observe(c):
    """run the implementation; python-side checks; returns (coq term or None, list of (signature, text))"""
    df = build_table(c)
    before = df.copy(deep=True)
    r = run_impl(df, c)
    problems = []
    tin = list(zip(df['frame'].tolist(), df['particle'].tolist()))
    n = len(df)
    if not before.equals(df) or list(before.index) != list(df.index) or list(before.columns) != list(df.columns):
        problems.append(('link_partial: caller table modified', 'the table passed to link_partial was modified'))
    a, b = c['link_range']
    lo, hi = (min(t for t, _ in tin), max(t for t, _ in tin) + 1) if n else (0, 0)
    s, e = max(a, lo), min(b, hi)
    info = dict(n=n, s=s, e=e, lo=lo, hi=hi, raised=r['raised'])
    if r['raised'] is not None:
        order = sorted(range(n), key=lambda k: tin[k][0])
        ids = [(i, list(range(sum(1 for t, _ in tin if t == i)))) for i in range(s, e)] if n else []
        lab = []
    else:
        out = r['out']
        order = [int(x) for x in out['rid'].tolist()] if 'rid' in out else []
        lab = [int(x) for x in out['particle'].tolist()] if 'particle' in out else []
        ids = r['rec']
        info['out_labels'] = lab; info['out_order'] = order
        # rows and values preserved, helper column dropped
        if sorted(out.columns) != sorted(df.columns):
            problems.append(('link_partial: columns changed', 'columns of the result are %s, expected %s' % (list(out.columns), list(df.columns))))
        elif sorted(order) != list(range(n)):
            problems.append(('link_partial: rows lost or duplicated', 'result rows are not the input rows'))
        else:
            o2 = out.set_index('rid', drop=False).loc[list(range(n))]
            for col in ('x', 'y', 'frame', 'mass'):
                if o2[col].tolist() != df[col].tolist():
                    problems.append(('link_partial: values changed', 'column %s of the result differs from the input' % col))
            if [str(v) for v in o2.index.tolist()] != [str(v) for v in range(n)]:
                pass
            # index labels travel with their rows
            idx_in = dict(zip(df['rid'].tolist(), [str(v) for v in df.index.tolist()]))
            idx_out = dict(zip(out['rid'].tolist(), [str(v) for v in out.index.tolist()]))
            if idx_in != idx_out:
                problems.append(('link_partial: index changed', 'index labels do not stay with their rows'))
            fr = out['frame'].tolist()
            # rows before the range keep their label; python oracle
            newid = {}
            pos_by_frame = {}
            for k, rid in enumerate(order):
                pos_by_frame.setdefault(tin[rid][0], []).append(rid)
            okshape = [i for i, _ in ids] == list(range(s, e))
            for i, idl in ids:
                rs = pos_by_frame.get(i, [])
                if len(rs) != len(idl):
                    okshape = False
                for rid, x in zip(rs, idl):
                    newid[rid] = x
            info['new_ids'] = [newid.get(k) for k in range(n)]
            final = dict(zip(order, lab))
            if okshape and c['valid'] and old_valid([(k, tin[k][0], tin[k][1]) for k in range(n)]) and s < e:
                rows = [(k, tin[k][0], tin[k][1], newid.get(k)) for k in range(n)]
                want = spec_classes(rows, s, e)
                got = partition(final)
                if want != got:
                    problems.append(('python-oracle: label classes differ from the join rules',
                                     'rows sharing a label are not exactly the rows joined by old labels outside / new links inside / crossing the range ends; expected classes %s, got %s'
                                     % (sorted(sorted(x) for x in want), sorted(sorted(x) for x in got))))
                for k1, k2 in itertools.combinations(range(n), 2):
                    if tin[k1][0] == tin[k2][0] and final[k1] == final[k2]:
                        problems.append(('python-oracle: duplicate label in a frame', 'rows %d and %d of frame %d both carry label %d' % (k1, k2, tin[k1][0], final[k1])))
                        break
                for k in range(n):
                    if tin[k][0] < s and final[k] != tin[k][1]:
                        problems.append(('python-oracle: label before the range changed', 'row %d (frame %d) had label %d, now %d' % (k, tin[k][0], tin[k][1], final[k])))
                        break
                # in-range result equals an independent linking of the range
                if s < e:
                    ind = independent_range_partition(df, c, s, e)
                    mine = partition({k: final[k] for k in range(n) if s <= tin[k][0] < e})
                    if ind != mine:
                        problems.append(('link_partial: in-range grouping differs from tp.link of the range',
                                         'rows of frames %d..%d are grouped %s, an independent tp.link of these rows gives %s'
                                         % (s, e - 1, sorted(sorted(x) for x in mine), sorted(sorted(x) for x in ind))))
    term = "(%s, (%s, %s), %s, %s, %s, %s)" % (
        clist(["(%s, %s)" % (cZ(t), cZ(p)) for t, p in tin]), cZ(a), cZ(b),
        clist([cnat(k) for k in order]),
        clist(["(%s, %s)" % (cZ(i), clist([cZ(x) for x in idl])) for i, idl in ids]),
        clist([cZ(x) for x in lab]), cbool(r['raised'] is not None))
    return term, problems, info


SIG_EMPTY_FRAME = 'link_partial: TypeError when the range contains an empty frame (mask assignment of [] into int64 column)'
EXPECTED_RAISE = ('AssertionError', 'RuntimeError', 'ValueError: cannot convert float NaN')


def judge(chk, c, code, problems, info):
    rep = dict(kind='case', case=jsonable(c), observed=info)
    for sig, text in problems:
        chk.violation(sig, 'link_partial(search_range=%s, link_range=%s): %s' % (c['search_range'], tuple(c['link_range']), text), rep)
    if code == 20:
        if c['valid']:
            chk.violation('harness: hypotheses fail on a case generated as valid',
                          'valid old labelling / in-range ids rejected by hyps_ok (in-range ids from link_iter not unique per frame?)', rep)
        else:
            chk.tally('old labelling invalid: nothing claimed')
    elif code != 0:
        if not c['valid'] and code in (4, 5):
            chk.tally('old labelling invalid: raise/return mismatch ignored')
            return
        chk.violation('link_partial: ' + CODES.get(code, str(code)),
                      'link_partial(search_range=%s, link_range=%s): %s' % (c['search_range'], tuple(c['link_range']), CODES.get(code, code)),
                      dict(rep, code=code))


def tally_case(chk, c, info):
    chk.tally('old labels: ' + c['how'])
    if info['raised'] is not None:
        chk.tally('raised: ' + info['raised'].split(':')[0])
        return False
    lo, hi, s, e = info['lo'], info['hi'], info['s'], info['e']
    if s == lo and e == hi:
        chk.tally('range covers the whole table (no reconnect)')
        return False
    chk.tally('rows before range' if s > lo else 'no rows before range')
    chk.tally('rows after range' if e < hi else 'no rows after range')
    if e - s == 1:
        chk.tally('single-frame range')
    fr = set(c['frame_nos'][i] for i, f in enumerate(c['frames']) if f)
    if any(i not in fr for i in range(s, e)):
        chk.tally('empty frame inside range')
    if c.get('memory'):
        chk.tally('memory>0 inside range')
    labs = info.get('out_labels')
    olds = set(x for l in c['labels'] for x in l)
    nid = info.get('new_ids')
    if nid is not None and labs is not None:
        tin = [(t, l) for t, ls in zip(c['frame_nos'], c['labels']) for l in ls]
        tin = [tin[i] for i in c.get('row_order', range(len(tin)))]
        first_new = set(nid[k] for k in range(len(tin)) if tin[k][0] == s)
        first_old = set(tin[k][1] for k in range(len(tin)) if tin[k][0] == s)
        last = [k for k in range(len(tin)) if tin[k][0] == e - 1]
        if any(nid[k] not in first_new and tin[k][1] in first_old for k in last):
            chk.tally('branch: track born in range ends on a claimed old id (reborn)')
        if any(nid[k] not in first_new and tin[k][1] not in first_old for k in last):
            chk.tally('branch: track born in range takes over the old id after the range')
        if any(nid[k] in first_new for k in last):
            chk.tally('branch: track spans the range')
        final = dict(zip(info['out_order'], labs))
        if any(tin[k][0] >= e and final[k] != tin[k][1] for k in range(len(tin))):
            chk.tally('rows after the range renamed')
    if labs is not None and any(x not in olds for x in labs):
        chk.tally('fresh id issued')
    return True


# ----------------------------------------------------------------------------
# corpus and exhaustive universe
# ----------------------------------------------------------------------------
def mk(frames_xy, labels, lr, sr, t0=0, **kw):
    c = dict(frame_nos=list(range(t0, t0 + len(frames_xy))), frames=[[[0.0, float(x)] if not isinstance(x, (list, tuple)) else [float(x[1]), float(x[0])] for x in f] for f in frames_xy],
             labels=labels, link_range=list(lr), search_range=sr, memory=0, how='corpus', valid=True)
    c.update(kw)
    return c


def corpus():
    cs = []
    # F4: a track created in the patch ends on an old id that is already claimed at the first frame
    cs.append(mk([[0], [0], [0], [10, 0.1], [10, 0.1], [10, 0.1]], [[5], [5], [5], [5, 7], [5, 7], [5, 7]], (1, 5), 2))
    # F5: old track 0 only at the first frames of the range; a fresh id must not be 0
    cs.append(mk([[0], [0, 20], [0, 20.5, 40], [0], [0]], [[1], [1, 0], [1, 0, 2], [1], [1]], (1, 4), 2))
    # documented example (x, y) and its (1, 3) variant that swaps two spanning tracks
    doc = [[(5, 0)], [(10, 0), (10, 2)], [(15, 0), (14, 4)], [(20, 0), (19, 6)]]
    dl = [[5], [5, 8], [8, 5], [8, 5]]
    cs.append(mk(doc, dl, (1, 2), 20.0))
    cs.append(mk(doc, dl, (1, 3), 20.0))
    cs.append(mk(doc, dl, (0, 100), 20.0))
    cs.append(mk(doc, dl, (-5, 2), 20.0))
    cs.append(mk(doc, dl, (2, 9), 20.0))
    cs.append(mk(doc, dl, (3, 4), 0.5))
    cs.append(mk(doc, dl, (10, 12), 20.0))       # range outside the table: raises
    cs.append(mk(doc, dl, (2, 2), 20.0))         # start == stop: raises
    # empty frame inside the range
    cs.append(mk([[0, 10], [0, 10], [], [0, 10], [0, 10]], [[5, 6], [5, 6], [], [8, 9], [8, 9]], (1, 4), 3))
    cs.append(mk([[0, 10], [0, 10], [], [], [0, 10]], [[5, 6], [5, 6], [], [], [8, 9]], (0, 3), 3))
    # range ends on an empty frame / starts on one
    cs.append(mk([[0], [0], [], [0], [0]], [[0], [0], [], [1], [1]], (1, 3), 3))
    cs.append(mk([[0], [0], [], [0], [0]], [[0], [0], [], [1], [1]], (2, 4), 3))
    # all small ids taken: fresh ids must skip them; smaller search range breaks every link
    cs.append(mk([[0, 10, 20]] * 5, [[0, 1, 2]] * 5, (1, 4), 3))
    cs.append(mk([[0, 10, 20], [3, 13, 23], [6, 16, 26], [9, 19, 29], [12, 22, 32]], [[0, 1, 2]] * 5, (1, 4), 1.0))
    cs.append(mk([[0, 10, 20], [3, 13, 23], [6, 16, 26], [9, 19, 29], [12, 22, 32]], [[2, 0, 1]] * 5, (2, 3), 1.0))
    # tracks swapped by the relinking across the range
    cs.append(mk([[0, 4], [1, 3], [2, 2.2], [3, 1], [4, 0]], [[1, 2], [1, 2], [1, 2], [1, 2], [1, 2]], (1, 4), 1.3))
    cs.append(mk([[0, 4], [1, 3], [3, 1], [4, 0]], [[7, 3], [7, 3], [3, 7], [3, 7]], (1, 3), 5))
    # single row, single frame
    cs.append(mk([[1]], [[4]], (0, 1), 1))
    cs.append(mk([[1], [1]], [[4], [4]], (1, 2), 1))
    cs.append(mk([[1], [1]], [[4], [4]], (0, 1), 1))
    for c in cs:
        c.setdefault('row_order', list(range(sum(len(f) for f in c['frames']))))
        c.setdefault('index', 'range'); c.setdefault('index_seed', 0)
    return cs


def matchings(n1, n2):
    """all partial injections from n1 sources to n2 destinations: list of tuples dest -> source or None"""
    res = []
    for k in range(0, min(n1, n2) + 1):
        for dsts in itertools.combinations(range(n2), k):
            for srcs in itertools.permutations(range(n1), k):
                m = [None] * n2
                for d, s_ in zip(dsts, srcs):
                    m[d] = s_
                res.append(tuple(m))
    return res


def exhaustive(maxf=4, maxr=2):
    """all tables with <= maxf frames, <= maxr rows per frame, every valid old labelling, every range, 3 geometries"""
    for nf in range(1, maxf + 1):
        for counts in itertools.product(range(0, maxr + 1), repeat=nf):
            if counts[0] == 0 or counts[-1] == 0:
                continue
            steps = [matchings(counts[i], counts[i + 1]) for i in range(nf - 1)]
            for ms in itertools.product(*steps):
                labs, nxt = [], 0
                prev = []
                for i, n in enumerate(counts):
                    cur = []
                    for d in range(n):
                        src = ms[i - 1][d] if i > 0 else None
                        if src is None:
                            cur.append(nxt); nxt += 1
                        else:
                            cur.append(prev[src])
                    labs.append(cur); prev = cur
                for a in range(0, nf):
                    for b in range(a + 1, nf + 1):
                        for geo in range(3):
                            yield counts, labs, (a, b), geo


def exhaustive_case(counts, labs, lr, geo):
    frames = []
    for t, n in enumerate(counts):
        if geo == 0:
            xs = [10.0 * k + 0.1 * t for k in range(n)]
        elif geo == 1:
            xs = [10.0 * ((k + t) % 2) + 0.1 * t + 0.01 * k for k in range(n)]
        else:
            xs = [1.0 * k + 0.3 * t for k in range(n)]
        frames.append(xs)
    c = mk(frames, [list(l) for l in labs], lr, 5.0, how='exhaustive')
    c['row_order'] = list(range(sum(counts))); c['index'] = 'range'; c['index_seed'] = 0
    return c


# ----------------------------------------------------------------------------
def run_cases(chk, cases, tag):
    terms, keep = [], []
    for c in cases:
        try:
            term, problems, info = observe(c)
        except Exception as ex:     # the harness itself must not die on one case
            import traceback
            chk.violation('harness: exception while observing a case', 'harness exception %r' % (ex,),
                          dict(kind='case', case=jsonable(c), traceback=traceback.format_exc()))
            continue
        if info['raised'] is not None and not info['raised'].startswith(EXPECTED_RAISE):
            if c['valid']:
                present = set(t for t, f in zip(c['frame_nos'], c['frames']) if f)
                gap = any(i not in present for i in range(info['s'], info['e']))
                if gap and info['raised'].startswith("TypeError: Invalid value '[]'"):
                    sig = SIG_EMPTY_FRAME
                else:
                    sig = 'link_partial: unexpected exception'
                chk.tally('raised: ' + info['raised'].split(':')[0])
                chk.count((tag, json.dumps(jsonable(c), sort_keys=True)), False)
                chk.violation(sig, 'link_partial(search_range=%s, link_range=%s) raised %s' % (c['search_range'], tuple(c['link_range']), info['raised']),
                              dict(kind='case', case=jsonable(c), observed=info))
                continue
        terms.append(term); keep.append((c, problems, info))
    res = common.coq_eval_lists(chk.work, IMPORTS, FUNC, terms, tag=tag)
    for (c, problems, info), code in zip(keep, res):
        nontrivial = tally_case(chk, c, info) and info['n'] >= 4
        chk.count((tag, json.dumps(jsonable(c), sort_keys=True)), nontrivial)
        judge(chk, c, code, problems, info)
    return keep


def run(chk):
    common.quiet_trackpy()
    if not build(chk):
        return          # not even the hand-written model builds: reported, nothing can be executed
    rng = chk.rng
    keep = run_cases(chk, corpus(), 'corpus')
    n = 600 if chk.tier == 'quick' else 6000
    cases = [gen_case(rng, chk.tier) for _ in range(n)]
    keep2 = run_cases(chk, cases, 'random')
    # exhaustive small universe, subsampled deterministically
    uni = exhaustive(3, 2) if chk.tier == 'quick' else exhaustive(4, 2)
    stride = 9 if chk.tier == 'quick' else 5
    off = rng.randrange(stride)
    ex = [exhaustive_case(*u) for k, u in enumerate(uni) if k % stride == off]
    chk.tally('exhaustive universe cases run', len(ex))
    run_cases(chk, ex, 'exhaustive')
    for c, _, info in (keep[:2] + keep2[:2]):
        chk.sample(dict(case=jsonable(c), observed=info))
    chk.coverage['rule'] = (
        "corpus (DESIGN 4 F4/F5 witnesses, documented example, empty frames in/at the ends of the range, ranges beyond the table, "
        "single rows) + random movies (1-9 frames, births/deaths/jumps/blank frames; old labels from tp.link with another search range or "
        "an arbitrary valid history, ids renamed/sparse/low; shuffled rows, odd indexes; 4%% invalid old labellings are only tallied) + "
        "a deterministic 1/%d sample of the exhaustive universe (<= %d frames x <= 2 rows, every valid old labelling, every range, 3 geometries). "
        "non-trivial = partial range (reconnect executed) on a table with >= 4 rows; distinct by content" % (stride, 3 if chk.tier == 'quick' else 4))
    chk.assumptions += [
        "Gen/partial.v is produced from the current trackpy/linking/partial.py by tools/py2coq_partial.py (trusted, fail-closed; subset, conventions and the list of pandas / itertools "
        "primitives in its docstring and in Model/PyPartial.v); the C13_gen_* theorems are about that text; the iteration order of the Python set `remaining` is a parameter and the "
        "theorems hold for every order; dropped as not touching labels: guess_pos_columns / validate_tuple / the memory warning / the astype(np.integer) coercion",
        "the in-range linking (link_iter, C01/C02) is taken as an arbitrary labelling that is unique per frame; its ids are the ones recorded from the run",
        "pandas: sort_values gives some frame-ordered permutation (stability not relied on), boolean-mask assignment in row order, Series.replace(dict) simultaneous",
        "old labels are int64 >= 0 (float/NaN label columns are outside the model); frames are integers (astype(np.integer) on float frames raises under numpy 2 and is not exercised)",
        "link_range entries are integers (None raises TypeError at 'assert start < stop' and is not exercised)",
        "independent tp.link of the range is compared on generic float positions (no exact cost ties)"]


def replay(chk, path):
    common.quiet_trackpy()
    if not build(chk):
        return
    r = json.load(open(path))['replay']
    if r.get('kind') != 'case':
        print('replay: nothing executable in this replay file (proof/correspondence breakage): see its log field')
        return
    c = r['case']
    if isinstance(c.get('search_range'), list):
        c['search_range'] = tuple(c['search_range'])
    term, problems, info = observe(c)
    res = common.coq_eval_lists(chk.work, IMPORTS, FUNC, [term])
    print('replay: table\n', build_table(c).to_string())
    print('replay: link_range', c['link_range'], 'search_range', c['search_range'], 'effective range', (info['s'], info['e']))
    print('replay: implementation raised' if info['raised'] else 'replay: implementation labels (output order %s): %s' % (info.get('out_order'), info.get('out_labels')))
    print('replay: model/monitor code', res[0], CODES.get(res[0]), '; python-side findings:', [p[0] for p in problems])
    chk.count(('replay', json.dumps(jsonable(c), sort_keys=True)), True)
    judge(chk, c, res[0], problems, info)
