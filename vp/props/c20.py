"""C20 -- trajectory filters are exact; every stage accepts the previous stage's table.

Part (a), filters.  Random / malformed trajectory tables, oddly ordered and oddly
indexed, go through trackpy.filter_stubs / filter_clusters.  Three things are
compared: the kept row ids with the Coq model Model/TrajFilter.v (pandas
groupby-filter algorithm, proved equal to the declarative selection in
Properties/C20.v), the kept row ids with the property evaluated directly in
Python (monitor), and every value / the index / the caller's table (monitor).

Part (b), composition.  Pipelines of producers (link, link_partial, filter_stubs,
filter_clusters, subtract_drift) are run on real pandas tables -- exhaustively up
to depth 2 (quick) / 3 (thorough) from default-indexed tables, plus pipelines
from oddly indexed and column-deficient start tables -- and the result is handed
to every consumer.  Compared with the Coq layout model Model/TrajLayout.v:
accept / ambiguity-ValueError / KeyError, index level names, columns.  Monitor:
every consumer gives the same outcome and the same numbers on the pipeline's
table and on the same data in a plain default-indexed table, and no stage
touches its caller's table.

Part (c), column dtypes.  Parts (a) and (b) only use float64 measurement columns
(what locate / batch produce).  Here walkers on the integer pixel grid are stored
with integer-typed position columns (int64 / int32 / mixed widths, one coordinate integer
and the other float, integer size and mass), under several index layouts, and go
through the same pipelines and consumers -- plus subtract_drift with an explicitly
given non-integral drift table.  Every stage must treat the table exactly like its
float64 twin (same values, same index, the integer measurement columns cast to
float64): same accept / raise outcome, same numbers.  A stage that writes its
(generally non-integral) result INTO an existing integer column, truncates, wraps
or refuses it is reported.  Tables whose drift is integral in every frame (all
walkers move rigidly) are generated and tallied as well.

Route T.  tools/py2coq_filtering.py re-translates the CURRENT text of
trackpy/filtering.py (filter_stubs, filter_clusters, filter, bust_ghosts,
bust_clusters) and of pandas_sort / guess_pos_columns in trackpy/utils.py into
coq/Gen/filtering.v before the proofs are built (pandas operations stay named
primitives: the record `pandas` of Model/PyFiltering.v, interpreted by the three
hand-written models).  Proofs/TrajGen.v proves the generated functions equal to
the models for all inputs and Properties/C20.v restates the headline theorems
for them (C20_gen_*).  A source that leaves the translatable subset, or whose
translation no longer satisfies those proofs, is reported through
chk.proof_broken; parts (a) and (b) still run, so a concrete failing input is
searched for as well.
"""
import json, itertools, math, os, sys, hashlib
import numpy as np
import pandas as pd
from fractions import Fraction
import common
from common import cZ, cN, cnat, cQ, clist, copt

IMPORTS = ("From Coq Require Import String.\n"
           "From TP Require Import Model.TrajFilter Model.TrajLayout.")
# tables with a column 'z': the z-aware layout model (guess_pos_columns answers z, y, x for link, link_partial,
# compute_drift / subtract_drift, cluster; msd, imsd, emsd, proximity, relate_frames keep ['x', 'y'])
IMPORTS3 = ("From Coq Require Import String.\n"
            "From TP Require Import Model.TrajFilter Model.TrajLayout Model.TrajLayout3.")

TRANSLATOR = os.path.join(common.VERIF, 'tools', 'py2coq_filtering.py')
GEN = os.path.join(common.COQ, 'Gen', 'filtering.v')


# =============================================================================
# translator / build
# =============================================================================
def regenerate(chk):
    """re-run the translator on the current source; returns (ok, text-or-log)"""
    rc, out = common.sh([sys.executable, TRANSLATOR, '--repo', common.REPO, '--stdout'], timeout=60)
    if rc != 0:
        return False, out
    with common.Lock(os.path.join(common.COQ, '.build.lock')):
        old = open(GEN).read() if os.path.exists(GEN) else None
        if old != out:
            os.makedirs(os.path.dirname(GEN), exist_ok=True)
            tmp = GEN + '.tmp%d' % os.getpid()
            with open(tmp, 'w') as f:
                f.write(out)
            os.replace(tmp, GEN)
            chk.tally('Gen/filtering.v rewritten (source differs from last run)')
        else:
            chk.tally('Gen/filtering.v unchanged')
    return True, out


def ensure_model(chk):
    """the executable hand-written models are needed by the correspondence run even when the translation
    or a proof about the generated functions is broken"""
    def fresh(v):
        vo = os.path.join(common.COQ, v + 'o')
        return os.path.exists(vo) and os.path.getmtime(vo) >= os.path.getmtime(os.path.join(common.COQ, v))
    files = ('Model/TrajFilter.v', 'Model/TrajLayout.v', 'Model/TrajLayout3.v')
    if all(fresh(v) for v in files):
        return True
    with common.Lock(os.path.join(common.COQ, '.build.lock')):
        for v in files:
            rc, out = common.sh('timeout 300 coqc -Q . TP %s' % v, timeout=330, cwd=common.COQ)
            if rc != 0:
                chk.proof_broken(v, out)
                return False
    return True


def build(chk):
    """translator -> cone of Properties/C20.v; returns True when the executable models are available"""
    ok, text = regenerate(chk)
    if not ok:
        chk.proof_broken('translation tools/py2coq_filtering.py (trackpy/filtering.py or pandas_sort / guess_pos_columns in '
                         'trackpy/utils.py left the translatable subset)', text)
        chk.build = dict(obligations=0, discharged=0, assumptions=[], files=[], theorems=[])
    else:
        for attempt in range(3):
            b = chk.coq()
            if open(GEN).read() == text:
                break
            # another run (different TRACKPY_REPO) rewrote the generated file in between: redo
            chk.violations = [v for v in chk.violations if not v[0].startswith('proof:')]
            regenerate(chk)
        chk.notes.append('Gen/filtering.v sha1 %s generated from %s' % (hashlib.sha1(text.encode()).hexdigest()[:12], common.REPO))
        if not b['ok']:
            # say which statement about the generated functions no longer checks
            with common.Lock(os.path.join(common.COQ, '.build.lock')):
                rc, out = common.sh('timeout 600 make Proofs/TrajGen.vo 2>&1 | tail -25', timeout=630, cwd=common.COQ)
            chk.notes.append('make Proofs/TrajGen.vo (generated functions = models): ' + out[-2500:])
    return ensure_model(chk)


PRODUCERS = ['link', 'link_partial', 'filter_stubs', 'filter_clusters', 'subtract_drift']
CONSUMERS = PRODUCERS + ['compute_drift', 'msd', 'imsd', 'emsd', 'cluster', 'proximity', 'relate_frames']
CUT = 4.0          # filter_clusters threshold used inside pipelines
STUB = 3           # filter_stubs threshold used inside pipelines


# =============================================================================
# tables <-> json
# =============================================================================
def _py(v):
    if v is None:
        return None
    if isinstance(v, (float, np.floating)):
        return None if math.isnan(v) else float(v)
    if isinstance(v, (int, np.integer)):
        return int(v)
    return v


def table_json(df):
    ix = df.index
    return dict(columns={c: [_py(v) for v in df[c].tolist()] for c in df.columns},
                dtypes={c: str(df[c].dtype) for c in df.columns},
                index_names=list(ix.names),
                index_values=[[_py(x) for x in (t if isinstance(t, tuple) else (t,))] for t in ix.tolist()],
                range_index=isinstance(ix, pd.RangeIndex))


def table_from_json(j):
    cols = {}
    for c, vals in j['columns'].items():
        dt = j['dtypes'][c]
        arr = [np.nan if v is None else v for v in vals]
        cols[c] = pd.Series(arr, dtype=dt if not ('int' in dt and any(v is None for v in vals)) else 'float64')
    df = pd.DataFrame(cols)
    if not j.get('range_index'):
        names = j['index_names']
        vals = [tuple(np.nan if x is None else x for x in t) for t in j['index_values']]
        if len(names) == 1:
            df.index = pd.Index([t[0] for t in vals], name=names[0])
        else:
            df.index = pd.MultiIndex.from_tuples(vals, names=names) if vals else \
                pd.MultiIndex.from_arrays([[] for _ in names], names=names)
    return df


def snapshot(df):
    return (list(df.columns), list(df.index.names), df.index.tolist(),
            {c: df[c].to_numpy(copy=True) for c in df.columns}, {c: str(df[c].dtype) for c in df.columns})


def same_snapshot(a, b):
    if a[0] != b[0] or a[1] != b[1] or a[4] != b[4]:
        return False
    if len(a[2]) != len(b[2]) or any(not same_scalar(x, y) for x, y in zip(a[2], b[2])):
        return False
    return all(arr_equal(a[3][c], b[3][c]) for c in a[0])


def same_scalar(x, y):
    if isinstance(x, tuple) or isinstance(y, tuple):
        return isinstance(x, tuple) and isinstance(y, tuple) and len(x) == len(y) and all(same_scalar(p, q) for p, q in zip(x, y))
    try:
        if x != x and y != y:
            return True
    except Exception:
        pass
    return x == y


def arr_equal(a, b):
    a = np.asarray(a); b = np.asarray(b)
    if a.shape != b.shape:
        return False
    if a.dtype.kind in 'fc' or b.dtype.kind in 'fc':
        try:
            return bool(np.array_equal(a.astype(float), b.astype(float), equal_nan=True))
        except Exception:
            return False
    return bool(np.array_equal(a, b))


# =============================================================================
# odd index layouts
# =============================================================================
LAYOUTS = ['default', 'default', 'shuffled_ints', 'frame', 'particle', 'frame_particle', 'particle_frame',
           'frame_index', 'x', 'fra', 'e', 'rid', 'dup_ints', 'strings', 'frame_index_particle', 'none_frame',
           'frame_frame', 'three', 'frame_particle_stale', 'frame_stale']


def relayout(df, kind, rng):
    """same data, same row order, another index"""
    df = df.copy()
    n = len(df)
    if kind == 'default':
        return df.reset_index(drop=True)
    if kind == 'shuffled_ints':
        v = list(range(n)); rng.shuffle(v); df.index = pd.Index(v); return df
    if kind == 'dup_ints':
        df.index = pd.Index([rng.randint(0, 2) for _ in range(n)]); return df
    if kind == 'strings':
        df.index = pd.Index(['r%d' % rng.randint(0, 5) for _ in range(n)], name='label'); return df
    if kind in ('frame', 'particle', 'x', 'rid'):
        return df.set_index(kind, drop=False)
    if kind == 'frame_index':
        df.index = pd.Index(df['frame'].values, name='frame_index'); return df
    if kind in ('fra', 'e'):
        df.index = pd.Index(df['frame'].values, name=kind); return df
    if kind == 'frame_particle':
        return df.set_index(['frame', 'particle'], drop=False)
    if kind == 'frame_particle_stale':
        # levels NAMED frame / particle that carry an earlier numbering (a sub-movie whose frame column was re-based): the
        # numbers that count are the columns'
        df.index = pd.MultiIndex.from_arrays([df['frame'].values + 5, df['particle'].values], names=['frame', 'particle']); return df
    if kind == 'frame_stale':
        df.index = pd.Index((df['frame'].values.max() - df['frame'].values + 3) if n else df['frame'].values, name='frame'); return df
    if kind == 'particle_frame':
        return df.set_index(['particle', 'frame'], drop=False)
    if kind == 'frame_index_particle':
        df.index = pd.MultiIndex.from_arrays([df['frame'].values, df['particle'].values], names=['frame_index', 'particle']); return df
    if kind == 'none_frame':
        df.index = pd.MultiIndex.from_arrays([np.arange(n), df['frame'].values], names=[None, 'frame']); return df
    if kind == 'frame_frame':
        df.index = pd.MultiIndex.from_arrays([df['frame'].values, df['frame'].values], names=['frame', 'frame']); return df
    if kind == 'three':
        df.index = pd.MultiIndex.from_arrays([df['particle'].values, df['frame'].values, np.arange(n)], names=['particle', 'frame', 'k']); return df
    raise ValueError(kind)


# =============================================================================
# (a) filters
# =============================================================================
def gen_filter_table(rng, malformed):
    npart = rng.randint(1, 7)
    labels = rng.sample(range(0, 40), npart)
    rows = []
    for p in labels:
        n = rng.choice([1, 2, 2, 3, 3, 4, 4, 5, 8])
        frames = sorted(rng.sample(range(0, 12), n))
        base = rng.choice([4, 6, 8, 8, 10, 12, 16])
        wob = rng.choice([[0], [0, 0, 1, -1], [0, 2, -2, 4], [0, 1]])
        for f in frames:
            rows.append(dict(frame=f, particle=p, x=float(rng.randint(0, 400)) / 4, y=float(rng.randint(0, 400)) / 4,
                             size=(base + rng.choice(wob)) / 4.0, mass=float(rng.randint(1, 1000))))
    kinds = []
    if malformed:
        kind = rng.choice(['empty', 'single', 'nan_particle', 'nan_particle', 'nan_frame', 'nan_frame', 'nan_frame', 'nan_size', 'nan_size_group', 'dup_rows', 'neg_size', 'float_cols'])
        kinds.append(kind)
        if kind == 'empty':
            rows = []
        elif kind == 'single':
            rows = rows[:1]
        elif kind == 'dup_rows' and rows:
            rows = rows + [dict(r) for r in rng.sample(rows, min(len(rows), 3))]
        elif kind == 'neg_size':
            for r in rows:
                if rng.random() < 0.3:
                    r['size'] = -r['size']
    order = rng.choice(['by_frame', 'shuffled', 'by_particle'])
    if order == 'by_frame':
        rows.sort(key=lambda r: r['frame'])
    elif order == 'shuffled':
        rng.shuffle(rows)
    df = pd.DataFrame(rows, columns=['frame', 'particle', 'x', 'y', 'size', 'mass'])
    if not rows:
        df = df.astype(dict(frame='int64', particle='int64', x='float64', y='float64', size='float64', mass='float64'))
    df['rid'] = np.arange(len(df), dtype='int64')
    if malformed and rows:
        k = kinds[0]
        if k in ('nan_particle', 'float_cols'):
            df['particle'] = df['particle'].astype('float64')
        if k in ('nan_frame', 'float_cols'):
            df['frame'] = df['frame'].astype('float64')
        if k == 'nan_particle':
            for i in rng.sample(range(len(df)), max(1, len(df) // 5)):
                df.loc[i, 'particle'] = np.nan
        if k == 'nan_frame':
            for i in rng.sample(range(len(df)), max(1, len(df) // 4)):
                df.loc[i, 'frame'] = np.nan
        if k == 'nan_size':
            for i in rng.sample(range(len(df)), max(1, len(df) // 4)):
                df.loc[i, 'size'] = np.nan
        if k == 'nan_size_group':
            p = df['particle'].iloc[0]
            df.loc[df['particle'] == p, 'size'] = np.nan
    lay = rng.choice(LAYOUTS)
    if malformed and kinds[0] in ('nan_particle', 'nan_frame') and lay in ('frame_particle', 'particle_frame', 'frame_index_particle', 'three', 'none_frame', 'frame_frame', 'frame_particle_stale'):
        lay = 'frame'
    df = relayout(df, lay, rng)
    return df, dict(order=order, layout=lay, malformed=kinds[0] if kinds else None)


def frac_or_none(v):
    return None if (v is None or (isinstance(v, float) and math.isnan(v))) else common.frac(v)


def row_terms(df):
    out = []
    for rid, p, f, s in zip(df['rid'].tolist(), df['particle'].tolist(), df['frame'].tolist(), df['size'].tolist()):
        pz = None if (isinstance(p, float) and math.isnan(p)) else int(p)
        fz = None if (isinstance(f, float) and math.isnan(f)) else int(f)
        out.append("(Build_row %s %s %s %s)" % (cnat(rid), copt(pz, cZ), copt(fz, cZ), copt(frac_or_none(s), cQ)))
    return clist(out)


def group_stats(df):
    """exact per-trajectory observation counts and mean sizes (Fractions), straight from the definition"""
    obs, sums, cnts = {}, {}, {}
    for p, f, s in zip(df['particle'].tolist(), df['frame'].tolist(), df['size'].tolist()):
        if isinstance(p, float) and math.isnan(p):
            continue
        p = int(p)
        obs.setdefault(p, 0); sums.setdefault(p, Fraction(0)); cnts.setdefault(p, 0)
        if not (isinstance(f, float) and math.isnan(f)):
            obs[p] += 1
        if not (isinstance(s, float) and math.isnan(s)):
            sums[p] += common.frac(s); cnts[p] += 1
    means = {p: (sums[p] / cnts[p] if cnts[p] else None) for p in sums}
    return obs, means


def expected_rids(df, qualifies):
    out = []
    for rid, p in zip(df['rid'].tolist(), df['particle'].tolist()):
        if isinstance(p, float) and math.isnan(p):
            continue
        if qualifies(int(p)):
            out.append(int(rid))
    return out


def exact_quantile(vals, q):
    s = sorted(common.frac(v) for v in vals if not (isinstance(v, float) and math.isnan(v)))
    if not s:
        return None
    pos = common.frac(q) * (len(s) - 1)
    lo = math.floor(pos)
    a = s[lo]; b = s[lo + 1] if lo + 1 < len(s) else a
    return a + (b - a) * (pos - lo)


def monitor_filter_output(name, inp, before, out):
    """values unchanged, index = frame column, caller's table untouched. returns list of (sig, text)"""
    bad = []
    if not same_snapshot(before, snapshot(inp)):
        bad.append(('%s:caller-table-modified' % name, "%s modified the caller's table" % name))
    if list(out.columns) != list(inp.columns):
        bad.append(('%s:columns-changed' % name, '%s changed the columns: %s' % (name, list(out.columns))))
        return bad
    rids = out['rid'].tolist()
    pos = {int(r): i for i, r in enumerate(inp['rid'].tolist())}
    if any(int(r) not in pos for r in rids):
        bad.append(('%s:row-invented' % name, '%s returned a row that is not in the input' % name))
        return bad
    src = inp.iloc[[pos[int(r)] for r in rids]]
    for c in inp.columns:
        if str(out[c].dtype) != str(inp[c].dtype) or not arr_equal(out[c].to_numpy(), src[c].to_numpy()):
            bad.append(('%s:values-changed' % name, '%s changed values/dtype of column %s' % (name, c)))
            break
    if list(out.index.names) != ['frame'] or not arr_equal(np.asarray(out.index.values, dtype=float) if len(out) else np.array([]),
                                                           out['frame'].to_numpy().astype(float) if len(out) else np.array([])):
        bad.append(('%s:index-not-frame' % name, '%s result is not indexed by its frame column (names %s)' % (name, list(out.index.names))))
    return bad


def run_filters(chk, n):
    import trackpy as tp
    rng = chk.rng
    stub_terms, stub_cases = [], []
    cl_terms, cl_cases = [], []
    q_terms, q_cases = [], []
    for k in range(n):
        malformed = rng.random() < 0.25
        df, meta = gen_filter_table(rng, malformed)
        obs, means = group_stats(df)
        chk.tally('filter layout=' + meta['layout'])
        chk.tally('filter malformed=%s' % meta['malformed'])
        which = rng.choice(['stubs', 'stubs', 'clusters', 'clusters', 'quantile'])
        before = snapshot(df)
        nontrivial = len(obs) >= 2
        if which == 'stubs':
            cands = sorted(set(obs.values())) or [1]
            thr = rng.choice(cands + cands + [c + 1 for c in cands] + [0, -1, 100])
            rep = dict(kind='filter_stubs', table=table_json(df), threshold=thr, meta=meta)
            try:
                out = tp.filter_stubs(df, thr)
            except Exception as e:
                chk.violation('filter_stubs:raised', 'filter_stubs raised %r on a table with frame and particle columns' % (e,), rep)
                continue
            got = [int(r) for r in out['rid'].tolist()]
            exp = expected_rids(df, lambda p: obs[p] >= thr)
            if any(v == thr for v in obs.values()):
                chk.tally('stubs: a trajectory with exactly threshold observations')
            chk.count(('stubs', rep['table']['columns'], thr, meta['layout']), nontrivial and 0 < len(exp) < len(df))
            if got != exp:
                chk.violation('filter_stubs:rows-differ-from-definition',
                              'filter_stubs(threshold=%s) kept rows %s, the trajectories with >= threshold observations are rows %s' % (thr, got, exp),
                              dict(rep, impl_rids=got, expected_rids=exp))
            for sig, text in monitor_filter_output('filter_stubs', df, before, out):
                chk.violation(sig, text, dict(rep, impl_rids=got))
            stub_terms.append("(%s, %s, %s)" % (row_terms(df), cZ(thr), clist([cnat(r) for r in got])))
            stub_cases.append(dict(rep, impl_rids=got))
        else:
            exact_means = [m for m in means.values() if m is not None]
            dyadic = [m for m in exact_means if (m.denominator & (m.denominator - 1)) == 0]
            if which == 'clusters':
                pool = [float(m) for m in dyadic] * 2 + [rng.randint(0, 40) / 8.0, rng.randint(4, 36) / 8.0]
                thr = float(rng.choice(pool))
                T = common.frac(thr)
                margin = min([abs(m - T) for m in exact_means if m != T] or [Fraction(1)])
                rep = dict(kind='filter_clusters', table=table_json(df), threshold=thr, meta=meta)
                if margin < Fraction(1, 10 ** 9):
                    chk.tally('clusters: degenerate margin, skipped'); continue
                try:
                    out = tp.filter_clusters(df, threshold=thr)
                except Exception as e:
                    chk.violation('filter_clusters:raised', 'filter_clusters raised %r' % (e,), rep); continue
                got = [int(r) for r in out['rid'].tolist()]
                exp = expected_rids(df, lambda p: means[p] is not None and means[p] < T)
                if any(m == T for m in exact_means):
                    chk.tally('clusters: a trajectory with mean size exactly at the cut')
                chk.count(('clusters', rep['table']['columns'], thr, meta['layout']), nontrivial and 0 < len(exp) < len(df))
                if got != exp:
                    chk.violation('filter_clusters:rows-differ-from-definition',
                                  'filter_clusters(threshold=%s) kept rows %s, the trajectories with mean size < threshold are rows %s' % (thr, got, exp),
                                  dict(rep, impl_rids=got, expected_rids=exp))
                for sig, text in monitor_filter_output('filter_clusters', df, before, out):
                    chk.violation(sig, text, dict(rep, impl_rids=got))
                cl_terms.append("(%s, %s, %s)" % (row_terms(df), cQ(thr), clist([cnat(r) for r in got])))
                cl_cases.append(dict(rep, impl_rids=got))
            else:
                q = rng.choice([0.8, 0.8, 0.5, 0.25, 0.75, 0.9, 1.0, 0.0, 0.3])
                rep = dict(kind='filter_clusters_quantile', table=table_json(df), quantile=q, meta=meta)
                cut = exact_quantile(df['size'].tolist(), q)
                tol = Fraction(1, 10 ** 9)
                try:
                    out = tp.filter_clusters(df, quantile=q)
                except Exception as e:
                    chk.violation('filter_clusters:raised', 'filter_clusters(quantile) raised %r' % (e,), rep); continue
                got = [int(r) for r in out['rid'].tolist()]
                if cut is None:
                    exps = [[]]
                else:
                    near = [m for m in exact_means if abs(m - cut) <= tol]
                    if near:
                        chk.tally('quantile: a mean within tolerance of the cut (either decision accepted)')
                    exps = [expected_rids(df, lambda p, c=c: means[p] is not None and means[p] < c) for c in (cut - tol, cut + tol)]
                chk.count(('quantile', rep['table']['columns'], q, meta['layout']), nontrivial and 0 < len(exps[0]) < len(df))
                if got not in exps:
                    chk.violation('filter_clusters:quantile-rows-differ-from-definition',
                                  'filter_clusters(quantile=%s) kept rows %s; trajectories with mean size below the %s-quantile of size (%s) are rows %s'
                                  % (q, got, q, None if cut is None else float(cut), exps[0]), dict(rep, impl_rids=got, expected_rids=exps[0]))
                for sig, text in monitor_filter_output('filter_clusters', df, before, out):
                    chk.violation(sig, text, dict(rep, impl_rids=got))
                q_terms.append("(%s, %s, %s, %s)" % (row_terms(df), cQ(q), cQ(tol), clist([cnat(r) for r in got])))
                q_cases.append(dict(rep, impl_rids=got))
    for tag, func, terms, cases in (('stubs', 'check_stubs', stub_terms, stub_cases), ('clusters', 'check_clusters', cl_terms, cl_cases),
                                    ('quantile', 'check_clusters_q', q_terms, q_cases)):
        res = common.coq_eval_lists(chk.work, IMPORTS, func, terms, tag='f' + tag)
        for r, c in zip(res, cases):
            if r != 0:
                chk.violation('%s:model-mismatch' % c['kind'], '%s: kept rows %s differ from the Coq model of pandas groupby-filter' % (c['kind'], c['impl_rids']), c)
        if cases:
            chk.sample(dict(kind=cases[0]['kind'], meta=cases[0]['meta'], nrows=len(cases[0]['impl_rids']),
                            threshold=cases[0].get('threshold', cases[0].get('quantile')), impl_rids=cases[0]['impl_rids'],
                            particle=cases[0]['table']['columns']['particle'], frame=cases[0]['table']['columns']['frame'],
                            size=cases[0]['table']['columns']['size']))


# the DESIGN section 4 / hand-made tricky cases for the filters
def filter_corpus():
    cases = []
    t = pd.DataFrame(dict(frame=[0, 0, 1, 1, 2, 2, 3], particle=[5, 9, 5, 9, 5, 9, 9], x=[1., 2, 3, 4, 5, 6, 7], y=[0.] * 7,
                          size=[2., 4., 2., 4., 2.5, 4., 4.], mass=[1.] * 7))
    t['rid'] = np.arange(7)
    cases.append(('stubs', t, 3)); cases.append(('stubs', t, 4)); cases.append(('stubs', t, 5))
    cases.append(('clusters', t, 4.0)); cases.append(('clusters', t, 2.1666666666666665)); cases.append(('clusters', t, 2.25))
    cases.append(('stubs', t.set_index('particle', drop=False), 4))
    cases.append(('stubs', t.set_index(['frame', 'particle'], drop=False), 4))
    cases.append(('clusters', t.set_index(['frame', 'particle'], drop=False), 4.0))
    cases.append(('clusters', t.set_index('frame', drop=False).iloc[::-1], 4.0))
    # NaN frame is not an observation; NaN label belongs to no trajectory; NaN sizes are skipped by the mean
    u = t.copy()
    u['frame'] = u['frame'].astype(float); u['particle'] = u['particle'].astype(float)
    u.loc[2, 'frame'] = np.nan; u.loc[6, 'particle'] = np.nan; u.loc[1, 'size'] = np.nan
    cases.append(('stubs', u, 3)); cases.append(('stubs', u, 2)); cases.append(('clusters', u, 4.0)); cases.append(('clusters', u, 4.5))
    cases.append(('stubs', u.set_index('particle', drop=False), 3))
    return cases


def run_filter_corpus(chk):
    import trackpy as tp
    terms_s, terms_c = [], []
    for kind, df, thr in filter_corpus():
        obs, means = group_stats(df)
        before = snapshot(df)
        rep = dict(kind='filter_' + kind, table=table_json(df), threshold=thr, meta=dict(corpus=True, layout=str(list(df.index.names))))
        try:
            out = tp.filter_stubs(df, thr) if kind == 'stubs' else tp.filter_clusters(df, threshold=thr)
        except Exception as e:
            chk.violation('filter_%s:raised' % kind, 'filter_%s raised %r on corpus table' % (kind, e), rep); continue
        got = [int(r) for r in out['rid'].tolist()]
        if kind == 'stubs':
            exp = expected_rids(df, lambda p: obs[p] >= thr)
            terms_s.append("(%s, %s, %s)" % (row_terms(df), cZ(thr), clist([cnat(r) for r in got])))
        else:
            T = common.frac(thr)
            if any(m is not None and m != T and abs(m - T) < Fraction(1, 10 ** 9) for m in means.values()):
                continue
            exp = expected_rids(df, lambda p: means[p] is not None and means[p] < T)
            terms_c.append("(%s, %s, %s)" % (row_terms(df), cQ(thr), clist([cnat(r) for r in got])))
        chk.count(('corpus', kind, rep['table'], thr), True)
        chk.tally('filter corpus case')
        if got != exp:
            chk.violation('filter_%s:rows-differ-from-definition' % kind, 'filter_%s(%s) kept rows %s, definition gives %s' % (kind, thr, got, exp),
                          dict(rep, impl_rids=got, expected_rids=exp))
        for sig, text in monitor_filter_output('filter_' + kind, df, before, out):
            chk.violation(sig, text, dict(rep, impl_rids=got))
    for func, terms, kind in (('check_stubs', terms_s, 'filter_stubs'), ('check_clusters', terms_c, 'filter_clusters')):
        res = common.coq_eval_lists(chk.work, IMPORTS, func, terms, tag='corpus_' + kind)
        if any(r != 0 for r in res):
            chk.violation('%s:model-mismatch' % kind, '%s: corpus case differs from the Coq model' % kind, dict(kind='corpus', which=kind, codes=res))


# =============================================================================
# (b) composition
# =============================================================================
def base_tables(rng, tier):
    """well separated walkers (linking unambiguous with search_range 3): gapless, gapped, a stub,
    a big one; rows sorted / shuffled; odd labels"""
    tabs = []

    def make(labels, shuffle, seed_shift, extra_cols=True):
        rows = []
        spec = [(0, 8, None, 2.0), (1, 6, None, 2.5), (0, 8, 3, 3.0), (2, 2, None, 2.0), (0, 8, None, 5.0), (3, 5, 5, 3.5)]
        for k, (start, n, gap, size) in enumerate(spec):
            for j in range(n):
                f = start + j
                if gap is not None and f == gap:
                    continue
                rows.append(dict(y=12.0 + 6.0 * (k % 2) + 0.25 * f + 0.125 * ((k + j) % 3), x=10.0 + 20.0 * k + 0.5 * f + 0.25 * ((k * j + seed_shift) % 2),
                                 mass=100.0 + k, size=size + 0.25 * (j % 2), frame=f, particle=labels[k]))
        if shuffle:
            rng.shuffle(rows)
        else:
            rows.sort(key=lambda r: r['frame'])
        df = pd.DataFrame(rows)
        df['rid'] = np.arange(len(df))
        return df
    tabs.append(('sorted', make([0, 1, 2, 3, 4, 5], False, 0)))
    tabs.append(('shuffled-odd-labels', make([17, 3, 40, 8, 5, 11], True, 1)))
    if tier == 'thorough':
        tabs.append(('shuffled', make([0, 1, 2, 3, 4, 5], True, 2)))
        tabs.append(('sorted-odd-labels', make([9, 2, 7, 30, 1, 4], False, 3)))
    return tabs


def stage(name):
    import trackpy as tp
    if name == 'link':
        return lambda t: tp.link(t, 3)
    if name == 'link_partial':
        return lambda t: tp.link_partial(t, 3, (2, 5))
    if name == 'filter_stubs':
        return lambda t: tp.filter_stubs(t, STUB)
    if name == 'filter_clusters':
        return lambda t: tp.filter_clusters(t, threshold=CUT)
    if name == 'subtract_drift':
        return lambda t: tp.subtract_drift(t)
    if name == 'subtract_drift_given':
        def given(t):
            # an explicitly supplied drift table (index 'frame'), not integral in any frame
            frames = sorted(set(int(v) for v in t['frame'].values))
            d = pd.DataFrame({'y': [0.25 * f + 0.125 for f in frames], 'x': [0.375 - 0.5 * f for f in frames]},
                             index=pd.Index(frames, name='frame'))
            return tp.subtract_drift(t, d)
        return given
    if name == 'compute_drift':
        return lambda t: tp.compute_drift(t)
    if name == 'msd':
        def one(t):
            # one trajectory: by label when there is one, else by its x band (walkers are 20 px apart)
            if 'particle' in t.columns:
                return t[t['particle'].values == t['particle'].values[0]]
            return t[np.abs(t['x'].values - t['x'].values[0]) < 8]
        return lambda t: tp.msd(one(t), 0.5, 2.0, 4)
    if name == 'imsd':
        return lambda t: tp.imsd(t, 0.5, 2.0, 4)
    if name == 'emsd':
        return lambda t: tp.emsd(t, 0.5, 2.0, 4)
    if name == 'cluster':
        return lambda t: tp.cluster(t, 22)
    if name == 'proximity':
        return lambda t: tp.proximity(t)
    if name == 'relate_frames':
        return lambda t: tp.relate_frames(t, 2, 4)
    raise KeyError(name)


def outcome_code(exc):
    if exc is None:
        return 0
    s = str(exc)
    if isinstance(exc, ValueError) and 'ambiguous' in s:
        return 1
    if isinstance(exc, KeyError) or (isinstance(exc, ValueError) and 'must contain columns' in s):
        return 2
    return 9


def call(name, t):
    """run a stage on a private copy; returns (result or None, exception or None, caller_untouched)"""
    arg = t.copy()
    before = snapshot(arg)
    try:
        r = stage(name)(arg)
        exc = None
    except Exception as e:
        r, exc = None, e
    return r, exc, same_snapshot(before, snapshot(arg))


def partition(labels):
    d = {}
    for i, l in enumerate(labels):
        d.setdefault(l, []).append(i)
    return sorted(d.values())


def same_numbers(name, a, b):
    """a: result on the pipeline's table, b: result on the same data default-indexed.  '' if equal"""
    if type(a) is not type(b):
        return 'result types differ'
    if isinstance(a, pd.Series):
        a, b = a.to_frame('v'), b.to_frame('v')
    if list(a.columns) != list(b.columns):
        return 'columns differ: %s vs %s' % (list(a.columns), list(b.columns))
    if len(a) != len(b):
        return 'row counts differ: %d vs %d' % (len(a), len(b))
    carried = name in ('link', 'link_partial', 'cluster')     # these keep the caller's index: compare values only
    if not carried:
        if len(a.index.names) != len(b.index.names) or not all(same_scalar(x, y) for x, y in zip(a.index.tolist(), b.index.tolist())):
            return 'index values differ'
    for c in a.columns:
        if name in ('link', 'link_partial') and c == 'particle' or name == 'cluster' and c == 'cluster':
            if partition(a[c].tolist()) != partition(b[c].tolist()):
                return 'grouping by %s differs' % c
        elif not arr_equal(a[c].to_numpy(), b[c].to_numpy()):
            return 'values of column %s differ' % c
    return ''


def schema_term(names, cols):
    return "(Build_schema %s %s)" % (clist([copt(n, lambda s: '"%s"%%string' % s) for n in names]), clist(['"%s"%%string' % c for c in cols]))


def layout_term(start, pipe, obs, cons):
    o = "None" if obs is None else "(Some (%s, %s))" % (clist([copt(n, lambda s: '"%s"%%string' % s) for n in obs[0]]),
                                                        clist(['"%s"%%string' % c for c in obs[1]]))
    return "(%s, %s, %s, %s)" % (schema_term(*start), clist([cnat(PRODUCERS.index(p)) for p in pipe]), o, clist([cN(c) for c in cons]))


LAYOUT_CODES = {1: 'pipeline raises in pandas but the model accepts (or the reverse)', 2: 'index level names after the pipeline differ from the model',
                3: 'columns after the pipeline differ from the model'}


def explore(chk, tname, t0, pipes, terms, cases):
    """run pipelines (prefix-cached) from table t0, then every consumer on every result"""
    cache = {(): (t0, None)}
    start = (list(t0.index.names), list(t0.columns))

    def result(pipe):
        if pipe in cache:
            return cache[pipe]
        t, exc = result(pipe[:-1])
        if exc is not None:
            cache[pipe] = (None, exc)
        else:
            r, e, untouched = call(pipe[-1], t)
            if not untouched:
                chk.violation('%s:caller-table-modified' % pipe[-1], "%s modified the table it was given (index names / values)" % pipe[-1],
                              dict(kind='compose', table=table_json(t0), pipeline=list(pipe[:-1]), consumer=pipe[-1]))
            cache[pipe] = (r, e)
        return cache[pipe]

    for pipe in pipes:
        t, exc = result(pipe)
        rep = dict(kind='compose', table_name=tname, table=table_json(t0), pipeline=list(pipe))
        if exc is not None:
            code = outcome_code(exc)
            chk.tally('pipeline raised code %d' % code)
            terms.append(layout_term(start, pipe, None, [])); cases.append(dict(rep, observed='raise %r' % (exc,)))
            if code == 9:
                chk.violation('compose:pipeline-unexpected-exception', 'pipeline %s raised %r' % ('->'.join(pipe), exc), rep)
            continue
        names = list(t.index.names)
        chk.tally('layout ' + str(tuple(names)))
        plain = t.reset_index(drop=True)
        cons = []
        for c in CONSUMERS:
            r, e, untouched = call(c, t)
            code = outcome_code(e)
            cons.append(code)
            crep = dict(rep, consumer=c)
            key = ('compose', tname, pipe, c)
            chk.count(key, names != [None])
            if not untouched:
                chk.violation('%s:caller-table-modified' % c, "%s modified the table it was given" % c, crep)
            rp, ep, _ = call(c, plain)
            if (e is None) != (ep is None) or (e is not None and type(e) is not type(ep)):
                chk.violation('compose:%s->%s:outcome-differs-from-default-indexed' % (pipe[-1] if pipe else 'start', c),
                              '%s on the table returned by %s: %s; on the same data default-indexed: %s'
                              % (c, '->'.join(pipe) or 'start', 'accepted' if e is None else repr(e), 'accepted' if ep is None else repr(ep)), crep)
            elif e is None:
                d = same_numbers(c, r, rp)
                if d:
                    chk.violation('compose:%s->%s:numbers-differ-from-default-indexed' % (pipe[-1] if pipe else 'start', c),
                                  '%s on the table returned by %s differs from the same data default-indexed: %s' % (c, '->'.join(pipe) or 'start', d), crep)
            elif code == 9:
                # same failure with and without the odd index (e.g. empty table): not a layout matter
                chk.tally('consumer raises identically on default-indexed data (%s: %s)' % (c, type(e).__name__))
                cons[-1] = -1
        if -1 in cons:
            continue
        terms.append(layout_term(start, pipe, (names, list(t.columns)), cons))
        cases.append(dict(rep, observed=dict(index_names=names, columns=list(t.columns), consumer_codes=cons)))


def with_z(t):
    """the same table with a column 'z' in front (3-D features): one plane per walker band plus a slow drift in z"""
    t = t.copy()
    t.insert(0, 'z', 4.0 + 0.25 * t['frame'].to_numpy() + 2.0 * ((t['x'].to_numpy() // 20) % 3))
    return t


def run_compose(chk):
    rng = chk.rng
    depth = 2 if chk.tier == 'quick' else 3
    terms, cases = [], []
    tabs = base_tables(rng, chk.tier)
    for tname, t0 in tabs:
        pipes = [p for d in range(depth + 1) for p in itertools.product(PRODUCERS, repeat=d)]
        if chk.tier == 'quick':
            extra = set()
            while len(extra) < 12:
                extra.add(tuple(rng.choice(PRODUCERS) for _ in range(3)))
            pipes += sorted(extra)
        else:
            extra = set()
            while len(extra) < 40:
                extra.add(tuple(rng.choice(PRODUCERS) for _ in range(rng.choice([4, 5]))))
            pipes += sorted(extra)
        explore(chk, tname, t0, pipes, terms, cases)
    chk.coverage['exhaustive_depth'] = depth
    # odd start layouts and column-deficient tables: depth <= 1 exhaustive (+ sampled depth 2)
    t0 = tabs[0][1]
    kinds = [k for k in dict.fromkeys(LAYOUTS) if k != 'default']
    if chk.tier == 'quick':
        kinds = rng.sample(kinds, 7) + ['frame_particle', 'e']
    for kind in dict.fromkeys(kinds):
        tt = relayout(t0, kind, rng)
        pipes = [()] + [(p,) for p in PRODUCERS]
        if chk.tier == 'thorough':
            pipes += [tuple(rng.choice(PRODUCERS) for _ in range(2)) for _ in range(4)]
        chk.tally('odd start layout ' + kind)
        explore(chk, 'start:' + kind, tt, list(dict.fromkeys(pipes)), terms, cases)
    for drop in (['size'], ['particle'], ['mass', 'rid'], ['particle', 'size']):
        tt = t0.drop(columns=drop)
        if rng.random() < 0.5:
            tt = tt.set_index('frame', drop=False)
        chk.tally('start table without ' + '+'.join(drop))
        explore(chk, 'without:' + '+'.join(drop), tt, [()] + [(p,) for p in PRODUCERS], terms, cases)
    res = common.coq_eval_lists(chk.work, IMPORTS, 'check_layout', terms, tag='layout', shard=150)
    # 3-D tables: the same walkers with a column 'z' (smooth in the frame number, so linking stays unambiguous); every
    # producer at depth <= 1 plus sampled depth 2 (thorough: all of depth 2), all consumers; one table that lost 'y'
    terms3, cases3 = [], []
    t3 = with_z(tabs[0][1])
    pipes3 = [()] + [(p,) for p in PRODUCERS]
    if chk.tier == 'quick':
        pipes3 += [tuple(rng.choice(PRODUCERS) for _ in range(2)) for _ in range(6)]
    else:
        pipes3 += list(itertools.product(PRODUCERS, repeat=2)) + [tuple(rng.choice(PRODUCERS) for _ in range(3)) for _ in range(10)]
    chk.tally('3-D start table (column z)')
    explore(chk, '3d', t3, list(dict.fromkeys(pipes3)), terms3, cases3)
    explore(chk, '3d:frame_particle', t3.set_index(['frame', 'particle'], drop=False), [()] + [(p,) for p in PRODUCERS], terms3, cases3)
    chk.tally('3-D start table without y')
    explore(chk, '3d:without:y', t3.drop(columns=['y']), [()] + [(p,) for p in PRODUCERS], terms3, cases3)
    res3 = common.coq_eval_lists(chk.work, IMPORTS3, 'check_layout3', terms3, tag='layout3', shard=150)
    for r, c in list(zip(res, cases)) + list(zip(res3, cases3)):
        if r != 0:
            what = LAYOUT_CODES.get(r) or ('consumer %s: pandas outcome differs from the model' % CONSUMERS[r - 10] if 10 <= r < 22 else 'code %d' % r)
            pipe = c['pipeline']
            if 10 <= r < 22:
                sig = 'compose:%s->%s:model-mismatch' % (pipe[-1] if pipe else 'start', CONSUMERS[r - 10])
                obs = c['observed']['consumer_codes'][r - 10]
                what += ' (pandas: %s)' % {0: 'accepted', 1: "ValueError 'both an index level and a column label'", 2: 'KeyError', 9: 'other exception'}.get(obs, obs)
                c = dict(c, consumer=CONSUMERS[r - 10])
            else:
                sig = 'compose:%s:model-mismatch' % ('->'.join(pipe) or 'start')
            chk.violation(sig, 'table %s, pipeline %s: %s' % (c['table_name'], '->'.join(pipe) or '(none)', what), c)
    for c in cases[:1] + cases[40:41]:
        chk.sample(dict(kind='compose', table=c['table_name'], pipeline=c['pipeline'], observed=c['observed']))


# =============================================================================
# (c) column dtypes: integer-typed measurement columns against their float64 twin
# =============================================================================
DT_PRODUCERS = PRODUCERS + ['subtract_drift_given']
DT_CONSUMERS = CONSUMERS + ['subtract_drift_given']
MEASURED = ('x', 'y', 'size', 'mass')          # columns whose dtype is varied (frame / particle stay int64)
DTYPE_VARIANTS = [
    ('x,y int64', dict(x='int64', y='int64')),
    ('x,y int32', dict(x='int32', y='int32')),
    ('x int32, y int64', dict(x='int32', y='int64')),
    ('x int64, y float64', dict(x='int64')),
    ('x float64, y int32', dict(y='int32')),
    ('x,y,size,mass int64', dict(x='int64', y='int64', size='int64', mass='int64')),
    ('size,mass int32 (positions float64)', dict(size='int32', mass='int32')),
]
DT_LAYOUTS = ['default', 'default', 'shuffled_ints', 'frame_index', 'dup_ints', 'strings']   # accepted by every stage (part (b) owns the clashing ones)


def lattice_table(rng, rigid):
    """walkers on the integer pixel grid (all values integral, columns still float64): 20 px apart in x, steps dx in {0,1,2},
    dy in {-1,0,1} per frame (displacement <= sqrt(5) < search_range 3, so linking is unambiguous); gapless, gapped, a stub, a big one.
    rigid: all walkers take the same step between the same two frames, so the drift is integral in every frame;
    otherwise steps are independent and the mean displacement per frame is generally not an integer"""
    spec = [(0, 8, None, 2), (1, 6, None, 2), (0, 8, 3, 3), (2, 2, None, 2), (0, 8, None, 5), (3, 5, 5, 3)]
    labels = rng.sample(range(0, 40), len(spec)) if rng.random() < 0.5 else list(range(len(spec)))
    common_step = {f: (rng.choice([0, 1, 1, 2]), rng.choice([-1, 0, 1])) for f in range(0, 12)}
    rows = []
    for k, (start, n, gap, size) in enumerate(spec):
        x = 10 + 20 * k + rng.randint(0, 3)
        y = 12 + 6 * (k % 2) + rng.randint(0, 2)
        for j in range(n):
            f = start + j
            if j > 0:
                dx, dy = common_step[f] if rigid else (rng.choice([0, 1, 1, 2]), rng.choice([-1, 0, 1]))
                x += dx; y += dy
            if gap is not None and f == gap:
                continue
            rows.append(dict(y=float(y), x=float(x), mass=float(100 + k), size=float(size + (j % 2)), frame=f, particle=labels[k]))
    if rng.random() < 0.5:
        rng.shuffle(rows)
    else:
        rows.sort(key=lambda r: r['frame'])
    df = pd.DataFrame(rows)
    df['rid'] = np.arange(len(df))
    return df


def brief(e):
    text = ' '.join(str(e).split())
    return '%s: %s' % (type(e).__name__, text[:160] + ('...' if len(text) > 160 else ''))


def float_twin(t):
    """the same data under the same index, the integer-typed measurement columns as float64"""
    return t.astype({c: 'float64' for c in MEASURED if c in t.columns and t[c].dtype.kind in 'iu'})


def drift_is_integral(twin):
    import trackpy as tp
    d = tp.compute_drift(twin.reset_index(drop=True))
    v = d.to_numpy(dtype=float)
    return bool(np.all(v == np.round(v)))


def dtype_explore(chk, tname, t0, pipes, consumers, meta):
    """run the pipelines in lock-step on t0 and on its float64 twin, then every consumer on both results"""
    twin0 = float_twin(t0)
    tj = table_json(t0)
    thash = hashlib.sha1(json.dumps(tj, sort_keys=True, default=str).encode()).hexdigest()[:12]
    typed = any(t0[c].dtype.kind in 'iu' for c in MEASURED if c in t0.columns)
    cache = {(): (t0, twin0)}

    def compare(name, t, tw, rep, where):
        """call stage `name` on both tables; returns (result, twin result) or None when the pipeline ends here"""
        r, e, untouched = call(name, t)
        rr, er, _ = call(name, tw)
        if not untouched:
            chk.violation('%s:caller-table-modified' % name, "%s modified the table it was given (integer-typed columns)" % name, rep)
        if (e is None) != (er is None) or (e is not None and type(e) is not type(er)):
            chk.violation('dtype:%s:outcome-differs-from-float64-table' % name,
                          '%s on %s (column dtypes %s): %s; on the same data with float64 columns: %s'
                          % (name, where, {c: str(t[c].dtype) for c in MEASURED if c in t.columns},
                             'accepted' if e is None else brief(e), 'accepted' if er is None else brief(er)), rep)
            return None
        if e is not None:
            # the lattice tables are well formed, never emptied by the filters, and DT_LAYOUTS are accepted by every stage
            chk.violation('dtype:%s:raised-on-well-formed-table' % name,
                          '%s on %s raised %s (and the same on the float64 twin); the table has all columns and an index that clashes with none'
                          % (name, where, brief(e)), rep)
            return None
        d = same_numbers(name, r, rr)
        if d:
            chk.violation('dtype:%s:numbers-differ-from-float64-table' % name,
                          '%s on %s (column dtypes %s) differs from the same data with float64 columns: %s'
                          % (name, where, {c: str(t[c].dtype) for c in MEASURED if c in t.columns}, d), rep)
            return None
        if name in ('filter_stubs', 'filter_clusters'):
            for sig, text in monitor_filter_output(name, t, snapshot(t), r):
                chk.violation(sig, text + ' (integer-typed columns)', rep)
        return r, rr

    def result(pipe):
        if pipe in cache:
            return cache[pipe]
        prev = result(pipe[:-1])
        if prev is None:
            cache[pipe] = None
        else:
            rep = dict(kind='dtype', table_name=tname, table=tj, pipeline=list(pipe), meta=meta)
            cache[pipe] = compare(pipe[-1], prev[0], prev[1], rep, 'the table returned by %s' % ('->'.join(pipe[:-1]) or 'start'))
        return cache[pipe]

    for pipe in pipes:
        got = result(pipe)
        if got is None:
            chk.tally('dtype: pipeline ended early')
            continue
        t, tw = got
        chk.tally('dtype: measurement dtypes after pipeline ' + ','.join('%s:%s' % (c, t[c].dtype) for c in MEASURED if c in t.columns))
        for c in consumers:
            rep = dict(kind='dtype', table_name=tname, table=tj, pipeline=list(pipe), consumer=c, meta=meta)
            chk.count(('dtype', thash, pipe, c), typed)
            compare(c, t, tw, rep, 'the table returned by %s' % ('->'.join(pipe) or 'start'))


def run_dtypes(chk):
    rng = chk.rng
    quick = chk.tier == 'quick'
    variants = list(DTYPE_VARIANTS)
    if quick:
        variants = variants[:1] + rng.sample(variants[1:], 2)
    jobs = [(v, False) for v in variants] + [(rng.choice(DTYPE_VARIANTS[:3]), True)]
    first = True
    for (vname, dts), rigid in jobs:
        base = lattice_table(rng, rigid)
        t0 = base.astype(dts)
        lay = 'default' if first else rng.choice(DT_LAYOUTS)
        t0 = relayout(t0, lay, rng)
        integral = drift_is_integral(float_twin(t0))
        chk.tally('dtype variant ' + vname)
        chk.tally('dtype start layout ' + lay)
        chk.tally('dtype: drift integral in every frame' if integral else 'dtype: drift not integral in some frame')
        pipes = [()] + [(p,) for p in DT_PRODUCERS]
        if quick:
            extra = {('link', 'subtract_drift')} if first else set()
            while len(extra) < 3:
                extra.add(tuple(rng.choice(DT_PRODUCERS) for _ in range(2)))
            pipes += sorted(extra)
        else:
            pipes += list(itertools.product(DT_PRODUCERS, repeat=2))
            pipes += [tuple(rng.choice(DT_PRODUCERS) for _ in range(3)) for _ in range(10)]
        meta = dict(variant=vname, layout=lay, rigid=rigid, drift_integral=integral)
        dtype_explore(chk, 'lattice:' + vname + (':rigid' if rigid else ''), t0, list(dict.fromkeys(pipes)), DT_CONSUMERS, meta)
        if first:
            chk.sample(dict(kind='dtype', variant=vname, layout=lay, drift_integral=integral, dtypes={c: str(t0[c].dtype) for c in t0.columns},
                            x=t0['x'].tolist()[:12], y=t0['y'].tolist()[:12], frame=t0['frame'].tolist()[:12]))
        first = False


# =============================================================================
def run(chk):
    common.quiet_trackpy()
    if not build(chk):
        return
    run_filter_corpus(chk)
    run_filters(chk, 400 if chk.tier == 'quick' else 5000)
    run_compose(chk)
    run_dtypes(chk)
    chk.coverage['rule'] = (
        "(a) random trajectory tables (1-7 trajectories with odd labels, 1-8 observations, sizes multiples of 1/4, rows by frame / shuffled / "
        "by particle, 17 index layouts incl. clashing 'frame'/'particle' names, MultiIndex, duplicates) plus a malformed stream (empty, single row, "
        "NaN particle/frame/size, all-NaN-size trajectory, duplicate rows, negative sizes, float columns) through filter_stubs (thresholds at, "
        "above and below actual observation counts), filter_clusters(threshold at exact trajectory means and elsewhere) and filter_clusters(quantile); "
        "non-trivial = at least two trajectories and some but not all rows kept.  (b) every pipeline of the 5 producers up to the exhaustive depth "
        "(coverage.exhaustive_depth) plus sampled deeper ones, from each base table, then all 12 consumers; the same from 17 odd start layouts and "
        "4 column-deficient tables at depth <= 1; the same walkers with a column 'z' (3-D: guess_pos_columns answers z, y, x), default- and (frame, particle)-indexed "
        "and without 'y', at depth <= 1 plus sampled depth 2 (thorough: all of depth 2), against the z-aware layout model Model/TrajLayout3.v; "
        "non-trivial = the consumer received a table whose index is not the plain unnamed one.  (c) walkers on the integer pixel grid "
        "(random integer steps, so the per-frame mean displacement is generally non-integral; one table per run moves rigidly, drift integral in every frame) "
        "stored with integer-typed measurement columns -- x,y int64 always, plus int32 / mixed 32 and 64 bit / one coordinate integer and one float / integer size and mass "
        "(2 of 6 sampled in the quick tier, all in thorough) -- under index layouts default / shuffled / frame_index / duplicate / string labels; "
        "every pipeline of the 5 producers + subtract_drift(t, given non-integral drift) up to depth 1 (quick: + link->subtract_drift and sampled depth 2; thorough: "
        "all depth 2 + sampled depth 3), each stage and then all 12 consumers + subtract_drift(t, drift) run in lock-step on the table and on its float64 twin "
        "(same values, same index): same accept/raise outcome and same numbers required, filters additionally keep values and dtypes; "
        "non-trivial = the start table has an integer-typed measurement column (tallies 'dtype ...' give variants, layouts, integral / non-integral drift, "
        "dtypes after each pipeline).  distinct by content hash")
    chk.coverage['exhaustive'] = True
    chk.assumptions += [
        "Gen/filtering.v is produced from the current trackpy/filtering.py and trackpy/utils.py (pandas_sort, guess_pos_columns) by "
        "tools/py2coq_filtering.py (trusted, fail-closed; subset, conventions and the list of pandas primitives in its docstring and in "
        "Model/PyFiltering.v); pandas_sort's *args/**kwargs are the flag inplace (the translator checks every call site in trackpy/); "
        "an Index object shared between two tables (renaming one renames the other) is not modelled; link / link_partial / "
        "compute_drift / subtract_drift / cluster around the generated helpers are the hand-written stage skeletons (C13 / C18 own their text)",
        "tables with a column 'z': C20_gen_compose_3d / C20_gen_same_numbers_3d need no hypothesis on z; compute_drift / subtract_drift also stand in the "
        "composition as Gen/drift.v's functions read on layouts (Model/PyDriftSchema.v SchemaDI: exceptions propagated by the interpretation because Gen/drift.v "
        "has no exception monad; C20_gen_compose_all_generated) and link's column / dtype effect is Gen/coords.v's py_link (C20_gen_link_layout, any Linker); "
        "Gen/drift.v, Gen/coords.v and Gen/msd.v are regenerated by the C18 / C01 / C17 checks, not by this one: C20's cone is built against the files on disk; "
        "Gen/msd.v has no layout content (its tables are (particle, frame, positions) lists), so imsd / emsd stay Model/TrajLayout.v's stages in the layout theorems "
        "and appear as generated code only in the concrete run ex3_pipeline (glue between the four table vocabularies: Model/TrajPipeline3.v, re-reading only)",
        "pandas semantics are modelled, not verified: groupby-filter algorithm (sorted unique non-NaN keys, positions, np.sort, take), "
        "Series.count/mean skipping NaN, linear-interpolation quantile, and the label-ambiguity rule of sort_values/groupby; each is exercised by the correspondence",
        "filter_clusters: float mean vs exact mean decided with margin >= 1e-9 (sizes are multiples of 1/4; exact ties at dyadic means are exercised; smaller non-zero margins are skipped and counted)",
        "filter_clusters(quantile): pandas' float quantile is compared with the exact one within 1e-9; a trajectory mean inside that band may go either way",
        "C20_same_numbers is about the index data-flow with the numeric kernels abstract; that msd/imsd/emsd/cluster/proximity/relate_frames never read the index is covered by the correspondence (numbers compared with the same data default-indexed), not by a theorem",
        "link/link_partial labels are compared as partitions (tie-breaking by object address is not deterministic)",
        "a consumer that fails identically on the default-indexed data (empty table after a filter that removes everything) is counted, not reported",
        "part (c): frame and particle columns are int64 and positions signed integers within the dtype's range; unsigned position columns (compute_drift's "
        "diff wraps around), 8/16-bit integer positions (pandas' diff then computes the drift in float32, so the numbers agree with the float64 table only "
        "to float32 precision), narrower frame / particle dtypes and pandas nullable dtypes are outside the generated family; integer and float64 tables are "
        "compared for equal values (all intermediate sums of the small integers used are exact in both)",
    ]


def replay(chk, path):
    import trackpy as tp
    common.quiet_trackpy()
    if not build(chk):
        return
    r = json.load(open(path))['replay']
    kind = r.get('kind')
    if kind in ('filter_stubs', 'filter_clusters', 'filter_clusters_quantile'):
        df = table_from_json(r['table'])
        obs, means = group_stats(df)
        before = snapshot(df)
        if kind == 'filter_stubs':
            out = tp.filter_stubs(df, r['threshold'])
            exp = expected_rids(df, lambda p: obs[p] >= r['threshold'])
            term, func = None, 'check_stubs'
        elif kind == 'filter_clusters':
            out = tp.filter_clusters(df, threshold=r['threshold'])
            T = common.frac(float(r['threshold']))
            exp = expected_rids(df, lambda p: means[p] is not None and means[p] < T)
            func = 'check_clusters'
        else:
            out = tp.filter_clusters(df, quantile=r['quantile'])
            cut = exact_quantile(df['size'].tolist(), r['quantile'])
            exp = [] if cut is None else expected_rids(df, lambda p: means[p] is not None and means[p] < cut)
            func = 'check_clusters_q'
        got = [int(x) for x in out['rid'].tolist()]
        if kind == 'filter_stubs':
            term = "(%s, %s, %s)" % (row_terms(df), cZ(r['threshold']), clist([cnat(x) for x in got]))
        elif kind == 'filter_clusters':
            term = "(%s, %s, %s)" % (row_terms(df), cQ(float(r['threshold'])), clist([cnat(x) for x in got]))
        else:
            term = "(%s, %s, %s, %s)" % (row_terms(df), cQ(r['quantile']), cQ(Fraction(1, 10 ** 9)), clist([cnat(x) for x in got]))
        res = common.coq_eval_lists(chk.work, IMPORTS, func, [term])
        chk.count(('replay', r['table'], kind), True)
        print('replay: %s kept rows %s; definition: %s; model code %d' % (kind, got, exp, res[0]))
        if got != exp:
            chk.violation('%s:rows-differ-from-definition' % kind.replace('_quantile', ''), 'kept %s, definition %s' % (got, exp), dict(r, impl_rids=got, expected_rids=exp))
        if res[0] != 0:
            chk.violation('%s:model-mismatch' % kind, 'differs from the Coq model', dict(r, impl_rids=got))
        for sig, text in monitor_filter_output(kind.replace('_quantile', ''), df, before, out):
            chk.violation(sig, text, dict(r, impl_rids=got))
    elif kind == 'compose':
        t0 = table_from_json(r['table'])
        terms, cases = [], []
        explore(chk, r.get('table_name', 'replay'), t0, [tuple(r['pipeline'])], terms, cases)
        if 'z' in t0.columns:
            res = common.coq_eval_lists(chk.work, IMPORTS3, 'check_layout3', terms, tag='layout3')
        else:
            res = common.coq_eval_lists(chk.work, IMPORTS, 'check_layout', terms, tag='layout')
        print('replay: pipeline %s observed %s ; model comparison codes %s' % (r['pipeline'], [c['observed'] for c in cases], res))
        for code, c in zip(res, cases):
            if code != 0:
                chk.violation('compose:%s:model-mismatch' % ('->'.join(r['pipeline']) or 'start'), 'layout model mismatch code %d' % code, c)
    elif kind == 'dtype':
        t0 = table_from_json(r['table'])
        cons = [r['consumer']] if r.get('consumer') else []
        dtype_explore(chk, r.get('table_name', 'replay'), t0, [tuple(r['pipeline'])], cons, r.get('meta'))
        if not cons:
            chk.count(('replay', r['table'], tuple(r['pipeline'])), True)
        print('replay: dtypes %s, pipeline %s, consumer %s: %d violation(s)' % (r['table']['dtypes'], r['pipeline'], r.get('consumer'), len(chk.violations)))
    else:
        print('replay: nothing executable in this replay file (proof/correspondence breakage): see its log field')
