"""C16 -- refine_leastsq honours bounds, survives failed fits, recovers exact models.

Tie (route C) in three layers, all compared inside Coq (Model/RefineCheck.v):
  (a) FitFunctions.validate_bounds(bounds, radius) of the implementation ==
      Model.validate_bounds  (exact: the values are copied, never computed);
  (b) FitFunctions.compute_bounds(validated, params, groups) ==
      Model box_low / box_high  (special values exactly, finite values within
      2^-40 relative: one rounded float operation per entry);
  (c) monitor on real refine_leastsq runs (check_unit): per unit (cluster, or the
      whole table at level 'global') the start rows, the returned rows and the
      cost column are embedded in a Coq term; failed units (cost NaN) must be
      bit-identical to their input; fitted units must be unpack(vector) of a
      vector inside the model's box (this is the conclusion of theorem
      C16_success_in_bounds, evaluated on the implementation's own output),
      const columns untouched, cost equal within the unit.
Python-side monitors: no exception leaves refine_leastsq; row labels, row count
and foreign columns preserved; a unit with a non-finite start parameter or
entirely outside the padded image must have cost NaN; on noise-free images
drawn from the fitted model with separated features every feature is fitted
and ends < 0.1 px from the true centre (starts up to 1.5 px off).  The accuracy
sentence has no theorem (optimiser + analysis): monitor only.

Route T (bounds assembly): tools/py2coq_bounds.py re-translates the CURRENT source of
FitFunctions.validate_bounds / compute_bounds and their wiring in refine_leastsq into
coq/Gen/bounds.v on every run; the cone of Properties/C16.v (Proofs/BoundsGen.v:
generated = hand model for all inputs) is rebuilt.  A translation error or a proof that
no longer checks is reported through chk.proof_broken and the run still searches for a
concrete failing input with the hand model.  In addition (d) every direct case is run
through the generated code (Model/RefineGenCheck.check_gen_box, from diameter).

Route T (driver): tools/py2coq_refinedriver.py re-translates, on every run, refine_leastsq from `for _, f_iter in iterable:` to
`return f` (try / except RefineException / else, the recentring loop with its break, the rms test after the loop, the
compute_error block, write-back and NaN cost; plus the check that nothing outside the closures of get_residual can raise)
into coq/Gen/refinedriver.v; Proofs/RefinedriverGen.v proves generated = Model/RefineDriver2.run2 for all oracles, and
C16_gen_driver_full restates C16_driver_full for the generated driver.  Same reporting: translation error / broken proof ->
chk.proof_broken, the run continues with the hand model.

  (e) driver replay (Model/RefineCheck2.check_drive): during every real run the calls of
      prepare_subimages / minimize / compute_bounds are recorded (wrappers installed on the
      imported module, /repo untouched); per unit the recorded per-iteration outcomes are
      the oracles of the driver model Model/RefineDriver2.v (theorem C16_driver_full is
      about exactly this model, for arbitrary oracles); model and implementation must
      agree on the number of recentring iterations, failed / fitted, every written-back
      value and the cost.  Family 'exhaust' drives the loop into exhaustion of max_iter
      (max_iter 1-2, starts 1-2.5 px off, tiny max_shift, poor model fits with small
      max_rms_dev): finite cost implies cost <= max_rms_dev and values within bounds,
      NaN cost implies inputs kept.

Family 'frames' (multi-frame readers): a frames sequence and a table over 2-4 frames, mostly with a 'global'
parameter, clusters of >= 2 members in frames before the last one.  At level 'global' the fit groups are the values
of the cluster column over all frames and each group is cut out of the image of the frame of its first member, so
the monitors are: no cluster id shared between frames, and every separated feature recovered < 0.1 px in ITS frame.
"""
import json, math, os, sys, hashlib
import numpy as np
import pandas as pd
from fractions import Fraction
import common
from common import cnat, cQ, clist, copt

IMPORTS = "From TP Require Import Model.RefineBounds Model.RefineDriver Model.RefineCheck."
IMPORTS_GEN = "From TP Require Import Model.RefineBounds Model.RefineDriver Model.RefineCheck Model.RefineGenCheck."
IMPORTS_DRIVE = "From TP Require Import Model.RefineBounds Model.RefineDriver Model.RefineCheck Model.RefineDriver2 Model.RefineCheck2."
TRANSLATOR = os.path.join(common.VERIF, 'tools', 'py2coq_bounds.py')
GEN = os.path.join(common.COQ, 'Gen', 'bounds.v')
TRANSLATOR_DRV = os.path.join(common.VERIF, 'tools', 'py2coq_refinedriver.py')
GEN_DRV = os.path.join(common.COQ, 'Gen', 'refinedriver.v')
TRANSLATORS = [(TRANSLATOR, GEN, 'the bounds assembly'),
               (TRANSLATOR_DRV, GEN_DRV, 'the driver of refine_leastsq: unit loop / try-except scope / recentring loop / rms test / write-back')]
STATE = dict(gen_ok=False, drive_ok=False)
TOL_SHIFT = Fraction(1, 10 ** 9)
RESIDUAL_FACTOR = 100000.      # default of refine_leastsq; the harness never passes another value
TOL_BOX = Fraction(1, 2 ** 40)
TOL_MON = Fraction(1, 10 ** 9)

CODES = {0: 'ok',
         1: 'failed unit (cost NaN) but a parameter differs from its input value',
         2: 'fitted parameters outside the requested/default bounds (vector outside the box)',
         4: 'fitted rows are not unpack(vector): a const column changed or a global/cluster column is not constant on its group',
         5: 'cost is NaN on some rows of a unit and a number on others',
         6: 'shapes disagree', 11: 'validate_bounds: absolute bounds differ from the model',
         12: 'validate_bounds: difference bounds differ from the model', 13: 'validate_bounds: relative bounds differ from the model',
         21: 'compute_bounds: lower bounds differ from the model', 22: 'compute_bounds: upper bounds differ from the model',
         31: 'unit with a non-finite start parameter reported as fitted', 32: 'fitted unit contains a non-finite parameter',
         33: 'cost differs within a unit or is negative',
         41: 'driver replay: the model ends in RefineException (cost NaN, values kept) but the implementation reports a fit',
         42: 'driver replay: the model reports a fit but the implementation has cost NaN',
         43: 'driver replay: written-back parameters differ from the model (wrong iteration written back?)',
         44: 'driver replay: cost differs from the rms deviation of the last iteration',
         45: 'driver replay: the model lets an exception escape',
         46: 'driver replay: number of recentring iterations differs from the model'}
DRIVE_OK = {100: 'ended by break, fitted', 101: 'ended by break, rms_dev > max_rms_dev', 102: 'max_iter exhausted without break, fitted',
            103: 'max_iter exhausted without break, rms_dev > max_rms_dev', 104: 'RefineException inside the loop',
            105: 'non-finite start values'}

SKIP_EMPTY = 'skipped (outside the property): bounds infeasible for some unit (empty box)'
SKIP_NANPOS = 'skipped (outside the property): non-finite position'

POS = {2: ['y', 'x'], 3: ['z', 'y', 'x']}


# --------------------------------------------------------------------------
# translator / build (route T)
# --------------------------------------------------------------------------
def regenerate(chk, translator=None, gen=None):
    """re-run a translator on the current source; returns (ok, text-or-log)"""
    translator, gen = translator or TRANSLATOR, gen or GEN
    name = 'Gen/' + os.path.basename(gen)
    rc, out = common.sh([sys.executable, translator, '--repo', common.REPO, '--stdout'], timeout=60)
    if rc != 0:
        return False, out
    with common.Lock(os.path.join(common.COQ, '.build.lock')):
        old = open(gen).read() if os.path.exists(gen) else None
        if old != out:
            os.makedirs(os.path.dirname(gen), exist_ok=True)
            tmp = gen + '.tmp%d' % os.getpid()
            with open(tmp, 'w') as f:
                f.write(out)
            os.replace(tmp, gen)
            chk.tally('%s rewritten (source differs from last run)' % name)
        else:
            chk.tally('%s unchanged' % name)
    return True, out


def ensure_vo(chk, targets, what):
    """executable model files needed by the correspondence run even when a proof of the cone is broken"""
    with common.Lock(os.path.join(common.COQ, '.build.lock')):
        rc, out = common.sh('timeout 600 make %s 2>&1 | tail -40' % ' '.join(t + 'o' for t in targets), timeout=630, cwd=common.COQ)
        for t in targets:
            vo = os.path.join(common.COQ, t + 'o')
            if not (os.path.exists(vo) and os.path.getmtime(vo) >= os.path.getmtime(os.path.join(common.COQ, t))):
                chk.proof_broken(what, out)
                return False
    return True


def build(chk):
    """translators -> cone of Properties/C16.v -> executable check files"""
    STATE['gen_ok'] = STATE['drive_ok'] = False
    texts = {}
    for tr, gen, what in TRANSLATORS:
        ok1, text = regenerate(chk, tr, gen)
        if ok1:
            texts[gen] = text
        else:
            chk.proof_broken('translation tools/%s (%s left the translatable subset)' % (os.path.basename(tr), what), text)
    ok = len(texts) == len(TRANSLATORS)
    if not ok:
        chk.build = dict(obligations=0, discharged=0, assumptions=[], files=[], theorems=[])
    else:
        for attempt in range(3):
            b = chk.coq()
            if all(open(g).read() == t for g, t in texts.items()):
                break
            # another run (different TRACKPY_REPO) rewrote a generated file in between: redo
            chk.violations = [v for v in chk.violations if not v[0].startswith('proof:')]
            for tr, gen, what in TRANSLATORS:
                regenerate(chk, tr, gen)
        for gen, text in texts.items():
            chk.notes.append('Gen/%s sha1 %s generated from %s' % (os.path.basename(gen), hashlib.sha1(text.encode()).hexdigest()[:12], common.REPO))
    # the hand model and the monitors must be executable whatever happened above
    base = ensure_vo(chk, ['Model/RefineBounds.v', 'Model/RefineDriver.v', 'Model/RefineCheck.v'], 'Model/RefineCheck.v (hand model does not build)')
    STATE['drive_ok'] = base and ensure_vo(chk, ['Model/RefineCheck2.v'], 'Model/RefineCheck2.v (driver replay does not build)')
    if GEN in texts:
        STATE['gen_ok'] = base and ensure_vo(chk, ['Model/RefineGenCheck.v'], 'Gen/bounds.v / Model/RefineGenCheck.v (generated bounds code does not build)') \
            and open(GEN).read() == texts[GEN]
    return base


# --------------------------------------------------------------------------
# Coq literal emission
# --------------------------------------------------------------------------
def cE(x):
    x = float(x)
    if math.isnan(x):
        return "NaN"
    if math.isinf(x):
        return "PInf" if x > 0 else "NInf"
    return "(Fin %s)" % cQ(x)


def param_names(ndim, iso):
    pos = POS[ndim]
    size = ['size'] if iso else ['size_' + c for c in pos]
    return ['background', 'signal'] + pos + size


def pkind_term(name, ndim, iso):
    pos = POS[ndim]
    if name == 'background':
        return 'PBackground'
    if name == 'signal':
        return 'PSignal'
    if name in pos:
        return '(PPos %s)' % cnat(pos.index(name))
    if name == 'size' and iso:
        return '(PSize %s)' % cnat(0)
    if name.startswith('size_'):
        return '(PSize %s)' % cnat(pos.index(name[5:]))
    raise KeyError(name)


def key_term(key, ndim, iso):
    form = 'FAbs'
    base = key
    if key.endswith('_abs'):
        form, base = 'FDiff', key[:-4]
    elif key.endswith('_rel'):
        form, base = 'FRel', key[:-4]
    if base == 'pos':
        return '(KPos %s)' % form
    if base == 'size':            # isotropic: the parameter itself; anisotropic: the broadcast key
        return '(KSize %s)' % form
    return '(KParam %s %s)' % (pkind_term(base, ndim, iso), form)


def val_term(v):
    if isinstance(v, (tuple, list)):
        return '(Pair %s %s)' % (cE(v[0]), cE(v[1]))
    return '(Scalar %s)' % cE(v)


def dict_term(bounds, ndim, iso):
    return clist(['(%s, %s)' % (key_term(k, ndim, iso), val_term(v)) for k, v in bounds.items()])


def grouping_term(groups):
    if groups is None:
        return 'None'
    return '(Some %s)' % clist([clist([cnat(i) for i in g]) for g in groups])


def head_term(c):
    """(dict, radius, ps, modes) of a case"""
    names = param_names(c['ndim'], c['iso'])
    return dict_term(c['bounds'], c['ndim'], c['iso']), clist([cQ(r) for r in c['radius']]), \
        clist([pkind_term(n, c['ndim'], c['iso']) for n in names])


# --------------------------------------------------------------------------
# bounds dictionaries
# --------------------------------------------------------------------------
NAN = float('nan')
INF = float('inf')


def py_bounds(b):
    """json-able dict -> what is handed to trackpy (np.nan object for scalars that are NaN)"""
    out = {}
    for k, v in b.items():
        if isinstance(v, (list, tuple)):
            out[k] = (float(v[0]), float(v[1]))
        else:
            out[k] = np.nan if math.isnan(float(v)) else float(v)
    return out


def js_bounds(b):
    def s(x):
        x = float(x)
        return repr(x)
    return {k: ([s(v[0]), s(v[1])] if isinstance(v, (list, tuple)) else s(v)) for k, v in b.items()}


def unjs_bounds(b):
    return {k: ((float(v[0]), float(v[1])) if isinstance(v, list) else float(v)) for k, v in b.items()}


def gen_bounds(rng, ndim, iso, wild=False):
    """a bounds dictionary; values are dyadic so that the model sees exactly what the code sees"""
    pos = POS[ndim]
    sizes = ['size'] if iso else ['size_' + c for c in pos]
    b = {}
    n = rng.choice([0, 1, 1, 2, 2, 3, 4])
    pool = (['pos_abs', 'pos_abs'] + [p + '_abs' for p in pos] + ['pos_rel', pos[-1] + '_rel'] +
            ['signal', 'signal', 'signal_abs', 'signal_rel', 'background', 'background_abs', 'background_rel'] +
            ['size', 'size_abs', 'size_rel'] + ([s for s in sizes] + [sizes[0] + '_rel', sizes[-1] + '_abs'] if not iso else []))
    for _ in range(n):
        k = rng.choice(pool)
        base = k[:-4] if k.endswith(('_abs', '_rel')) else k
        if k.endswith('_abs'):
            choices = [0.25, 0.5, 1.0, 2.0, 8.0, (0.25, 0.0), (0.0, 0.5), (NAN, 1.0), (0.5, NAN), (1.0, 2.0), INF, (INF, 0.5)]
            if base in ('signal', 'background'):
                choices += [20.0, (10.0, 40.0), 64.0]
        elif k.endswith('_rel'):
            choices = [1.25, 1.5, 2.0, (1.5, 1.25), (NAN, 2.0), (2.0, NAN), 4.0, (INF, 2.0)]
        elif base == 'signal':
            choices = [(100.0, 180.0), (NAN, 160.0), (50.0, NAN), (1.0, 1000.0), (0.0, INF), (120.0, 120.0)]
        elif base == 'background':
            choices = [(0.0, 20.0), (NAN, 12.0), (1.0, NAN), (0.0, 255.0), (-INF, INF)]
        else:  # size, size_y, ...
            choices = [(2.0, 4.0), (1.0, NAN), (NAN, 6.0), (0.5, 16.0)]
        if wild:
            choices += [0.0, -1.0, (2.0, 1.0), (-1.0, -2.0), NAN, (NAN, NAN), (INF, INF), 1e6, (1e-3, 1e-3)]
        v = rng.choice(choices)
        if v == (INF, INF) and not k.endswith(('_abs', '_rel')):
            v = (NAN, NAN)   # an absolute box [inf, inf] admits no finite value: outside the property (argument error)
        b[k] = v
    return b


def gen_modes(rng, ndim, iso, allow_global=True):
    """param_mode argument (None = defaults); never all-const"""
    r = rng.random()
    if r < 0.3:
        return None
    pm = {}
    kinds = ['var', 'const', 'cluster'] + (['global'] if allow_global else [])
    if rng.random() < 0.6:
        pm['size'] = rng.choice(kinds)
    if rng.random() < 0.4:
        pm['signal'] = rng.choice(kinds)
    if rng.random() < 0.3:
        pm['background'] = rng.choice(['cluster', 'const'] + (['global'] if allow_global else []))
    if rng.random() < 0.12:
        pm['pos'] = rng.choice(['const', 'cluster'])
    if (not iso) and rng.random() < 0.4:
        pm['size_' + POS[ndim][-1]] = rng.choice(kinds)
    if pm.get('pos') == 'const' and pm.get('signal') == 'const' and pm.get('background') == 'const' \
            and pm.get('size', 'const') == 'const':
        pm['signal'] = 'var'
    return pm or None


# --------------------------------------------------------------------------
# (a) + (b): validate_bounds / compute_bounds against the model
# --------------------------------------------------------------------------
def dyadic(rng, lo, hi, bits=6):
    return rng.randint(int(lo * 2 ** bits), int(hi * 2 ** bits)) / 2 ** bits


def gen_direct(rng, tier):
    ndim = rng.choice([2, 2, 3])
    iso = rng.random() < 0.6
    pm = gen_modes(rng, ndim, iso)
    bounds = gen_bounds(rng, ndim, iso, wild=rng.random() < 0.5)
    radius = [rng.choice([3, 4, 5, 6, 7]) for _ in range(ndim)]
    if iso:
        radius = [radius[0]] * ndim
    par = rng.randint(0, 1)
    diameter = [2 * r + par for r in radius]      # refine_leastsq: radius = diameter // 2
    n = rng.randint(1, 6)
    names = param_names(ndim, iso)
    style = rng.choice(['plain', 'plain', 'signed', 'zeros'])
    params = []
    for i in range(n):
        row = []
        for nm in names:
            if style == 'signed':
                row.append(dyadic(rng, -64, 64))
            elif style == 'zeros' and rng.random() < 0.3:
                row.append(0.0)
            elif nm == 'signal':
                row.append(dyadic(rng, 1, 255))
            elif nm == 'background':
                row.append(dyadic(rng, 0, 32))
            elif nm.startswith('size'):
                row.append(dyadic(rng, 1, 5))
            else:
                row.append(dyadic(rng, 0, 64))
        params.append(row)
    groups = None
    if rng.random() < 0.5:
        idx = list(range(n))
        rng.shuffle(idx)
        k = rng.randint(1, n)
        cuts = sorted(rng.sample(range(1, n), k - 1)) if n > 1 and k > 1 else []
        groups = [sorted(idx[a:b]) for a, b in zip([0] + cuts, cuts + [n])]
    return dict(ndim=ndim, iso=iso, param_mode=pm, bounds=bounds, radius=radius, diameter=diameter, params=params, groups=groups)


def run_direct(c):
    from trackpy.refine.least_squares import FitFunctions
    ff = FitFunctions('gauss', c['ndim'], c['iso'], None if c['param_mode'] is None else dict(c['param_mode']))
    v = ff.validate_bounds(py_bounds(c['bounds']), radius=tuple(c['radius']))
    params = np.array(c['params'], dtype=np.float64)
    groups = None if c['groups'] is None else [[np.array(g) for g in c['groups']]]
    box = ff.compute_bounds(v, params, groups)
    return list(ff.modes), [a.tolist() for a in v], box.tolist()


def direct_terms(c, modes, v, box):
    d, rad, ps = head_term(c)
    impl_v = clist(['((%s, %s), (%s, %s), (%s, %s))' % (cE(v[0][0][j]), cE(v[0][1][j]), cE(v[1][0][j]), cE(v[1][1][j]),
                                                          cE(v[2][0][j]), cE(v[2][1][j])) for j in range(len(v[0][0]))])
    t1 = "check_validate %s %s %s %s" % (d, rad, ps, impl_v)
    cols = clist([clist([cQ(row[j]) for row in c['params']]) for j in range(len(c['params'][0]))])
    t2 = "check_box %s %s %s %s %s %s %s %s %s" % (
        d, rad, ps, clist([cnat(m) for m in modes]), grouping_term(c['groups']), cols,
        clist([cE(b[0]) for b in box]), clist([cE(b[1]) for b in box]), cQ(TOL_BOX))
    return "(match %s with 0%%N => %s | e => e end)" % (t1, t2)


def direct_gen_term(c, modes, box):
    """the same case through the GENERATED code, starting from diameter"""
    d, rad, ps = head_term(c)
    diam = c.get('diameter') or [2 * r + 1 for r in c['radius']]
    cols = clist([clist([cQ(row[j]) for row in c['params']]) for j in range(len(c['params'][0]))])
    return "check_gen_box %s %s %s %s %s %s %s %s %s" % (
        d, clist(['%d%%Z' % x for x in diam]), ps, clist([cnat(m) for m in modes]), grouping_term(c['groups']), cols,
        clist([cE(b[0]) for b in box]), clist([cE(b[1]) for b in box]), cQ(TOL_BOX))


# --------------------------------------------------------------------------
# (c): real runs
# --------------------------------------------------------------------------
def model_image(c, centres=None):
    """the image of a single-image case; with centres given: one frame of a multi-frame case (same model parameters)"""
    shape = tuple(c['shape'])
    nd = len(shape)
    idx = np.indices(shape).astype(np.float64)
    im = np.full(shape, float(c['bg']))
    for ctr in (c['centres'] if centres is None else centres):
        r2 = sum(((idx[k] - ctr[k]) / c['sizes'][k]) ** 2 for k in range(nd))
        im = im + c['signal'] * np.exp(-0.5 * nd * r2)
    if c.get('noise', 0) > 0:
        nrng = np.random.RandomState(c['noise_seed'])
        im = im + nrng.normal(0, c['noise'], shape)
    if c.get('image_kind') == 'zero':
        im = np.zeros(shape)
    elif c.get('image_kind') == 'const':
        im = np.full(shape, 7.0)
    elif c.get('image_kind') == 'uint8':
        im = np.clip(im, 0, 255).astype(np.uint8)
    return im


def fnum(x):
    return float(x)


def table_of(c):
    names = POS[c['ndim']] + c['extra_param_cols']
    data = {}
    for j, nm in enumerate(names):
        data[nm] = [fnum(r[j]) for r in c['rows']]
    f = pd.DataFrame(data, index=list(c['index']))
    if c.get('frame_col') is not None:
        f['frame'] = c['frame_col']
    if c.get('prior_cost'):
        # the table returned by an earlier refine_leastsq call (chained refinement): it already carries a finite cost
        f['cost'] = [0.0123 * (i + 1) for i in range(len(f))]
    if c.get('foreign'):
        f['mass'] = [float(i) * 1.5 for i in range(len(f))]
        f['tag'] = ['t%d' % i for i in range(len(f))]
    return f


class Recorder:
    """records what the recentring loop of refine_leastsq saw: one block per unit whose try block got as far as
    compute_bounds (i.e. finite start values), holding the start parameter array and, per iteration, whether
    prepare_subimages raised RefineException and what minimize returned.  The three names are rebound on the
    imported module object for the duration of one call; /repo is not touched."""

    def __init__(self):
        self.blocks = []

    def __enter__(self):
        import trackpy.refine.least_squares as ls
        self.ls = ls
        self.orig = (ls.minimize, ls.prepare_subimages, ls.FitFunctions.compute_bounds)
        rec = self
        o_min, o_prep, o_cb = self.orig

        def compute_bounds(self_ff, bounds, params, groups=None):
            rec.blocks.append(dict(params=np.array(params, dtype=np.float64).copy(), img=[], opts=[]))
            return o_cb(self_ff, bounds, params, groups)

        def prepare_subimages(*a, **k):
            try:
                r = o_prep(*a, **k)
            except ls.RefineException:
                if rec.blocks:
                    rec.blocks[-1]['img'].append(False)
                raise
            if rec.blocks:
                rec.blocks[-1]['img'].append(True)
            return r

        def minimize(*a, **k):
            try:
                res = o_min(*a, **k)
            except ls.RefineException:
                if rec.blocks:
                    rec.blocks[-1]['opts'].append(None)
                raise
            if rec.blocks:
                if not res['success']:
                    rec.blocks[-1]['opts'].append(None)
                else:
                    with np.errstate(all='ignore'):
                        rms = float(np.sqrt(res['fun'] / RESIDUAL_FACTOR))
                    rec.blocks[-1]['opts'].append(([float(v) for v in np.asarray(res['x'], dtype=np.float64)], rms))
            return res
        ls.minimize, ls.prepare_subimages, ls.FitFunctions.compute_bounds = minimize, prepare_subimages, compute_bounds
        return self

    def __exit__(self, *exc):
        self.ls.minimize, self.ls.prepare_subimages, self.ls.FitFunctions.compute_bounds = self.orig
        return False


class FrameSeq:
    """minimal frames sequence (what refine_leastsq needs of a pims.FramesSequence): frame_shape, indexable by frame
    number, len.  Frame numbers without features show the bare background."""

    def __init__(self, c):
        self.c = c
        self.frame_shape = tuple(c['shape'])
        self.images = {int(no): model_image(c, ctrs) for no, ctrs in zip(c['frame_list'], c['frame_centres'])}
        self.asked = []

    def __getitem__(self, i):
        i = int(i)
        self.asked.append(i)
        if i not in self.images:
            self.images[i] = model_image(self.c, [])
        return self.images[i]

    def __len__(self):
        return max(self.c['frame_list']) + 1


def run_refine(c):
    """-> ('ok', DataFrame out, DataFrame start-with-defaults, recorded blocks) | ('raised', exc, start, blocks)"""
    from trackpy.refine.least_squares import refine_leastsq
    im = FrameSeq(c) if c.get('frame_list') else model_image(c)
    f = table_of(c)
    kw = dict(c.get('kwargs', {}))
    if 'options' in kw:
        kw['options'] = dict(kw['options'])
    with Recorder() as rec:
        try:
            out = refine_leastsq(f.copy(), im, tuple(c['diameter']) if len(set(c['diameter'])) > 1 else c['diameter'][0],
                                 separation=c.get('separation'), param_mode=None if c['param_mode'] is None else dict(c['param_mode']),
                                 bounds=py_bounds(c['bounds']) if c['bounds'] is not None else None, **kw)
        except Exception as e:   # noqa
            return ('raised', e, f, rec.blocks)
    return ('ok', out, f, rec.blocks)


def start_value(f, name, label):
    """f: dict label -> dict column -> value"""
    if name in f[label]:
        return float(f[label][name])
    if name == 'background':
        return 0.0      # FitFunctions.default
    raise KeyError(name)


def all_out_of_image(coords, shape, radius):
    """get_slice drops a coordinate iff round(c) < -r or >= shape + r on some axis"""
    for co in coords:
        inb = True
        for k in range(len(shape)):
            if not math.isfinite(co[k]):
                return None
            rc = int(np.round(co[k]))
            if not (-radius[k] <= rc < shape[k] + radius[k]):
                inb = False
        if inb:
            return False
    return True


def units_of(out, level_global):
    """list of (labels, groups) following the driver: per (frame, cluster) group, or the whole table"""
    if level_global:
        labels = list(out.index)
        pos = {}
        for i, cl in enumerate(out['cluster'].values):
            pos.setdefault(int(cl), []).append(i)
        return [(labels, [pos[k] for k in sorted(pos)])]
    units = []
    for _, grp in out.groupby(['frame', 'cluster']):
        units.append((list(grp.index), None))
    return units


def unit_term(c, modes, labels, groups, fstart, out):
    """fstart / out: dict label -> dict column -> value (DataFrame.to_dict('index'))"""
    names = param_names(c['ndim'], c['iso'])
    d, rad, ps = head_term(c)
    start = clist([clist([cE(start_value(fstart, nm, L)) for L in labels]) for nm in names])
    outc = clist([clist([cE(out[L][nm]) for L in labels]) for nm in names])
    cost = clist([cE(out[L]['cost']) for L in labels])
    return "check_unit %s %s %s %s %s %s %s %s %s" % (d, rad, ps, clist([cnat(m) for m in modes]), grouping_term(groups),
                                                      start, outc, cost, cQ(TOL_MON))


def drive_term(c, modes, labels, groups, fstart, out, block):
    """replay of one unit through Model/RefineDriver2 (check_drive); block = the recorded iterations or None"""
    names = param_names(c['ndim'], c['iso'])
    d, rad, ps = head_term(c)
    start = clist([clist([cE(start_value(fstart, nm, L)) for L in labels]) for nm in names])
    outc = clist([clist([cE(out[L][nm]) for L in labels]) for nm in names])
    cost = clist([cE(out[L]['cost']) for L in labels])
    kw = c.get('kwargs', {})
    img = block['img'] if block else []
    opts = block['opts'] if block else []
    oterms = []
    for o in opts:
        if o is None or not (math.isfinite(o[1]) and all(math.isfinite(v) for v in o[0])):
            oterms.append('OFail')
        else:
            oterms.append('(OSucc %s %s)' % (clist([cQ(v) for v in o[0]]), cQ(o[1])))
    return "check_drive %s %s %s %s %s %s %s %s %s %s %s %s %s %s %s %s" % (
        d, rad, ps, clist([cnat(m) for m in modes]), cnat(c['ndim']), grouping_term(groups),
        cnat(int(kw.get('max_iter', 10))), cQ(float(kw.get('max_shift', 1))), cQ(float(kw.get('max_rms_dev', 1.0))), cQ(TOL_SHIFT),
        start, clist(['true' if b else 'false' for b in img]), clist(oterms), cnat(len(img)), outc, cost)


def empty_term(c, modes, labels, groups, fstart):
    names = param_names(c['ndim'], c['iso'])
    d, rad, ps = head_term(c)
    start = clist([clist([cE(start_value(fstart, nm, L)) for L in labels]) for nm in names])
    return "unit_box_empty %s %s %s %s %s %s" % (d, rad, ps, clist([cnat(m) for m in modes]), grouping_term(groups), start)


def modes_of(c):
    from trackpy.refine.least_squares import FitFunctions
    ff = FitFunctions('gauss', c['ndim'], c['iso'], None if c['param_mode'] is None else dict(c['param_mode']))
    return list(ff.modes)


# ---- generators of run cases ---------------------------------------------------
def place(rng, shape, margin, mindist, n, tries=200):
    cs = []
    t = 0
    while len(cs) < n and t < tries:
        t += 1
        ctr = [rng.uniform(margin[k], shape[k] - 1 - margin[k]) for k in range(len(shape))]
        if all(math.dist(ctr, o) > mindist for o in cs):
            cs.append(ctr)
    return cs


def offset(rng, nd, rmax):
    v = [rng.gauss(0, 1) for _ in range(nd)]
    nv = math.sqrt(sum(x * x for x in v)) or 1.0
    rad = rng.uniform(0, rmax)
    return [x / nv * rad for x in v]


def base_case(rng, family):
    nd = 3 if rng.random() < 0.15 else 2
    aniso = rng.random() < 0.2
    if nd == 2:
        d0 = rng.choice([9, 11, 13, 15])
        diameter = [d0, d0] if not aniso else [d0, d0 + 2]
        shape = [rng.randint(40, 56), rng.randint(44, 64)]
    else:
        d0 = rng.choice([7, 9])
        diameter = [d0] * 3 if not aniso else [d0 - 2, d0, d0]
        shape = [rng.randint(18, 22), rng.randint(22, 28), rng.randint(24, 30)]
    radius = [x // 2 for x in diameter]
    iso = len(set(diameter)) == 1
    rel = rng.uniform(0.2, 0.32)
    sizes = [round(rel * x * 64) / 64 for x in diameter]
    if iso:
        sizes = [sizes[0]] * nd
    c = dict(family=family, ndim=nd, iso=iso, diameter=diameter, radius=radius, shape=shape, sizes=sizes,
             signal=round(rng.uniform(50, 250) * 4) / 4, bg=round(rng.uniform(1, 30) * 4) / 4, noise=0, noise_seed=rng.randint(0, 2 ** 31 - 1),
             param_mode=None, bounds={}, kwargs={}, separation=None, frame_col=None, foreign=False, truth=None)
    c['extra_param_cols'] = ['signal'] + (['size'] if iso else ['size_' + p for p in POS[nd]]) + ['background']
    return c


def rows_from(rng, c, starts, exact=True):
    rows = []
    for s in starts:
        sig = c['signal'] * (1.0 if exact and rng.random() < 0.3 else rng.uniform(0.7, 1.3))
        bg = c['bg'] * (1.0 if exact and rng.random() < 0.3 else rng.uniform(0.5, 1.5))
        sz = list(c['sizes']) if c['iso'] is False else [c['sizes'][0]]
        if not exact:
            sz = [x * rng.uniform(0.8, 1.25) for x in sz]
        rows.append([float(x) for x in s] + [float(sig)] + [float(x) for x in sz] + [float(bg)])
    return rows


def finish_table(rng, c):
    n = len(c['rows'])
    r = rng.random()
    if r < 0.6:
        c['index'] = list(range(n))
    elif r < 0.8:
        c['index'] = rng.sample(range(100), n)
    else:
        c['index'] = [10 * (n - i) for i in range(n)]
    if rng.random() < 0.25:
        c['frame_col'] = rng.choice([0, 3, 7])
    c['foreign'] = rng.random() < 0.3
    c['prior_cost'] = rng.random() < 0.35
    if rng.random() < 0.15:      # background column absent -> FitFunctions.default 0.0
        c['extra_param_cols'] = c['extra_param_cols'][:-1]
        c['rows'] = [r_[:-1] for r_ in c['rows']]
    return c


def gen_accuracy(rng, tier):
    c = base_case(rng, 'accuracy')
    nd = c['ndim']
    n = rng.randint(1, 4 if nd == 2 else 2)
    margin = [r + 3 for r in c['radius']]
    c['centres'] = place(rng, c['shape'], margin, 1.5 * max(c['diameter']) + 3, n)
    starts = [[ctr[k] + o for k, o in enumerate(offset(rng, nd, 1.5))] for ctr in c['centres']]
    c['rows'] = rows_from(rng, c, starts, exact=True)
    c['truth'] = [list(x) for x in c['centres']]
    c['param_mode'] = rng.choice([None, None, dict(size='var'), dict(size='global'), dict(signal='cluster'), dict(size='cluster')])
    if rng.random() < 0.3:
        c['bounds'] = rng.choice([dict(pos_abs=4.0), dict(signal=(1.0, 1000.0)), dict(pos_abs=(3.0, 3.0), size=(0.5, 16.0)), dict(background=(0.0, 255.0))])
    return finish_table(rng, c)


def gen_nonconv(rng, tier):
    """healthy exact-model features, but SLSQP is allowed 1 or 2 iterations: it reports 'Iteration limit reached'
    (success False) for every start that is not already the optimum -> the unit must fail"""
    c = gen_accuracy(rng, tier)
    c['family'] = 'nonconvergent'
    c['kwargs'] = dict(options=dict(maxiter=rng.choice([1, 2]), disp=False))
    return c


def gen_exhaust(rng, tier):
    """the recentring loop is driven into exhaustion of max_iter: 1 or 2 iterations allowed, starts 1 - 2.5 px off,
    mostly a max_shift so small that the accept branch cannot fire; part of the cases fit a deliberately wrong
    model (size held constant at a wrong value, or a noisy image) under a small max_rms_dev, so that the test after
    the loop decides: finite cost must be <= max_rms_dev with values inside the bounds, NaN cost must keep the inputs"""
    c = base_case(rng, 'exhaust')
    nd = c['ndim']
    n = rng.randint(1, 3 if nd == 2 else 2)
    margin = [r + 4 for r in c['radius']]
    dimer = rng.random() < 0.25
    c['centres'] = place(rng, c['shape'], margin, (0.6 if dimer else 1.5) * max(c['diameter']) + (0 if dimer else 3), n)
    starts = []
    for ctr in c['centres']:
        v = [rng.gauss(0, 1) for _ in range(nd)]
        nv = math.sqrt(sum(x * x for x in v)) or 1.0
        rad = rng.uniform(1.0, 2.5)
        starts.append([ctr[k] + v[k] / nv * rad for k in range(nd)])
    poor = rng.choice(['no', 'no', 'size', 'noise', 'signal'])
    c['rows'] = rows_from(rng, c, starts, exact=True)
    c['param_mode'] = rng.choice([None, None, dict(size='var'), dict(signal='cluster'), dict(size='global')])
    if poor == 'size':
        k = rng.choice([0.5, 0.6, 1.6, 2.0])
        for r in c['rows']:
            for j in range(nd + 1, nd + 1 + (1 if c['iso'] else nd)):
                r[j] = r[j] * k
        c['param_mode'] = dict(size='const')
    elif poor == 'signal':
        for r in c['rows']:
            r[nd] = r[nd] * rng.choice([0.4, 1.8])
        c['param_mode'] = dict(signal='const')
    elif poor == 'noise':
        c['noise'] = rng.choice([4.0, 12.0])
    c['truth'] = None
    c['poor'] = poor
    kw = dict(max_iter=rng.choice([1, 1, 2, 2, 3]), max_shift=rng.choice([1e-6, 1e-3, 1e-3, 0.05, 0.5, 1]))
    r = rng.random()
    if r < 0.75:
        kw['max_rms_dev'] = rng.choice([1e-6, 1e-4, 1e-3, 5e-3, 0.02, 0.05, 0.1])
    c['kwargs'] = kw
    if rng.random() < 0.35:
        c['bounds'] = rng.choice([dict(pos_abs=3.0), dict(pos_abs=(1.0, 1.0)), dict(signal=(1.0, 1000.0)), dict(size=(0.5, 16.0)),
                                  dict(pos_abs=0.5), dict(signal_rel=1.5, background=(0.0, 255.0))])
    return finish_table(rng, c)


def gen_bounded(rng, tier):
    c = base_case(rng, 'bounds')
    nd = c['ndim']
    n = rng.randint(1, 5 if nd == 2 else 3)
    margin = [2] * nd
    dimers = rng.random() < 0.5
    c['centres'] = place(rng, c['shape'], margin, (0.55 if dimers else 1.2) * max(c['diameter']), n)
    c['noise'] = rng.choice([0, 0, 2.0, 8.0])
    starts = [[ctr[k] + o for k, o in enumerate(offset(rng, nd, rng.choice([0.5, 1.5, 3.0])))] for ctr in c['centres']]
    c['rows'] = rows_from(rng, c, starts, exact=rng.random() < 0.5)
    c['param_mode'] = gen_modes(rng, nd, c['iso'])
    c['bounds'] = gen_bounds(rng, nd, c['iso'], wild=rng.random() < 0.15)
    if rng.random() < 0.15:
        c['bounds'] = None
    if rng.random() < 0.2:
        c['separation'] = rng.choice([3, max(c['diameter']) + 4])
    if rng.random() < 0.1:
        c['image_kind'] = 'uint8'
    return finish_table(rng, c)


def gen_failure(rng, tier):
    """units that must or may fail, mixed with healthy ones"""
    c = base_case(rng, 'failure')
    nd = c['ndim']
    n = rng.randint(1, 3)
    margin = [r + 2 for r in c['radius']]
    c['centres'] = place(rng, c['shape'], margin, 1.5 * max(c['diameter']) + 3, n)
    starts = [[ctr[k] + o for k, o in enumerate(offset(rng, nd, 1.0))] for ctr in c['centres']]
    c['rows'] = rows_from(rng, c, starts, exact=True)
    c['truth'] = None
    kinds = []
    for _ in range(rng.randint(1, 3)):
        kind = rng.choice(['far_out', 'far_out', 'just_out', 'edge_in', 'nan_param', 'inf_param', 'flat', 'huge', 'negsize', 'dup'])
        kinds.append(kind)
        tmpl = list(rng.choice(c['rows']))
        sh, rad = c['shape'], c['radius']
        if kind == 'far_out':
            for k in range(nd):
                tmpl[k] = rng.choice([-50.0, sh[k] + 40.0, sh[k] / 2.0])
            tmpl[rng.randrange(nd)] = rng.choice([-30.0, 500.0])
        elif kind == 'just_out':
            k = rng.randrange(nd)
            for j in range(nd):
                tmpl[j] = sh[j] / 2.0 + 0.25
            tmpl[k] = rng.choice([-rad[k] - 0.75, sh[k] + rad[k] - 0.25, -rad[k] - 2.0, sh[k] + rad[k] + 1.5])
        elif kind == 'edge_in':
            k = rng.randrange(nd)
            for j in range(nd):
                tmpl[j] = sh[j] / 2.0 + 0.25
            tmpl[k] = rng.choice([-rad[k] + 0.75, sh[k] + rad[k] - 1.75, 0.0, sh[k] - 1.0])
        elif kind == 'nan_param':
            tmpl[rng.randrange(nd, len(tmpl))] = NAN
        elif kind == 'inf_param':
            tmpl[rng.randrange(nd, len(tmpl))] = rng.choice([INF, -INF])
        elif kind == 'flat':
            for j in range(nd):
                tmpl[j] = rng.choice([rad[j] + 1.0, sh[j] - rad[j] - 2.0])
        elif kind == 'huge':
            tmpl[nd] = rng.choice([1e300, 1e-300, 0.0, -100.0])
        elif kind == 'negsize':
            tmpl[nd + 1] = rng.choice([-3.0, 0.0, 1e-9])
        elif kind == 'dup':
            pass
        c['rows'].append(tmpl)
    c['kinds'] = kinds
    order = list(range(len(c['rows'])))
    rng.shuffle(order)
    c['rows'] = [c['rows'][i] for i in order]
    r = rng.random()
    if r < 0.15:
        c['kwargs'] = dict(max_rms_dev=rng.choice([1e-9, 1e-4]))
    elif r < 0.3:
        c['kwargs'] = dict(options=dict(maxiter=rng.choice([1, 2, 3]), disp=False))
    elif r < 0.4:
        c['kwargs'] = dict(max_iter=rng.choice([1, 2]), max_shift=rng.choice([1, 0.01]))
    elif r < 0.45:
        c['image_kind'] = rng.choice(['zero', 'const'])
    c['param_mode'] = gen_modes(rng, nd, c['iso'], allow_global=rng.random() < 0.3)
    if rng.random() < 0.4:
        c['bounds'] = gen_bounds(rng, nd, c['iso'])
    return finish_table(rng, c)


def gen_tight(rng, tier):
    """bounds at the edge of feasibility: absolute position windows that hold for some features only, zero-width
    and one-sided boxes, relative bounds on a zero default background; infeasible draws are filtered (and counted)
    by the Coq model before anything is run"""
    c = base_case(rng, 'tight')
    nd = c['ndim']
    margin = [r + 3 for r in c['radius']]
    c['centres'] = place(rng, c['shape'], margin, 1.5 * max(c['diameter']) + 3, 2)
    c['rows'] = rows_from(rng, c, [[round(v * 4) / 4 for v in x] for x in c['centres']], exact=True)
    ax = POS[nd][-1]
    kind = rng.choice(['abs_window', 'abs_window', 'point', 'rel_zero_bg', 'signal_window'])
    xs = sorted(r[nd - 1] for r in c['rows'])
    if kind == 'abs_window':
        c['bounds'] = {ax: (rng.choice([0.0, xs[0] - 1.0]), rng.choice([xs[0] + 2.0, xs[-1] - c['radius'][-1], xs[-1] + 1.0, xs[-1] - c['radius'][-1] - 0.25]))}
    elif kind == 'point':
        c['bounds'] = {ax + '_abs': 0.0, 'signal_rel': 1.0}
    elif kind == 'rel_zero_bg':
        c['extra_param_cols'] = c['extra_param_cols'][:-1]
        c['rows'] = [r[:-1] for r in c['rows']]
        c['bounds'] = {'background_rel': 2.0} if rng.random() < 0.5 else {'background_abs': (0.25, 0.5)}
    else:
        s0 = c['rows'][0][nd]
        c['bounds'] = {'signal': (s0, s0 + rng.choice([0.0, 10.0])), 'signal_abs': rng.choice([5.0, (0.0, 5.0)])}
    c['index'] = list(range(len(c['rows'])))
    return c


GLOBAL_MODES = [dict(signal='global'), dict(size='global'), dict(signal='var', size='global'), dict(background='global'),
                dict(signal='global', size='cluster'), dict(size='global', background='cluster'), dict(signal='global', size='global')]
CLUSTER_MODES = [None, dict(size='var'), dict(signal='cluster'), dict(size='cluster')]


def place_pair(rng, shape, margin, others, mindist, dlo, dhi, tries=200):
    """two centres dlo..dhi apart, both inside the margins and > mindist from `others`; None if no room"""
    nd = len(shape)
    for _ in range(tries):
        a = [rng.uniform(margin[k], shape[k] - 1 - margin[k]) for k in range(nd)]
        v = [rng.gauss(0, 1) for _ in range(nd)]
        if nd == 3:
            v[0] *= 0.3          # the z extent of the 3-D stacks is small
        nv = math.sqrt(sum(x * x for x in v)) or 1.0
        dist = rng.uniform(dlo, dhi)
        b = [a[k] + v[k] / nv * dist for k in range(nd)]
        if all(margin[k] <= b[k] <= shape[k] - 1 - margin[k] for k in range(nd)) and \
                all(math.dist(x, o) > mindist for x in (a, b) for o in others):
            return [a, b]
    return None


def gen_frames(rng, tier):
    """a multi-frame reader (frames sequence) and a table that spans 2-4 frames: every frame is a noise-free image of
    the same exact model (common signal / size / background, so that 'global' parameters are exact too) with its own
    centres; frame numbers contiguous from 0 or an arbitrary increasing selection (frames without features in
    between); rows grouped by frame or interleaved; part of the frames hold a pair closer than `separation` (a
    cluster with >= 2 members: either with disjoint masks and a large separation -- accuracy demanded -- or a truly
    overlapping dimer -- no accuracy demanded for its members); parameter modes at level 'global' (one fit over
    all frames, fit groups = clusters) or at level 'cluster' (one fit per (frame, cluster)); starts <= 1.5 px off"""
    c = base_case(rng, 'frames')
    nd = c['ndim']
    if nd == 2:
        d0 = rng.choice([9, 9, 11])
        diameter = [d0, d0] if c['iso'] else [d0, d0 + 2]
        shape = [rng.randint(56, 68), rng.randint(60, 76)]
    else:
        diameter = [7, 7, 7] if c['iso'] else [5, 7, 7]
        shape = [rng.randint(22, 24), rng.randint(32, 36), rng.randint(34, 40)]
    rel = rng.uniform(0.2, 0.3)
    sizes = [round(rel * x * 64) / 64 for x in diameter]
    if c['iso']:
        sizes = [sizes[0]] * nd
    c.update(diameter=diameter, radius=[x // 2 for x in diameter], shape=shape, sizes=sizes)
    dmax = max(diameter)
    mind = 1.5 * dmax + 3
    margin = [r + 3 for r in c['radius']]
    nf = rng.choice([2, 2, 3, 3, 4])
    frame_list = list(range(nf)) if rng.random() < 0.6 else sorted(rng.sample(range(0, 9), nf))
    sep_pairs = rng.random() < 0.7          # pairs with disjoint masks (else: overlapping dimers)
    centres, truth, frame_of, pair_frames = [], [], [], 0
    for k, no in enumerate(frame_list):
        want_pair = rng.random() < (0.85 if k < nf - 1 else 0.4)
        if want_pair:           # a pair and at least one more row (the cluster labels of the frame then have a hole)
            n = rng.randint(3, 4) if nd == 2 else rng.randint(2, 3)
        else:
            n = rng.randint(1, 3 if nd == 2 else 2)
        cs, exact = [], []
        if want_pair and n >= 2:
            pr = place_pair(rng, shape, margin, [], mind, mind, mind + 2) if sep_pairs else \
                place_pair(rng, shape, margin, [], mind, 0.6 * dmax, 0.8 * dmax)
            if pr:
                cs, exact = pr, [sep_pairs, sep_pairs]
                pair_frames += 1
        for _ in range(300):
            if len(cs) >= n:
                break
            ctr = [rng.uniform(margin[j], shape[j] - 1 - margin[j]) for j in range(nd)]
            if all(math.dist(ctr, o) > mind for o in cs):
                cs.append(ctr)
                exact.append(True)
        order = list(range(len(cs)))
        rng.shuffle(order)          # the pair is not always the first two rows of its frame
        centres.append([cs[i] for i in order])
        truth += [list(cs[i]) if exact[i] else None for i in order]
        frame_of += [no] * len(cs)
    c['frame_list'] = frame_list
    c['frame_centres'] = centres
    c['centres'] = [x for fr in centres for x in fr]
    starts = [[ctr[k] + o for k, o in enumerate(offset(rng, nd, 1.5))] for ctr in c['centres']]
    c['rows'] = rows_from(rng, c, starts, exact=True)
    if sep_pairs and pair_frames:
        c['separation'] = int(math.ceil(mind + 3)) + rng.choice([0, 0, 4])
    else:
        c['separation'] = rng.choice([None, None, dmax + 2])
    c['param_mode'] = rng.choice(GLOBAL_MODES) if rng.random() < 0.75 else rng.choice(CLUSTER_MODES)
    if rng.random() < 0.25:
        c['bounds'] = rng.choice([dict(pos_abs=4.0), dict(signal=(1.0, 1000.0)), dict(pos_abs=(3.0, 3.0), size=(0.5, 16.0)), dict(background=(0.0, 255.0))])
    full = (list(c['extra_param_cols']), [list(r) for r in c['rows']])
    finish_table(rng, c)
    if any(v == 'global' for v in c['param_mode'].values()) if c['param_mode'] else False:
        # one fit over the whole table: it keeps its background column.  (With the column absent the background starts
        # at the default 0.0, and SLSQP then runs into its iteration limit on tables of >= 8 features -- on a single
        # image just as well; that is a matter of table size, reported separately, not of the reader.)
        c['extra_param_cols'], c['rows'] = full
    if rng.random() < 0.35:         # rows of the frames interleaved
        order = list(range(len(c['rows'])))
        rng.shuffle(order)
        c['rows'] = [c['rows'][i] for i in order]
        truth = [truth[i] for i in order]
        frame_of = [frame_of[i] for i in order]
    c['truth'] = truth
    c['frame_col'] = frame_of
    return c


def frames_corpus():
    """the witness that showed the blind spot: two frames, frame 0 holds a cluster of two (11.8 px apart, separation 20),
    one common signal for all features"""
    tr = {0: [[15.3, 15.6], [15.8, 27.4], [45.2, 20.7], [40.4, 48.3]], 1: [[20.6, 40.3], [45.7, 14.2]]}
    offs = [(1.0, -1.0), (-0.9, 1.1), (0.7, 1.2), (-1.2, -0.8), (1.1, 0.9), (-1.0, 1.0)]
    flat = tr[0] + tr[1]
    out = []
    for pm in (dict(signal='global'), dict(signal='var', size='global')):
        out.append(dict(family='corpus', ndim=2, iso=True, diameter=[9, 9], radius=[4, 4], shape=[64, 64], sizes=[2.0, 2.0], signal=200.0, bg=0.0,
                        noise=0, noise_seed=1, frame_list=[0, 1], frame_centres=[tr[0], tr[1]], centres=flat, truth=[list(x) for x in flat],
                        rows=[[t[0] + o[0], t[1] + o[1], 150.0, 2.0, 0.0] for t, o in zip(flat, offs)], index=list(range(6)),
                        extra_param_cols=['signal', 'size', 'background'], param_mode=pm, bounds={}, kwargs={}, separation=20,
                        frame_col=[0, 0, 0, 0, 1, 1], foreign=False))
    return out


CORPUS = frames_corpus() + [
    # DESIGN §4 lists no defect for C16; these are the tricky cases met while building the check
    dict(family='corpus', ndim=2, iso=True, diameter=[13, 13], radius=[6, 6], shape=[40, 50], sizes=[3.0, 3.0], signal=200.0, bg=10.0,
         noise=0, noise_seed=1, centres=[[15.25, 20.5], [30.25, 40.5]], truth=[[15.25, 20.5], [30.25, 40.5]],
         rows=[[16.0, 20.0, 150.0, 3.0, 5.0], [31.0, 40.0, 150.0, 3.0, 5.0]], index=[0, 1],
         extra_param_cols=['signal', 'size', 'background'], param_mode=None, bounds={}, kwargs={}, separation=None, frame_col=None, foreign=False),
    dict(family='corpus', ndim=2, iso=True, diameter=[13, 13], radius=[6, 6], shape=[40, 50], sizes=[3.0, 3.0], signal=200.0, bg=10.0,
         noise=0, noise_seed=1, centres=[[15.25, 20.5], [15.75, 27.0], [30.25, 40.5]], truth=None,
         rows=[[16.0, 20.0, 150.0, 3.0, 5.0], [15.0, 28.0, 150.0, 3.0, 5.0], [31.0, 40.0, 150.0, 3.0, 5.0], [100.0, 100.0, 150.0, 3.0, 5.0],
               [20.0, 20.0, NAN, 3.0, 5.0]], index=[5, 3, 9, 1, 7],
         extra_param_cols=['signal', 'size', 'background'], param_mode=dict(size='global'), bounds={'x_abs': (0.25, 0.0), 'signal_rel': 1.25},
         kwargs={}, separation=None, frame_col=None, foreign=True),
    dict(family='corpus', ndim=2, iso=True, diameter=[13, 13], radius=[6, 6], shape=[40, 50], sizes=[3.0, 3.0], signal=200.0, bg=10.0,
         noise=0, noise_seed=1, centres=[[15.25, 20.5]], truth=None,
         rows=[[16.0, 20.0, 150.0, 3.0, 5.0]], index=[0],
         extra_param_cols=['signal', 'size', 'background'], param_mode=None, bounds={}, kwargs=dict(max_rms_dev=1e-9), separation=None,
         frame_col=None, foreign=False),
    dict(family='corpus', ndim=2, iso=True, diameter=[13, 13], radius=[6, 6], shape=[40, 50], sizes=[3.0, 3.0], signal=200.0, bg=10.0,
         noise=0, noise_seed=1, centres=[[15.25, 20.5]], truth=None,
         rows=[[5.0, 5.0, 150.0, 3.0, 5.0], [16.0, 20.0, 150.0, 0.0, 5.0]], index=[0, 1],
         extra_param_cols=['signal', 'size', 'background'], param_mode=dict(size='var'), bounds={'pos_abs': 0.5, 'signal': (100.0, 180.0)},
         kwargs={}, separation=None, frame_col=None, foreign=False),
]


# --------------------------------------------------------------------------
def case_json(c):
    j = dict(c)
    j['bounds'] = None if c['bounds'] is None else js_bounds(c['bounds'])
    j['rows'] = [[repr(float(x)) for x in r] for r in c['rows']]
    return j


def case_unjson(j):
    c = dict(j)
    c['bounds'] = None if j['bounds'] is None else unjs_bounds(j['bounds'])
    c['rows'] = [[float(x) for x in r] for r in j['rows']]
    return c


class Runs:
    """collects Coq terms of the units of many runs, evaluates them in one go"""

    def __init__(self, chk):
        self.chk = chk
        self.terms = []
        self.owner = []
        self.dterms = []
        self.downer = []
        self.reported = set()

    def violate(self, sig, text, c, extra=None):
        if sig in self.reported:
            return
        self.reported.add(sig)
        rep = dict(kind='run', case=case_json(c))
        if extra:
            rep.update(extra)
        self.chk.violation(sig, text, rep)

    def feasible(self, cases):
        """the cases inside the property's domain: finite positions, and a non-empty box for every unit
        (decided by the Coq model: unit_box_empty); the rest is counted and dropped"""
        from trackpy.static import cluster
        chk = self.chk
        terms, owner, keep = [], [], []
        for k, c in enumerate(cases):
            if not all(math.isfinite(r[j]) for r in c['rows'] for j in range(c['ndim'])):
                chk.tally(SKIP_NANPOS)
                keep.append(False)
                continue
            keep.append(True)
            cb = dict(c, bounds=c['bounds'] or {})
            modes = modes_of(c)
            f = table_of(c)
            cl = cluster(f.copy(), c['separation'] if c.get('separation') is not None else tuple(c['diameter']), POS[c['ndim']])
            fd = f.to_dict('index')
            for labels, groups in units_of(cl, 2 in modes):
                terms.append(empty_term(cb, modes, labels, groups, fd))
                owner.append(k)
        res = common.coq_eval_lists(chk.work, IMPORTS, "fun x : N => x", terms, shard=80 if chk.tier == 'quick' else 400, tag='feasible')
        for k, r in zip(owner, res):
            if r != 0:
                keep[k] = False
        out = []
        for c, ok in zip(cases, keep):
            if ok:
                out.append(c)
            elif all(math.isfinite(r[j]) for r in c['rows'] for j in range(c['ndim'])):
                chk.tally(SKIP_EMPTY)
                chk.tally(SKIP_EMPTY + ' / family=' + c['family'])
        return out

    def one(self, c):
        chk = self.chk
        c = dict(c)
        if c['bounds'] is None:
            cb = dict(c)
            cb['bounds'] = {}
        else:
            cb = c
        res = run_refine(c)
        modes = modes_of(c)
        level_global = 2 in modes
        nrows = len(c['rows'])
        chk.tally('family=' + c['family'])
        chk.tally('ndim=%d%s' % (c['ndim'], '' if c['iso'] else ' anisotropic'))
        chk.tally('level=' + ('global' if level_global else 'cluster'))
        if res[0] == 'raised':
            e = res[1]
            msg = '%s: %s' % (type(e).__name__, e)
            chk.count(('run', case_json(c)), True)
            self.violate('refine_leastsq raised ' + type(e).__name__, 'refine_leastsq raised %s on finite positions and a feasible bounds dictionary' % msg, c, dict(exception=msg))
            return
        out, f = res[1], res[2]
        blocks = list(res[3])
        # ---- Python-side monitors
        if len(out) != nrows or sorted(map(str, out.index)) != sorted(map(str, f.index)):
            self.violate('refine_leastsq: rows or labels lost', 'output has %d rows / labels %s for input labels %s' % (len(out), list(out.index), list(f.index)), c)
            return
        if 'cost' not in out.columns:
            self.violate('refine_leastsq: no cost column', 'no cost column in the output', c)
            return
        for col in f.columns:
            if col in ('mass', 'tag'):
                if list(out.loc[f.index, col]) != list(f[col]):
                    self.violate('refine_leastsq: foreign column changed', 'column %s changed' % col, c)
        multi = bool(c.get('frame_list'))
        if multi:
            chk.tally('frames: %d frames, level %s' % (len(c['frame_list']), 'global' if level_global else 'cluster'))
            chk.tally('frames: frame numbers ' + ('0..n-1' if c['frame_list'] == list(range(len(c['frame_list']))) else 'with gaps'))
            chk.tally('frames: rows ' + ('grouped by frame' if list(c['frame_col']) == sorted(c['frame_col']) else 'interleaved'))
            if list(out.loc[f.index, 'frame']) != list(f['frame']):
                self.violate('refine_leastsq: frame column changed', 'frame column of the output %s differs from the input %s'
                             % (list(out.loc[f.index, 'frame']), list(f['frame'])), c)
                return
            last = max(c['frame_list'])
            big = [int(fr) for (fr, _), g in out.groupby(['frame', 'cluster']) if len(g) >= 2]
            chk.tally('frames: cluster of >= 2 members ' + ('in a frame before the last one' if any(fr < last for fr in big) else
                                                             ('in the last frame only' if big else 'absent')))
        if level_global:
            # level 'global': the fit groups are the values of the cluster column over ALL frames, and every group is cut
            # out of the image of the frame of its first member: a cluster id shared by two frames fits a feature
            # against the image of a frame it is not in
            spans = {int(k): sorted(set(int(x) for x in g['frame'])) for k, g in out.groupby('cluster')}
            bad = {k: v for k, v in spans.items() if len(v) > 1}
            if bad:
                self.violate('refine_leastsq: a fit group of the global fit spans several frames',
                             'cluster ids shared between frames (id: frames) %s: the members are all fitted against the image of one frame' % bad, c)
        units = units_of(out, level_global)
        nfit = 0
        fd = f.to_dict('index')
        od = out[param_names(c['ndim'], c['iso']) + ['cost']].to_dict('index')
        for labels, groups in units:
            self.terms.append(unit_term(cb, modes, labels, groups, fd, od))
            self.owner.append(('unit', c, labels))
            costs = [float(od[L]['cost']) for L in labels]
            coords = [[float(fd[L][p]) for p in POS[c['ndim']]] for L in labels]
            fin = all(math.isfinite(start_value(fd, nm, L)) for nm in param_names(c['ndim'], c['iso']) for L in labels)
            ooi = all_out_of_image(coords, c['shape'], c['radius'])
            # ---- driver replay: the recorded iterations of this unit (units without finite start values have none)
            if STATE['drive_ok']:
                block = None
                if fin:
                    block = blocks.pop(0) if blocks else dict(params=None, img=[], opts=[])
                    want = np.array([[start_value(fd, nm, L) for nm in param_names(c['ndim'], c['iso'])] for L in labels], dtype=np.float64)
                    if block['params'] is None or block['params'].shape != want.shape or not np.array_equal(block['params'], want):
                        self.violate('refine_leastsq: the units fitted are not the (frame, cluster) groups of the table',
                                     'unit %s: the parameter array handed to compute_bounds is not the start rows of this unit' % (labels,), c)
                        block = None
                        blocks = []
                if block is not None or not fin:
                    self.dterms.append(drive_term(cb, modes, labels, groups, fd, od, block))
                    self.downer.append((c, labels, block))
            if not fin:
                chk.tally('unit: non-finite start parameter')
            elif ooi:
                chk.tally('unit: entirely outside the padded image')
            if (not fin or ooi) and not all(math.isnan(x) for x in costs):
                self.violate('refine_leastsq: a unit that cannot be fitted has a cost', 'unit %s (finite=%s, out of image=%s) has cost %s' % (labels, fin, ooi, costs), c)
            max_rms = float(c.get('kwargs', {}).get('max_rms_dev', 1.0))
            if any(x > max_rms for x in costs if not math.isnan(x)):
                self.violate('refine_leastsq: fitted unit with rms deviation above max_rms_dev', 'unit %s has cost %s > max_rms_dev %s' % (labels, costs, max_rms), c)
            if all(math.isnan(x) for x in costs):
                chk.tally('unit: failed (cost NaN)')
            else:
                nfit += 1
                chk.tally('unit: fitted, size %d' % min(len(labels), 4))
        # ---- accuracy (exact model, separated, noise free)
        demand = c.get('truth') is not None and c['family'] in ('accuracy', 'corpus', 'frames') and not c.get('kwargs')
        if demand and level_global and any(tr is None for tr in c['truth']):
            # one fit over the whole table, and the table holds overlapping features: not 'separated features'
            chk.tally('frames accuracy: not demanded (global fit over a table with an overlapping dimer)')
            demand = False
        if demand:
            worst = 0.0
            for L, tr in zip(f.index, c['truth']):
                if tr is None:       # member of an overlapping dimer: not a 'separated feature'
                    continue
                if math.isnan(float(out.loc[L, 'cost'])):
                    self.violate('refine_leastsq: exact-model feature not fitted', 'feature %s of a noise-free exact-model image got cost NaN' % L, c)
                    continue
                err = math.dist([float(out.loc[L, p]) for p in POS[c['ndim']]], tr)
                worst = max(worst, err)
                if err >= 0.1:
                    self.violate('refine_leastsq: exact-model centre off by >= 0.1 px', 'feature %s ends %.4f px from the true centre' % (L, err), c, dict(error=err))
            chk.tally(('frames accuracy' if multi else 'accuracy') + (': worst error < 1e-3' if worst < 1e-3 else (': worst error < 0.1' if worst < 0.1 else ': worst error >= 0.1')))
        if c['family'] == 'nonconvergent':
            for L, tr in zip(f.index, c['truth']):
                off = math.dist([float(fd[L][p]) for p in POS[c['ndim']]], tr)
                if off >= 0.25:
                    chk.tally('non-convergent start (SLSQP maxiter %d)' % c['kwargs']['options']['maxiter'])
                    if not math.isnan(float(od[L]['cost'])):
                        self.violate('refine_leastsq: non-converged fit accepted', 'feature %s: SLSQP limited to %d iteration(s) from a start %.2f px off, yet cost is %r'
                                     % (L, c['kwargs']['options']['maxiter'], off, od[L]['cost']), c)
        if STATE['drive_ok'] and blocks:
            self.violate('refine_leastsq: more units were fitted than the table has (frame, cluster) groups',
                         '%d recorded try blocks are left over after all units of the output were matched' % len(blocks), c)
        chk.count(('run', case_json(c)), (nfit > 0 or c['family'] in ('nonconvergent', 'failure', 'exhaust')) and (len(units) > 1 or bool(c['bounds']) or c['param_mode'] is not None))
        if len(chk.coverage['samples']) < 3 and c['family'] != 'corpus':
            chk.sample(dict(case=case_json(c), output={nm: [repr(float(x)) for x in out[nm]] for nm in param_names(c['ndim'], c['iso']) + ['cost']}))

    def flush(self):
        chk = self.chk
        res = common.coq_eval_lists(chk.work, IMPORTS, "fun x : N => x", self.terms, shard=80 if chk.tier == 'quick' else 250, tag='units')
        for (kind, c, info), r in zip(self.owner, res):
            if r != 0:
                self.violate('refine_leastsq: ' + CODES.get(r, str(r)), 'unit %s: %s' % (info, CODES.get(r, r)), c, dict(code=r, unit=[str(x) for x in info]))
        self.terms, self.owner = [], []
        if self.dterms:
            res = common.coq_eval_lists(chk.work, IMPORTS_DRIVE, "fun x : N => x", self.dterms, shard=60 if chk.tier == 'quick' else 200, tag='drive')
            for (c, labels, block), r in zip(self.downer, res):
                kw = c.get('kwargs', {})
                if r in DRIVE_OK:
                    chk.tally('driver replay: ' + DRIVE_OK[r])
                    if r in (102, 103):
                        chk.tally('driver replay: exhausted with max_iter=%s' % kw.get('max_iter', 10))
                    if c['family'] == 'exhaust':
                        chk.tally('exhaust family: ' + DRIVE_OK[r])
                elif r == 47:
                    chk.tally('driver replay: skipped, shift within 1e-9 of max_shift (float decision ambiguous)')
                else:
                    self.violate('refine_leastsq: ' + CODES.get(r, 'driver replay code %s' % r), 'unit %s: %s (recorded iterations: %d)'
                                 % (labels, CODES.get(r, r), len(block['img']) if block else 0), c, dict(code=r, unit=[str(x) for x in labels]))
        self.dterms, self.downer = [], []


def run(chk):
    import time, os
    t0 = time.time()

    def lap(what):
        if os.environ.get('C16_TIMING'):
            print('[c16 timing] %-28s %.1fs' % (what, time.time() - t0))
    common.quiet_trackpy()
    import logging
    logging.getLogger('trackpy').setLevel(logging.CRITICAL)
    build(chk)
    lap('translate + coq build')
    rng = chk.rng
    quick = chk.tier == 'quick'
    # (a) + (b)
    nd = 300 if quick else 3000
    cases, terms, gterms = [], [], []
    for _ in range(nd):
        c = gen_direct(rng, chk.tier)
        try:
            modes, v, box = run_direct(c)
        except Exception as e:   # noqa
            chk.violation('compute_bounds raised ' + type(e).__name__, 'validate_bounds/compute_bounds raised %r' % e,
                          dict(kind='direct', case=dict(c, bounds=js_bounds(c['bounds']))))
            continue
        cases.append(c)
        terms.append(direct_terms(c, modes, v, box))
        gterms.append(direct_gen_term(c, modes, box))
        chk.tally('direct: groups ' + ('given' if c['groups'] else 'None'))
    res = common.coq_eval_lists(chk.work, IMPORTS, "fun x : N => x", terms, shard=40 if quick else 150, tag='direct')
    seen = set()
    for c, r in zip(cases, res):
        chk.count(('direct', json.dumps(dict(c, bounds=js_bounds(c['bounds'])), sort_keys=True)), len(c['bounds']) > 0)
        if r != 0 and r not in seen:
            seen.add(r)
            chk.violation('bounds: ' + CODES.get(r, str(r)), CODES.get(r, str(r)), dict(kind='direct', code=r, case=dict(c, bounds=js_bounds(c['bounds']))))
    if cases:
        chk.sample(dict(direct=dict(cases[0], bounds=js_bounds(cases[0]['bounds']))))
    lap('direct bounds')
    # (d) the same cases through the generated code (translator + vocabulary against the implementation)
    if STATE['gen_ok']:
        res = common.coq_eval_lists(chk.work, IMPORTS_GEN, "fun x : N => x", gterms, shard=40 if quick else 150, tag='directgen')
        seen = set()
        for c, r in zip(cases, res):
            chk.tally('direct through Gen/bounds.v: ' + ('agrees' if r == 0 else 'differs'))
            if r != 0 and r not in seen:
                seen.add(r)
                chk.violation('generated bounds code: ' + CODES.get(r, str(r)), 'Gen/bounds.v (translated from the current source) disagrees with the '
                              'implementation it was translated from: ' + CODES.get(r, str(r)),
                              dict(kind='direct', code=r, via='generated', case=dict(c, bounds=js_bounds(c['bounds']))))
        lap('direct bounds, generated')
    else:
        chk.tally('direct through Gen/bounds.v: not run (generated code unavailable)')
    # (c)
    runs = Runs(chk)
    plan = [(gen_accuracy, 90 if quick else 900), (gen_bounded, 180 if quick else 2300), (gen_failure, 110 if quick else 1200),
            (gen_tight, 30 if quick else 300), (gen_nonconv, 30 if quick else 300), (gen_exhaust, 70 if quick else 400),
            (gen_frames, 40 if quick else 500)]
    todo = list(CORPUS)
    for gen, n in plan:
        todo += [gen(rng, chk.tier) for _ in range(n)]
    ok = runs.feasible(todo)
    lap('feasibility filter')
    for c in ok:
        runs.one(c)
    lap('refine_leastsq runs')
    runs.flush()
    lap('monitor in Coq')
    chk.coverage['rule'] = (
        "(a,b) FitFunctions.validate_bounds / compute_bounds on random dictionaries (own / broadcast keys, scalars, pairs, NaN, +-inf, reversed, zero, negative), "
        "dyadic parameter arrays, all mode vectors the API yields, groups None or a random partition; compared with the Coq model. "
        "(c) refine_leastsq on synthetic Gaussian images, 2-D/3-D, iso/anisotropic, single features and overlapping clusters, levels cluster/global, "
        "families: accuracy (noise-free exact model, starts <= 1.5 px off), bounds (random modes and dictionaries, noise), failure (out-of-image, edge, NaN/inf "
        "parameters, flat starts, tiny max_rms_dev, SLSQP maxiter 1-3, zero/constant images), exhaust (max_iter 1-3, starts 1-2.5 px off, max_shift down to 1e-6 so that the loop "
        "runs out without a break, wrong constant size/signal or noise with max_rms_dev 1e-6..0.1), frames (a frames-sequence reader and a table over 2-4 frames, "
        "frame numbers 0..n-1 or with gaps, rows grouped by frame or interleaved, every frame a noise-free exact-model image with its own centres, "
        "most frames before the last hold a cluster of >= 2 members followed by further rows -- disjoint masks under a large `separation`, or an overlapping dimer --, "
        "75 % parameter modes with a 'global' parameter (one fit over all frames; the table then carries its background column), 25 % per-cluster modes, starts <= 1.5 px off: "
        "all monitors of the other families, plus: frame column kept, at level global no cluster id (= fit group) shared between frames, every feature with "
        "a disjoint mask < 0.1 px from its true centre in ITS frame; accuracy not demanded for members of overlapping dimers nor for a global fit whose table holds one), tight (windows at the edge of feasibility, zero-width boxes), nonconvergent (exact-model features with SLSQP limited to 1-2 iterations: must fail), corpus; draws whose box is empty for some unit (decided by the Coq model) or with a non-finite position are invalid arguments, outside the property: counted as skipped, not run; "
        "every unit goes through the Coq monitor check_unit and through the driver replay check_drive (recorded prepare_subimages / minimize outcomes "
        "per iteration as oracles of Model/RefineDriver2; iteration count, failed/fitted, written-back values and cost must agree exactly); "
        "(d) every direct case also through the code generated from the current source (Gen/bounds.v). non-trivial = direct case with a non-empty dictionary / run with a fitted unit and "
        "(several units or a bounds dictionary or non-default modes); distinct by content")
    chk.assumptions += [
        "route T: tools/py2coq_bounds.py (fail-closed) and the vocabulary Model/PyBounds.v are trusted; exercised on every direct case by executing the generated code "
        "against the implementation; hand-written on the generated side: dict look-up / `is np.nan` / column membership / IEEE special values / nanmax,fmax / broadcasting / "
        "vect_from_params = pack (C15's subject)",
        "route T (driver): tools/py2coq_refinedriver.py (fail-closed) and the vocabulary Model/PyRefinedriver.v are trusted: control flow (try scope, loop, break, tests, "
        "place of every write) is translated generically; prepare_subimages, minimize (ValueError for an empty box, success / x / fun), the Hessian block, "
        "vect_from_params / vect_to_params = pack / unpack, the pandas writes (f.loc[idx, c] = v by position; f[c] = v at every row) are named primitives; "
        "compute_error=True is covered only by 'it can only add exceptions' (C16_gen_compute_error_only_adds_exceptions)",
        "driver replay: wrappers on minimize / prepare_subimages / FitFunctions.compute_bounds of the imported module record the oracle outcomes; rms_dev is recomputed as "
        "sqrt(fun / 100000.) (default residual_factor); the float shift test is guarded by running the model with max_shift (1 -+ 1e-9) (disagreement = skipped, counted)",
        "SLSQP returns a point of the box on success (hypothesis opt_in_box of C16_success_in_bounds); exercised by the monitor, not proved",
        "float arithmetic of compute_bounds agrees with exact rationals within 2^-40 relative; monitor tolerance on box membership 1e-9 relative",
        "no theorem covers 'no other Python exception escapes' or the 0.1 px accuracy sentence: monitor only (status partial)",
        "multi-frame readers are a minimal frames sequence of the harness (frame_shape, __getitem__ by frame number, __len__), not pims; frames of one case share "
        "shape, signal, size and background",
        "negative zero, constraints, compute_error, fit functions other than 'gauss', tables with duplicate index labels, empty tables "
        "and all-const parameter modes are outside the generated domain",
        "the feasibility filter computes the units with trackpy.static.cluster (the function refine_leastsq itself calls) and the boxes with the Coq model",
        "observed, outside the property: an empty box (lower > upper, also through default bounds) makes scipy raise ValueError out of refine_leastsq "
        "(C16_empty_box_is_rejected); a NaN/inf position raises ValueError in cluster() before any fit"]


def replay(chk, path):
    common.quiet_trackpy()
    import logging
    logging.getLogger('trackpy').setLevel(logging.CRITICAL)
    build(chk)
    r = json.load(open(path))['replay']
    if r.get('kind') == 'run':
        c = case_unjson(r['case'])
        runs = Runs(chk)
        ok = runs.feasible([c])
        if not ok:
            print('replay: this case is outside the property (non-finite position or empty box): nothing to check')
        for c1 in ok:
            runs.one(c1)
        runs.flush()
        res = run_refine(c)
        print('replay: refine_leastsq', 'raised %r' % (res[1],) if res[0] == 'raised' else 'returned\n' + res[1].to_string())
    elif r.get('kind') == 'direct':
        c = dict(r['case'])
        c['bounds'] = unjs_bounds(c['bounds'])
        modes, v, box = run_direct(c)
        if r.get('via') == 'generated' and STATE['gen_ok']:
            res = common.coq_eval_lists(chk.work, IMPORTS_GEN, "fun x : N => x", [direct_gen_term(c, modes, box)])
        else:
            res = common.coq_eval_lists(chk.work, IMPORTS, "fun x : N => x", [direct_terms(c, modes, v, box)])
        chk.count(('direct', json.dumps(r['case'], sort_keys=True)), True)
        print('replay: validate_bounds', v, '\ncompute_bounds', box, '\nmonitor code', res[0], CODES.get(res[0]))
        if res[0] != 0:
            pre = 'generated bounds code: ' if (r.get('via') == 'generated' and STATE['gen_ok']) else 'bounds: '
            chk.violation(pre + CODES.get(res[0], str(res[0])), CODES.get(res[0], str(res[0])), dict(kind='direct', code=res[0], via=r.get('via'), case=r['case']))
    else:
        print('replay: nothing executable in this replay file (proof/correspondence breakage): see its log field')
