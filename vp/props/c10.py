"""C10 — bandpass is the documented filter and nothing else.

Tie (route C): trackpy.preprocessing.bandpass / lowpass / boxcar and
trackpy.masks.gaussian_kernel are run on generated float64 images (2-D / 3-D);
the exact Q model (coq/Model/Bandpass.v, proved in Proofs/Bandpass.v to be the
pointwise definition of the property) is evaluated inside Coq on the same input
and compares pixel by pixel with the implementation's output (embedded in the
case term) within an a-priori rounding bound.  The model builds its OWN Gaussian
kernel (half-width floor(truncate*sigma + 1/2) computed in Coq over Q, weights
from an independently computed exp table), so a wrong kernel in the
implementation shows up both in the kernel comparison and pointwise.

Tie (route T): tools/py2coq_preproc.py re-translates the CURRENT source of
trackpy/preprocessing.py (lowpass, boxcar, bandpass) and trackpy/masks.py
(gaussian_kernel) into coq/Gen/preproc.v on every run, before the build;
Proofs/BandpassGen.v proves that the generated functions equal the hand model
(Model/Bandpass.v) for all inputs in 2-D and 3-D, and Properties/C10.v restates the
headline theorems for the generated py_bandpass.  A source that leaves the
translatable subset, or whose translation no longer equals the model, is
reported through chk.proof_broken; the run then still compares the implementation
with the hand model (the independent reference filter) to find a concrete input.

Monitor (on the implementation's outputs alone, float-exact where possible):
shape/dtype, `out == 0 or out >= threshold` for every pixel, input bytes
untouched / no shared memory, exact homogeneity under power-of-two scaling,
transposition, argument guard.
"""
import math, json, os, sys, hashlib
import numpy as np
from fractions import Fraction
import common
from common import cQ, cZ, cN, clist

IMPORTS = "From TP Require Import Model.Bandpass Model.BandpassCheck."
TRANSLATOR = os.path.join(common.VERIF, 'tools', 'py2coq_preproc.py')
GEN = os.path.join(common.COQ, 'Gen', 'preproc.v')
CODES = {0: 'ok',
         1: 'outcome differs: implementation and model disagree on returning an image / raising the scale error / raising the odd-size error',
         2: 'output shape differs from the input shape',
         3: 'a pixel differs from the documented filter (Gaussian-smoothed minus boxcar average, clipped below threshold) by more than the rounding bound',
         4: 'a pixel exactly at the threshold (within rounding) is neither kept nor zeroed',
         5: 'gaussian_kernel: length is not 2*int(truncate*sigma+0.5)+1',
         6: 'gaussian_kernel: weights are not the normalised samples of exp(-x^2/(2 sigma^2))'}
MSG_SCALE = 'smoothing length scale must be larger'
MSG_ODD = 'must be an odd integer'
TOL_BITS = 40          # tol = max|image| * 2^-40  (<= 4096 float operations per pixel, each <= max|image| * 2^-52)
KTOL = Fraction(1, 10 ** 12)
JOBS = 14


# --------------------------------------------------------------------------
# translator / build (route T)
# --------------------------------------------------------------------------
def regenerate(chk):
    """re-run the translator on the current source; returns (ok, text-or-log)"""
    rc, out = common.sh([sys.executable, TRANSLATOR, '--repo', common.REPO, '--stdout'], timeout=60)
    if rc != 0:
        return False, out
    with common.Lock(os.path.join(common.COQ, '.build.lock')):
        old = open(GEN).read() if os.path.exists(GEN) else None
        if old != out:
            os.makedirs(os.path.dirname(GEN), exist_ok=True)
            tmp = GEN + '.tmp%d' % os.getpid()
            with open(tmp, 'w') as f:
                f.write(out)
            os.replace(tmp, GEN)
            chk.tally('Gen/preproc.v rewritten (source differs from last run)')
        else:
            chk.tally('Gen/preproc.v unchanged')
    return True, out


def ensure_models(chk):
    """Model/BandpassCheck.vo (the executable hand model of the correspondence run) does not depend on the
    generated file: it is needed even when the translation or a proof about the generated code is broken"""
    def fresh(v):
        vo = os.path.join(common.COQ, v + 'o')
        return os.path.exists(vo) and os.path.getmtime(vo) >= os.path.getmtime(os.path.join(common.COQ, v))
    files = ('Model/Bandpass.v', 'Model/BandpassCheck.v')
    if all(fresh(v) for v in files):
        return True
    with common.Lock(os.path.join(common.COQ, '.build.lock')):
        rc, out = common.sh('timeout 600 make %s 2>&1 | tail -40' % ' '.join(v + 'o' for v in files), timeout=630, cwd=common.COQ)
        if not all(fresh(v) for v in files):
            chk.proof_broken('Model/Bandpass.v / Model/BandpassCheck.v (executable model does not build)', out)
            return False
    return True


def build(chk):
    """translator -> cone of Properties/C10.v.  False when the translation or a proof failed."""
    ok, text = regenerate(chk)
    if not ok:
        chk.proof_broken('translation tools/py2coq_preproc.py (bandpass / lowpass / boxcar / gaussian_kernel left the translatable subset)', text)
        chk.build = dict(obligations=0, discharged=0, assumptions=[], files=[], theorems=[])
        ensure_models(chk)
        return False
    for attempt in range(3):
        b = chk.coq()
        if open(GEN).read() == text:
            break
        # another run (different TRACKPY_REPO) rewrote the generated file in between: redo
        chk.violations = [v for v in chk.violations if not v[0].startswith('proof:')]
        regenerate(chk)
    chk.notes.append('Gen/preproc.v sha1 %s generated from %s' % (hashlib.sha1(text.encode()).hexdigest()[:12], common.REPO))
    if not b['ok']:
        # say which re-proof about the generated functions fails (the generic report only names the first stale file)
        with common.Lock(os.path.join(common.COQ, '.build.lock')):
            rc, out = common.sh('timeout 600 make Proofs/BandpassGen.vo 2>&1 | tail -40', timeout=630, cwd=common.COQ)
            vo, gv = os.path.join(common.COQ, 'Proofs', 'BandpassGen.vo'), GEN
            stale = not (os.path.exists(vo) and os.path.getmtime(vo) >= os.path.getmtime(gv))
        if stale and open(GEN).read() == text:
            chk.violations = [v for v in chk.violations if not v[0].startswith('proof:')]
            chk.proof_broken('Proofs/BandpassGen.v (the code generated from the current trackpy/preprocessing.py / masks.py no longer equals the model the C10 theorems are about)', out)
        ensure_models(chk)
    return bool(b['ok'])


# --------------------------------------------------------------------------
# exact parameters
# --------------------------------------------------------------------------
def half_width_exact(sigma, truncate):
    return int(Fraction(truncate) * Fraction(sigma) + Fraction(1, 2))     # int(): toward zero, as the code's int()


def expo_table(sigma, n):
    """exp(-k^2/(2 sigma^2)), k = 0..n-1, computed here (math.exp), not taken from the implementation"""
    return [math.exp(-(k * k) / (2.0 * sigma * sigma)) for k in range(n)]


def cQs(values):
    """Coq literals of a table of floats over ONE common power-of-two denominator
    (unreduced Qmake; lets the model add without gcd)"""
    fr = [Fraction(*float(v).as_integer_ratio()) for v in values]
    D = max([f.denominator for f in fr] + [1])
    return ["(Qmake (%d)%%Z %d%%positive)" % (f.numerator * (D // f.denominator), D) for f in fr]


def tup(v, ndim):
    return tuple(v) if hasattr(v, '__iter__') else (v,) * ndim


def par_term(sigma, truncate, size):
    if sigma > 0:
        ex = expo_table(float(sigma), max(half_width_exact(sigma, truncate), 0) + 3)
    else:
        ex = []
    return "(mkpar %s %s %s)" % (cQ(float(sigma)), clist(cQs(ex)), cZ(size))


def img_term(a, common_den=False):
    a = np.asarray(a, dtype=float)
    lits = cQs(a.ravel().tolist()) if common_den else [cQ(float(x)) for x in a.ravel()]

    def nest(shape, off):
        if len(shape) == 1:
            return clist(lits[off:off + shape[0]])
        step = int(np.prod(shape[1:]))
        return clist([nest(shape[1:], off + k * step) for k in range(shape[0])])
    return nest(a.shape, 0)


def pars_term(c):
    nd = c['image'].ndim
    ls, ll = tup(c['lshort'], nd), tup(c['llong'], nd)
    return "(" + ", ".join(par_term(s, c['truncate'], l) for s, l in zip(ls, ll)) + ")"


# --------------------------------------------------------------------------
# implementation side
# --------------------------------------------------------------------------
def classify(e):
    if isinstance(e, ValueError) and MSG_SCALE in str(e):
        return 1
    if isinstance(e, ValueError) and MSG_ODD in str(e):
        return 2
    return 3


def call_impl(c, image=None):
    """returns (kind, out_or_None, err_text)"""
    from trackpy import preprocessing as pp
    img = c['image'] if image is None else image
    kw = {}
    if c.get('pass_truncate', True):
        kw['truncate'] = c['truncate']
    try:
        if c['kind'] == 'bandpass':
            out = pp.bandpass(img, c['lshort'], c['llong'], c['threshold'], **kw)
        elif c['kind'] == 'lowpass':
            out = pp.lowpass(img, c['lshort'], **kw)
        else:
            out = pp.boxcar(img, c['llong'])
    except Exception as e:          # noqa
        return classify(e), None, repr(e)
    return 0, out, ''


def eff_threshold(c):
    return 1 / 255. if c['threshold'] is None else float(c['threshold'])


def tolerance(c):
    """a-priori rounding bound; 0 when float arithmetic is exact on this case"""
    img = c['image']
    M = float(np.max(np.abs(img))) if img.size else 0.0
    if c.get('exact'):
        return Fraction(0)
    return Fraction(M) / 2 ** TOL_BITS


def is_exact_case(c):
    """every Gaussian pass is the identity kernel [1.0] or skipped, and the image is
    integer-valued with every pixel a multiple of prod(llong): then every float
    operation of uniform_filter1d / correlate1d / subtraction is exact."""
    img = c['image']
    nd = img.ndim
    ls, ll = tup(c['lshort'], nd), tup(c['llong'], nd)
    if c['kind'] != 'boxcar':
        for s in ls:
            if s > 0 and half_width_exact(s, c['truncate']) != 0:
                return False
    if c['kind'] != 'lowpass':
        P = 1
        for l in ll:
            if l > 1:
                P *= l
        if not np.all(img == np.round(img)):
            return False
        if np.any(np.mod(img, P) != 0) or np.max(np.abs(img), initial=0) * P >= 2 ** 50:
            return False
    return True


def case_term(c, ik, out):
    img = c['image']
    nd = img.ndim
    tol = tolerance(c)
    iout = img_term(out) if out is not None else "[]"
    if c['kind'] == 'bandpass':
        return "(C_bp%d (%s, %s, (%s, %s), %s, (%s, %s)))" % (nd, cQ(float(c['truncate'])), pars_term(c), cQ(eff_threshold(c)), cQ(tol),
                                                              img_term(img, True), cN(ik), iout)
    which = 0 if c['kind'] == 'lowpass' else 1
    return "(C_lb%d (%s, %s, %s, %s, %s, (%s, %s)))" % (nd, cN(which), cQ(float(c['truncate'])), pars_term(c), cQ(tol), img_term(img, True), cN(ik), iout)


def jsonable(c):
    d = dict(c)
    d['image'] = c['image'].tolist()
    d['shape'] = list(c['image'].shape)
    d['lshort'] = list(c['lshort']) if hasattr(c['lshort'], '__iter__') else c['lshort']
    d['llong'] = list(c['llong']) if hasattr(c['llong'], '__iter__') else c['llong']
    return d


def unjson(d):
    c = dict(d)
    c['image'] = np.array(d['image'], dtype=float).reshape(d['shape'])
    c['lshort'] = tuple(d['lshort']) if isinstance(d['lshort'], list) else d['lshort']
    c['llong'] = tuple(d['llong']) if isinstance(d['llong'], list) else d['llong']
    c.pop('shape', None)
    return apply_layout(c)


def apply_layout(c):
    """memory layout of the array handed to the implementation (values unchanged)"""
    img = np.ascontiguousarray(c['image'], dtype=float)
    lay = c.get('layout', 'C')
    if lay == 'F':
        img = np.asfortranarray(img)
    elif lay == 'strided':
        big = np.zeros(tuple(2 * s for s in img.shape))
        big[...] = -12345.0
        view = big[tuple(slice(None, None, 2) for _ in img.shape)]
        view[...] = img
        img = view
    elif lay == 'readonly':
        img = img.copy()
        img.flags.writeable = False
    c['image'] = img
    return c


# --------------------------------------------------------------------------
# generators
# --------------------------------------------------------------------------
DYADIC_SIGMA = [0.25, 0.5, 0.625, 0.75, 0.875, 1.0, 1.125, 1.25, 1.5, 1.625, 2.0, 2.5, 3.0]
HALF_PAIRS = [(1.5, 3.0), (0.625, 4.0), (0.5, 3.0), (0.875, 4.0), (1.625, 4.0), (0.5, 5.0), (0.75, 6.0), (1.125, 4.0),
              (0.5, 9.0), (0.25, 10.0), (0.375, 4.0)]   # truncate*sigma = 4.5 2.5 1.5 3.5 6.5 2.5 4.5 4.5 4.5 2.5 1.5


def gen_image(rng, shape, kind, P=1):
    n = int(np.prod(shape))
    if kind == 'int':
        v = [float(rng.randint(0, 255)) for _ in range(n)]
    elif kind == 'float':
        b = rng.choice([8, 12, 20])
        v = [rng.randint(0, 2 ** b) / 2 ** b for _ in range(n)]
    elif kind == 'signed':
        v = [float(rng.randint(-100, 100)) for _ in range(n)]
    elif kind == 'impulse':
        v = [0.0] * n
        for _ in range(rng.randint(1, 2)):
            v[rng.randrange(n)] = float(rng.choice([1, 64, 255]))
    elif kind == 'const':
        v = [float(rng.choice([0, 1, 7, 200]))] * n
    elif kind == 'ramp':
        v = [float(i) for i in range(n)]
    elif kind == 'blobs':
        idx = np.indices(shape).reshape(len(shape), -1).T
        cs = [tuple(rng.uniform(0, s) for s in shape) for _ in range(rng.randint(1, 3))]
        v = []
        for p in idx:
            t = sum(200 * math.exp(-sum((a - b) ** 2 for a, b in zip(p, cc)) / 3.0) for cc in cs) + rng.randint(0, 20)
            v.append(float(int(t)))
    elif kind == 'multiple':      # integer multiples of P (exact float arithmetic)
        v = [float(P * rng.randint(0, 40)) for _ in range(n)]
    else:
        raise ValueError(kind)
    return np.array(v, dtype=float).reshape(shape)


def gen_shape(rng, nd, tier):
    if nd == 2:
        m = 12 if tier == 'quick' else 16
        return (rng.randint(1, m), rng.randint(1, m))
    m = 6 if tier == 'quick' else 7
    return tuple(rng.randint(1, m) for _ in range(3))


def gen_case(rng, tier):
    nd = rng.choice([2, 2, 3])
    shape = gen_shape(rng, nd, tier)
    kind = rng.choice(['bandpass'] * 6 + ['lowpass', 'boxcar'])
    style = rng.choice(['dyadic', 'dyadic', 'random', 'half', 'exact', 'exact', 'guard', 'even'])
    truncate = 4.0
    pass_truncate = rng.random() < 0.7
    if style == 'half':
        s, truncate = rng.choice(HALF_PAIRS)
        ls = [s if rng.random() < 0.7 else rng.choice(DYADIC_SIGMA) for _ in range(nd)]
        pass_truncate = True
    elif style == 'random':
        ls = [round(rng.uniform(0.3, 2.2), rng.choice([1, 2, 6])) for _ in range(nd)]
        if pass_truncate:
            truncate = rng.choice([1.0, 2.0, 3.0, 4.0, 5.0, 2.5, round(rng.uniform(0.5, 5), 3)])
    elif style == 'exact':
        # identity Gaussian: sigma = 0 (pass skipped) or int(truncate*sigma+0.5) = 0
        truncate = rng.choice([0.25, 0.3, 0.125])
        pass_truncate = True
        ls = [rng.choice([0.0, 1.0, 0.5, 1.5]) for _ in range(nd)]
    else:
        ls = [rng.choice(DYADIC_SIGMA + [0.0]) for _ in range(nd)]
        if pass_truncate:
            truncate = rng.choice([1.0, 2.0, 3.0, 4.0, 5.0, 0.3])
    if not pass_truncate:
        truncate = 4.0
    # smoothing sizes: odd, above lshort
    ll = []
    for s in ls:
        lo = int(math.floor(s)) + 1
        cands = [x for x in (1, 3, 5, 7, 9, 11) if x > s] or [lo | 1]
        ll.append(rng.choice(cands))
    if style == 'guard' and kind == 'bandpass':
        a = rng.randrange(nd)
        mode = rng.choice(['eq', 'above', 'justbelow', 'lastaxis'])
        if mode == 'lastaxis':
            a = nd - 1
        ll[a] = rng.choice([3, 5])
        ls[a] = {'eq': float(ll[a]), 'above': ll[a] + 0.5, 'justbelow': float(np.nextafter(ll[a], 0)), 'lastaxis': float(ll[a])}[mode]
        truncate, pass_truncate = 1.0, True
    if style == 'even':
        a = rng.randrange(nd)
        ll[a] = rng.choice([2, 4, 6, 0])
        if rng.random() < 0.3 and kind == 'bandpass':
            ls[rng.randrange(nd)] = 20.0         # both errors: the scale error comes first
            truncate, pass_truncate = 0.1, True
    # scalar or per-axis
    lshort = ls[0] if len(set(ls)) == 1 and rng.random() < 0.6 else tuple(ls)
    llong = ll[0] if len(set(ll)) == 1 and rng.random() < 0.6 else tuple(ll)
    P = 1
    for l in ll:
        if l > 1:
            P *= l
    if style == 'exact':
        ikind = 'multiple'
    else:
        ikind = rng.choice(['int', 'int', 'float', 'signed', 'impulse', 'impulse', 'const', 'ramp', 'blobs', 'blobs'])
    img = gen_image(rng, shape, ikind, P)
    c = dict(kind=kind, image=img, lshort=lshort, llong=llong, truncate=float(truncate), pass_truncate=pass_truncate,
             threshold=None, layout=rng.choice(['C', 'C', 'F', 'strided', 'readonly']), style=style, image_kind=ikind)
    # threshold
    r = rng.random()
    M = float(np.max(np.abs(img))) if img.size else 1.0
    if style == 'exact':
        c['threshold'] = 'pick'       # resolved after a first run: one of the exact unclipped values
    elif r < 0.2:
        c['threshold'] = None
    elif r < 0.35:
        c['threshold'] = 0.0
    elif r < 0.5:
        c['threshold'] = -float(rng.randint(1, 50)) * max(M, 1) / 64
    elif r < 0.6:
        c['threshold'] = 1
    else:
        c['threshold'] = float(rng.randint(0, 64)) * max(M, 1) / 128
    return apply_layout(c)


DARK_MODES = ['below', 'below', 'below', 'negative', 'negative', 'equal', 'negthr', 'raised']


def gen_dark(rng, tier):
    """signed / dark-frame-subtracted images placed relative to the threshold by their GLOBAL extremes:
    brightest pixel below the threshold (by A/64 .. 8A, A = contrast of the image), wholly <= 0, brightest pixel
    exactly ON the threshold, below a negative threshold, or floor raised far above zero.  The documented filter is
    local (smoothed minus rolling average), so where the floor is negative the zero border of the Gaussian and the
    subtraction of a negative background lift pixels ABOVE the image's maximum: such frames still have kept pixels.
    Any shortcut keyed on image.max() / min() / sign against the threshold is visible here and nowhere else
    (in every other family the brightest pixel is >= the threshold)."""
    nd = rng.choice([2, 2, 3])
    if nd == 2:
        m = 12 if tier == 'quick' else 16
        shape = (rng.randint(3, m), rng.randint(3, m))
    else:
        m = 6 if tier == 'quick' else 7
        shape = tuple(rng.randint(2, m) for _ in range(3))
    pass_truncate = rng.random() < 0.5
    truncate = rng.choice([2.0, 3.0, 4.0]) if pass_truncate else 4.0
    ls = [rng.choice([0.0, 0.5, 1.0, 1.0, 1.5, 2.0, 0.75]) for _ in range(nd)]
    ll = [rng.choice([x for x in (1, 3, 5, 7, 9, 11) if x > s]) for s in ls]
    lshort = ls[0] if len(set(ls)) == 1 and rng.random() < 0.6 else tuple(ls)
    llong = ll[0] if len(set(ll)) == 1 and rng.random() < 0.6 else tuple(ll)
    bkind = rng.choice(['blobs', 'blobs', 'int', 'float', 'noise', 'noise', 'impulse', 'ramp', 'const'])
    if bkind == 'noise':      # zero-mean, dyadic
        base = np.array([round(rng.gauss(0, 1) * 64) / 64 for _ in range(int(np.prod(shape)))], dtype=float).reshape(shape)
    else:
        base = gen_image(rng, shape, bkind)
    if bkind not in ('float', 'noise') and rng.random() < 0.4:
        base = base / 256.0                                   # [0, 1]-scaled frames (exact)
    A = float(np.ptp(base)) or 1.0
    bmax = float(base.max())
    mode = rng.choice(DARK_MODES)
    grid = lambda x: math.floor(x * 1024) / 1024              # keeps the pixel literals short
    frac = rng.choice([1, 2, 4, 8, 16]) / 32.0
    delta = A * rng.choice([1 / 64., 0.25, 1.0, 8.0])
    if mode == 'below':
        thr = rng.choice([None, None, 1, grid(frac * A) + 1 / 1024.])
        te = 1 / 255. if thr is None else float(thr)
        target = grid(te - delta)
        if not target < te:
            target -= 1 / 1024.
    elif mode == 'negative':
        thr = rng.choice([None, 0.0, 0.0, 1, grid(frac * A)])
        target = rng.choice([0.0, -grid(delta), -grid(delta)])
    elif mode == 'equal':
        thr = rng.choice([1, 0.0, grid(frac * A) + 1 / 1024.])
        target = float(thr)
    elif mode == 'negthr':
        thr = -(grid(frac * A) + 1 / 1024.)
        target = grid(thr - delta)
        if not target < thr:
            target -= 1 / 1024.
    else:                     # raised: floor far above zero
        thr = rng.choice([None, 0.0, 1, grid(frac * A)])
        target = bmax + A * rng.choice([8.0, 64.0])
    img = base - (bmax - target)
    c = dict(kind='bandpass', image=img, lshort=lshort, llong=llong, truncate=float(truncate), pass_truncate=pass_truncate,
             threshold=thr, layout=rng.choice(['C', 'C', 'F', 'strided', 'readonly']), style='dark', image_kind=bkind, dark_mode=mode)
    return apply_layout(c)


def dark_tally(chk, c, ik, out):
    """input distribution of the dark / signed family, told from the inputs and the observed output"""
    if not c.get('dark_mode') or c['kind'] != 'bandpass':
        return
    img, te = c['image'], eff_threshold(c)
    chk.tally('dark: mode=%s' % c['dark_mode'])
    mx = float(img.max()) if img.size else 0.0
    rel = 'below' if mx < te else ('on' if mx == te else 'above')
    chk.tally('dark: brightest input pixel %s the threshold%s' % (rel, ', floor negative' if img.size and float(img.min()) < 0 else ''))
    if ik == 0 and isinstance(out, np.ndarray) and rel != 'above':
        chk.tally('dark: brightest input pixel not above the threshold and the output %s' % ('has kept pixels' if np.count_nonzero(out) else 'is all zero'))


def resolve_exact_threshold(rng, c):
    """exact cases: put the threshold exactly on one of the (exactly computed) unclipped values"""
    if c['threshold'] != 'pick':
        return
    c['threshold'] = -1e300
    if c['kind'] == 'bandpass':
        ik, out, _ = call_impl(c)
        vals = sorted(set(np.asarray(out).ravel().tolist())) if ik == 0 and out is not None and out.size else [0.0]
        c['threshold'] = float(rng.choice(vals)) if rng.random() < 0.85 else float(rng.choice(vals)) + 0.5
    else:
        c['threshold'] = 0.0


def corpus():
    """hand-written tricky cases (run first on every tier)"""
    out = []

    def mk(kind, img, lshort, llong, thr, truncate=4.0, layout='C', pt=True):
        return apply_layout(dict(kind=kind, image=np.array(img, dtype=float), lshort=lshort, llong=llong, truncate=float(truncate),
                                 pass_truncate=pt, threshold=thr, layout=layout, style='corpus', image_kind='corpus'))
    imp = np.zeros((9, 11)); imp[4, 5] = 255.0
    cor = np.zeros((7, 8)); cor[0, 0] = 100.0; cor[6, 7] = 50.0
    ramp = np.arange(63, dtype=float).reshape(7, 9)
    # kernel half-width at x.5 products
    for s, t in HALF_PAIRS:
        out.append(mk('bandpass', imp, s, 11 if s * t < 5 else 15, 0.0, t))
        out.append(mk('lowpass', cor, (s, 1.0), 3, None, t))
    # default truncate, default threshold
    out.append(mk('bandpass', imp / 255., 1, 5, None, pt=False))
    out.append(mk('bandpass', ramp, 1, 5, None, pt=False))
    out.append(mk('bandpass', ramp, (0.5, 1.5), (3, 7), -5.0))
    # default threshold of float images is 1/255: unclipped values 0.00388, 0.003884, ... straddle 1/256 and 1/255
    row = np.zeros(66)
    row[1:65:4] = [1.5 * (0.00388 + k * 4e-6) for k in range(16)]
    out.append(mk('bandpass', np.vstack([row, 0 * row, row[::-1]]), 0.0, (1, 3), None, pt=False))
    out.append(mk('bandpass', np.vstack([row, 0 * row, row[::-1]]).T, 0.0, (3, 1), None, pt=False, layout='F'))
    out.append(mk('bandpass', np.stack([np.vstack([row[:34], row[32:]]), np.vstack([row[32:], row[:34]])]), 0.0, (1, 1, 3), None, pt=False))
    # borders: zeros outside for the Gaussian, edge replication for the box
    out.append(mk('bandpass', np.full((5, 6), 200.0), 1, 3, 0.0))
    out.append(mk('lowpass', np.full((5, 6), 200.0), 2, 3, 0.0))
    out.append(mk('boxcar', cor, 1, (5, 3), 0.0))
    out.append(mk('boxcar', ramp, 1, (1, 9), 0.0))
    out.append(mk('boxcar', ramp, 1, (11, 1), 0.0))
    # tiny images, kernel larger than the image
    out.append(mk('bandpass', [[7.0]], 1, 3, 0.0))
    out.append(mk('bandpass', [[1.0, 2.0, 4.0]], 2, 7, -10.0))
    out.append(mk('bandpass', [[1.0], [2.0], [4.0]], (2, 0.5), (7, 3), -10.0))
    # skipped passes
    out.append(mk('bandpass', ramp, (0.0, 1.0), (1, 5), 0.0))
    out.append(mk('bandpass', ramp, (1.0, 0.0), (5, 1), 0.0))
    out.append(mk('bandpass', ramp, 0.0, 1, 0.0))
    # guard boundary
    out.append(mk('bandpass', ramp, 3.0, 3, 0.0, 1))
    out.append(mk('bandpass', ramp, (1.0, 5.0), (3, 5), 0.0, 1))
    out.append(mk('bandpass', ramp, (5.0, 1.0), (5, 3), 0.0, 1))
    out.append(mk('bandpass', ramp, float(np.nextafter(3.0, 0)), 3, 0.0, 1))
    out.append(mk('bandpass', ramp, 3.5, 3, 0.0, 1))
    out.append(mk('bandpass', ramp, 1, 4, 0.0))
    out.append(mk('bandpass', ramp, 9.0, 4, 0.0, 0.1))
    out.append(mk('boxcar', ramp, 1, (3, 2), 0.0))
    # exact arithmetic: pixels exactly on the threshold
    ex = 9.0 * np.array([[0, 1, 2, 3, 4], [5, 4, 3, 2, 1], [0, 0, 7, 0, 0], [1, 1, 1, 1, 1]], dtype=float)
    for thr in (0.0, 9.0, -9.0, 18.0, 1.0, -12.0, 27.0):
        c = mk('bandpass', ex, 0.0, 3, thr)
        out.append(c)
        out.append(mk('bandpass', ex, 1.0, 3, thr, 0.25, layout='F'))
    # 3-D
    v = np.zeros((5, 6, 7)); v[2, 3, 3] = 255.0; v[0, 0, 6] = 31.0
    out.append(mk('bandpass', v, 1, 5, 0.0))
    out.append(mk('bandpass', v, (0.5, 1.0, 1.5), (3, 5, 7), None, 3))
    out.append(mk('bandpass', v, (0.625, 1.0, 0.0), (3, 5, 1), -1.0, 4))
    out.append(mk('lowpass', v, (1.5, 0.5, 1.0), 3, 0.0, 3))
    out.append(mk('boxcar', v, 1, (3, 5, 7), 0.0))
    out.append(mk('bandpass', v, (1.0, 1.0, 5.0), (3, 3, 5), 0.0, 1))
    out.append(mk('bandpass', 45.0 * np.arange(60, dtype=float).reshape(3, 4, 5), 0.0, (3, 5, 3), 45.0))
    # signed / dark-frame-subtracted frames: floor below zero, brightest pixel below the threshold; the documented
    # filter still keeps pixels (zero border of the Gaussian, negative background subtracted)
    yy, xx = np.mgrid[:12, :11]
    bl = np.floor(200 * np.exp(-((yy - 4) ** 2 + (xx - 6) ** 2) / 8.) + 150 * np.exp(-((yy - 9) ** 2 + (xx - 2) ** 2) / 8.))
    nz = ((yy * 37 + xx * 101 + yy * xx * 7) % 64 - 32) / 16.
    zz, y3, x3 = np.mgrid[:5, :6, :6]
    b3 = np.floor(64 * np.exp(-((zz - 2) ** 2 + (y3 - 3) ** 2 + (x3 - 2) ** 2) / 6.)) / 64.
    for c in (mk('bandpass', bl / 256. - 1.5, 1, 9, None, pt=False),
              mk('bandpass', bl - 500., 2, 11, 1),
              mk('bandpass', bl - 500., 1, (5, 7), 1, 3, layout='F'),
              mk('bandpass', bl - 200., 1, 5, 0.0),                       # brightest pixel exactly 0 = threshold
              mk('bandpass', bl - 199., 1, 5, 1),                         # brightest pixel exactly 1 = threshold
              mk('bandpass', nz - 10., 1, 5, 0.125),
              mk('bandpass', nz - 10., 0.0, 3, 0.125),                    # no Gaussian pass: image minus rolling average
              mk('bandpass', nz - 10., 1, 5, -0.5, layout='strided'),
              mk('bandpass', b3 - 2., 1, (3, 5, 5), 1 / 64.),
              mk('bandpass', b3 - 2., (0.5, 1.0, 1.0), 3, None, pt=False),
              mk('bandpass', bl + 5000., 1, 7, 1)):                       # floor raised far above zero
        c['dark_mode'] = 'corpus'
        out.append(c)
    for c in out:
        c['exact'] = is_exact_case(c)
    return out


# --------------------------------------------------------------------------
# monitor on the implementation's outputs (no model involved)
# --------------------------------------------------------------------------
def differs(a, b, tol, thr):
    """pixels where a and b differ beyond tol and that are NOT a clip decision within tol of the threshold"""
    d = np.abs(a - b)
    bad = d > tol
    if thr is not None:
        nearclip = ((a == 0) & (np.abs(b - thr) <= 2 * tol)) | ((b == 0) & (np.abs(a - thr) <= 2 * tol))
        bad &= ~nearclip
    return bad


def monitor(chk, c, ik, out, before_bytes):
    """returns list of (signature, text)"""
    v = []
    img = c['image']
    kind = c['kind']
    if img.tobytes() != before_bytes:
        v.append(('%s: input array modified' % kind, '%s modified the caller\'s image array' % kind))
    if ik != 0:
        return v
    if not isinstance(out, np.ndarray) or out.shape != img.shape:
        v.append(('%s: output shape differs' % kind, '%s output shape %r for input shape %r' % (kind, getattr(out, 'shape', None), img.shape)))
        return v
    if out.dtype != np.float64:
        v.append(('%s: output dtype' % kind, '%s output dtype %s for float64 input' % (kind, out.dtype)))
    if np.shares_memory(out, img):
        v.append(('%s: output aliases input' % kind, '%s returned memory shared with the input array' % kind))
    tol = float(tolerance(c))
    nd = img.ndim
    if kind == 'bandpass':
        thr = eff_threshold(c)
        ok = (out == 0) | (out >= thr)
        if not np.all(ok):
            p = tuple(int(x) for x in np.argwhere(~ok)[0])
            v.append(('bandpass: non-zero pixel below threshold', 'bandpass output pixel %r = %r is non-zero and below threshold %r' % (p, float(out[p]), thr)))
        if thr >= 0 and np.any(out < 0):
            v.append(('bandpass: negative pixel', 'bandpass output has a negative pixel with threshold %r >= 0' % thr))
        # exact homogeneity under power-of-two scaling
        if c['threshold'] is not None:
            for k in (3, -2):
                s = 2.0 ** k
                c2 = dict(c, image=img * s, threshold=float(c['threshold']) * s)
                ik2, out2, _ = call_impl(c2)
                if ik2 != 0 or not np.array_equal(out2, out * s):
                    v.append(('bandpass: not homogeneous', 'bandpass(%g*image, %g*threshold) != %g*bandpass(image, threshold) (power-of-two scaling is exact in floats)' % (s, s, s)))
                    break
    else:
        thr = None
    # transposition (all axes reversed) and, in 3-D, one random axis permutation
    perms = [tuple(range(nd))[::-1]]
    if nd == 3:
        perms.append(tuple(c.get('perm', (1, 2, 0))))
    for perm in perms:
        ls, ll = tup(c['lshort'], nd), tup(c['llong'], nd)
        c2 = dict(c, image=np.transpose(img, perm), lshort=tuple(ls[a] for a in perm), llong=tuple(ll[a] for a in perm))
        ik2, out2, err2 = call_impl(c2)
        if ik2 != 0:
            v.append(('%s: transposed call raises' % kind, '%s on the transposed image raised %s' % (kind, err2)))
            continue
        exp = np.transpose(out, perm)
        if out2.shape != exp.shape or np.any(differs(out2, exp, 4 * tol, thr)):
            v.append(('%s: does not commute with transposition' % kind, '%s(image.transpose%r, permuted sizes) != %s(image).transpose%r' % (kind, perm, kind, perm)))
    return v


# --------------------------------------------------------------------------
# gaussian_kernel correspondence
# --------------------------------------------------------------------------
def kernel_cases(rng, n):
    cs = [(s, t) for s, t in HALF_PAIRS]
    cs += [(1.0, 4.0), (0.5, 4.0), (2.0, 4.0), (1.0, 0.25), (3.0, 2.0), (0.25, 1.0), (0.25, 2.0), (0.125, 4.0)]
    # exactly at k+0.5 and one ulp either side
    for k in range(0, 8):
        s = rng.choice([0.5, 0.25, 1.0, 2.0])
        t = (k + 0.5) / s
        cs += [(s, t), (s, float(np.nextafter(t, 0))), (s, float(np.nextafter(t, 100)))]
    while len(cs) < n:
        if rng.random() < 0.5:
            cs.append((rng.choice(DYADIC_SIGMA), rng.choice([1.0, 2.0, 3.0, 4.0, 5.0, 6.0, 2.5, 0.5])))
        else:
            cs.append((round(rng.uniform(0.2, 3), 3), round(rng.uniform(0.2, 6), 3)))
    return cs


def kernel_term(s, t, ex, w):
    return "(C_gk (%s, %s, %s, %s, %s))" % (cQ(s), cQ(t), clist(cQs(ex)), cQ(KTOL), clist([cQ(float(x)) for x in w]))


def run_kernels(chk, rng, n):
    from trackpy.masks import gaussian_kernel
    terms, keep = [], []
    for s, t in kernel_cases(rng, n):
        lw = half_width_exact(s, t)
        if int(t * s + 0.5) != lw:
            chk.tally('kernel: float product truncate*sigma rounds across a half-integer (skipped)')
            continue
        try:
            w = np.asarray(gaussian_kernel(s, t), dtype=float)
        except Exception as e:   # noqa
            chk.violation('gaussian_kernel: raises', 'gaussian_kernel(%r, %r) raised %r' % (s, t, e), dict(kind='kernel', sigma=s, truncate=t))
            continue
        ex = expo_table(s, lw + 3)
        terms.append(kernel_term(s, t, ex, w))
        keep.append((s, t, w))
        prod = Fraction(s) * Fraction(t)
        chk.tally('kernel: truncate*sigma exactly k+1/2' if (prod * 2).denominator == 1 and prod.denominator == 2 else 'kernel: generic')
    res = common.coq_eval_lists(chk.work, IMPORTS, 'check_any', terms, shard=max(4, len(terms) // JOBS + 1), tag='kern', jobs=JOBS)
    for (s, t, w), r in zip(keep, res):
        chk.count(('kernel', s, t), len(w) >= 3)
        if r != 0:
            chk.violation('gaussian_kernel: %s' % CODES.get(r, r), 'gaussian_kernel(%r, %r) (length %d): %s' % (s, t, len(w), CODES.get(r, r)),
                          dict(kind='kernel', sigma=s, truncate=t, code=r, impl_kernel=w.tolist()))


# --------------------------------------------------------------------------
def evaluate(chk, cases):
    """run implementation + monitor on every case, then the model comparison inside Coq"""
    lst = []
    for c in cases:
        before = c['image'].tobytes()
        ik, out, err = call_impl(c)
        c['_impl'] = (ik, err)
        for sig, text in monitor(chk, c, ik, out, before):
            chk.violation(sig, text + ' [lshort=%r llong=%r threshold=%r truncate=%r shape=%r]' % (c['lshort'], c['llong'], c['threshold'], c['truncate'], c['image'].shape),
                          dict(kind='case', clause=sig, case=jsonable(strip(c))))
        lst.append((c, case_term(c, ik, out)))
        chk.tally('kind=%s %dD' % (c['kind'], c['image'].ndim))
        chk.tally('style=' + c['style'])
        dark_tally(chk, c, ik, out)
        chk.tally('layout=' + c.get('layout', 'C'))
        chk.tally('impl outcome=%s' % {0: 'image', 1: 'scale error', 2: 'odd error', 3: 'other exception'}[ik])
        if c.get('exact'):
            chk.tally('exact-arithmetic case (tol = 0, clip decision compared exactly)')
    if True:
        res = common.coq_eval_lists(chk.work, IMPORTS, 'check_any', [t for _, t in lst], shard=max(4, min(40, len(lst) // (3 * JOBS) + 1)), tag='cases', jobs=JOBS)
        for (c, _), r in zip(lst, res):
            code, near = r % 16, r // 16
            if near:
                chk.tally('pixels within tolerance of the threshold (clip decision not compared)', near)
            nontrivial = c['_impl'][0] == 0 and c['image'].size >= 6 and float(np.ptp(c['image'])) > 0
            chk.count(('case', json.dumps(jsonable(strip(c)), sort_keys=True, default=str)), nontrivial)
            if code != 0:
                chk.violation('%s: %s' % (c['kind'], CODES.get(code, code)),
                              '%s(shape=%r, lshort=%r, llong=%r, threshold=%r, truncate=%r): %s; implementation outcome %r' % (
                                  c['kind'], c['image'].shape, c['lshort'], c['llong'], c['threshold'], c['truncate'], CODES.get(code, code), c['_impl']),
                              dict(kind='case', code=code, case=jsonable(strip(c))))


def strip(c):
    return {k: v for k, v in c.items() if not k.startswith('_')}


def run(chk):
    common.quiet_trackpy()
    build(chk)
    rng = chk.rng
    n = 170 if chk.tier == 'quick' else 2200
    cases = corpus()
    for k in range(n):
        c = gen_case(rng, chk.tier)
        resolve_exact_threshold(rng, c)
        c['exact'] = is_exact_case(c)
        # skip (and count) the cases where the float product truncate*sigma rounds across k+1/2
        nd = c['image'].ndim
        if any(s > 0 and int(c['truncate'] * s + 0.5) != half_width_exact(s, c['truncate']) for s in tup(c['lshort'], nd)):
            chk.tally('skipped: float truncate*sigma rounds across a half-integer')
            continue
        cases.append(c)
    for k in range(36 if chk.tier == 'quick' else 450):
        c = gen_dark(rng, chk.tier)
        c['exact'] = False
        cases.append(c)
    for c in cases:
        p = [0, 1, 2]
        rng.shuffle(p)
        c['perm'] = list(p)          # 3-D: the extra axis permutation tried by the transposition monitor
    evaluate(chk, cases)
    run_kernels(chk, rng, 60 if chk.tier == 'quick' else 600)
    chk.sample(jsonable(strip(cases[0])))
    chk.sample(jsonable(strip(cases[len(cases) // 2])))
    chk.coverage['rule'] = ("float64 images 2-D (<=12x12 quick / 16x16 thorough) and 3-D (<=6^3 / 7^3): integer, dyadic-float, signed, impulse, constant, ramp, blob and "
                            "multiple-of-prod(llong) images in C / Fortran / strided-view / read-only layouts; lshort dyadic or random per axis or scalar incl. 0 and "
                            "truncate*lshort exactly k+1/2; odd llong scalar or per axis, also 1, even, and <= lshort; threshold None / 0 / negative / on a pixel value; "
                            "bandpass, lowpass, boxcar each compared pixelwise with the exact Q model inside Coq; gaussian_kernel compared with the model kernel; "
                            "dark / signed family (style=dark, 36 quick / 450 thorough + corpus): blob, integer, dyadic-float, zero-mean-noise, impulse, ramp and constant frames (also /256) "
                            "shifted so that the brightest pixel lies below the threshold by contrast/64 .. 8*contrast (threshold None = 1/255, 1, or a fraction of the contrast), is exactly ON the "
                            "threshold, the whole frame is <= 0, lies below a negative threshold, or the floor is raised 8..64 contrasts above zero -- the frames on which the documented local filter "
                            "exceeds the image's own maximum (negative background subtracted, zero border of the Gaussian), tallied by mode, by brightest-pixel-vs-threshold and by whether pixels are kept; "
                            "hand-written corpus first. non-trivial = implementation returned an image with >= 6 pixels that is not constant; distinct by content")
    chk.assumptions += ["route T: tools/py2coq_preproc.py (fail-closed) and the vocabulary Model/PyPreproc.v are trusted: validate_tuple is a named primitive (its AST is compared with a pinned copy), "
                        "@memo on gaussian_kernel is read as transparent, np.array(image, dtype=float) / image.copy() as value-preserving new arrays (aliasing is observed by the monitor, not modelled), "
                        "image.dtype only selects the default threshold (the integer-dtype rounding of scipy's boxcar passes is outside the model and the property), `1/255.` is read as the rational 1/255",
                        "scipy.ndimage.correlate1d(mode='constant', cval=0) and uniform_filter1d(mode='nearest') modelled by their mathematical meaning (exercised by every case, not verified)",
                        "exp(-x^2/(2 sigma^2)) enters the model as a table computed with math.exp (modelled, not verified); gaussian_kernel's half-width, arange, normalisation are modelled and compared",
                        "float rounding: implementation pixels compared with the exact rational result within max|image| * 2^-40 (<= 4096 operations of relative error 2^-52 per pixel); "
                        "pixels whose exact value is within that bound of the threshold are exempt from the clip comparison and counted; exact-arithmetic cases (identity Gaussian, "
                        "pixels multiples of prod(llong)) are compared with tolerance 0",
                        "float64 images only (integer and float32 images are outside the property's statement); cases where the float product truncate*sigma+0.5 rounds across an integer are skipped and counted",
                        "input purity, dtype and aliasing are observed on the numpy buffers (byte comparison), not proved"]


def replay(chk, path):
    common.quiet_trackpy()
    build(chk)
    r = json.load(open(path))['replay']
    if r.get('kind') == 'case':
        c = unjson(r['case'])
        evaluate(chk, [c])
        print('replay: %s shape=%r lshort=%r llong=%r threshold=%r truncate=%r -> implementation outcome %r, violations %d' % (
            c['kind'], c['image'].shape, c['lshort'], c['llong'], c['threshold'], c['truncate'], c['_impl'], len(chk.violations)))
    elif r.get('kind') == 'kernel':
        from trackpy.masks import gaussian_kernel
        s, t = r['sigma'], r['truncate']
        w = np.asarray(gaussian_kernel(s, t), dtype=float)
        ex = expo_table(s, half_width_exact(s, t) + 3)
        res = common.coq_eval_lists(chk.work, IMPORTS, 'check_any', [kernel_term(s, t, ex, w)], tag='kern')
        chk.count(('kernel', s, t), True)
        print('replay: gaussian_kernel(%r, %r) length %d, model half-width %d, code %d %s' % (s, t, len(w), half_width_exact(s, t), res[0], CODES.get(res[0])))
        if res[0] != 0:
            chk.violation('gaussian_kernel: %s' % CODES.get(res[0]), CODES.get(res[0]), r)
    else:
        print('replay: nothing executable in this replay file (proof/correspondence breakage): see its log field')
